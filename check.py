#!/usr/bin/env python3
"""./check <property-id> [--tier quick|thorough] [--replay file]

Decides one property by bounded symbolic execution of /repo's current MIR (mirsym) plus, where
registered, Kani harnesses; confirms counterexamples natively; writes evidence/<id>.json.
exit 0: held on everything explored (KNOWN-FINDING lines allowed); 1: VIOLATION; 2: INCONCLUSIVE."""
import sys, os, json, time, argparse, subprocess, tempfile, collections, importlib, shutil
VERIF=os.path.dirname(os.path.abspath(__file__))
sys.path.insert(0,VERIF)
sys.setrecursionlimit(20000)
from mirsym import runner
from mirsym.values import Unsupported

def build_replay():
    t=time.time()
    env=dict(os.environ); env['CARGO_TARGET_DIR']=os.path.join(runner.BUILD,'replay-target'); env['CARGO_NET_OFFLINE']='true'
    env['RUSTFLAGS']=(env.get('RUSTFLAGS','')+' --cfg in_toto_rs_verif').strip()
    p=subprocess.run(['cargo','build','--offline','--quiet'],cwd=os.path.join(VERIF,'replay'),env=env,stdout=subprocess.PIPE,stderr=subprocess.STDOUT)
    if p.returncode!=0:
        sys.stderr.write(p.stdout.decode(errors='replace')[-6000:])
        raise Unsupported('native replay crate does not build against /repo')
    return os.path.join(env['CARGO_TARGET_DIR'],'debug','intoto-replay'),time.time()-t

def native(binary,scenarios,timeout=600):
    if not scenarios: return []
    d=tempfile.mkdtemp(prefix='verif-replay-')
    try:
        f=os.path.join(d,'sc.json'); json.dump(scenarios,open(f,'w'))
        env=dict(os.environ); env['VERIF_REPO']=runner.REPO
        p=subprocess.run([binary,f],cwd=d,env=env,stdout=subprocess.PIPE,stderr=subprocess.PIPE,timeout=timeout)
        if p.returncode!=0: raise Unsupported('replay binary failed: '+p.stderr.decode(errors='replace')[-800:])
        return json.loads(p.stdout.decode(errors='replace').strip().split('\n')[-1])     # the crate itself prints debug lines to stdout
    finally:
        shutil.rmtree(d,ignore_errors=True)

def load_known(pid):
    p=os.path.join(VERIF,'known_findings.json')
    if not os.path.exists(p): return []
    kf=json.load(open(p))
    return [f for f in kf.get('findings',[]) if f['property']==pid]

def verdict_class(o):
    return 'ok' if o.startswith('ok') else ('panic' if o.startswith('panic') else 'err')
def matches_expect(native_res,pred):
    """does the native result reproduce the interpreter's predicted outcome?"""
    outs=native_res.get('outcomes') or [native_res.get('outcome')]
    outs=['panic' if o.startswith('panic') else o for o in outs]
    if isinstance(pred,dict) and 'not' in pred:      # the native run must deviate from the CORRECT outcome (how exactly may depend on e.g. directory order)
        return all(o!=pred['not'] for o in outs)
    if pred=='nondeterministic-summary': return len(native_res.get('summaries') or [])>1
    if isinstance(pred,(list,tuple)):           # verdict depends on iteration order: both classes must show up natively
        return len(set(verdict_class(o) for o in outs))>1
    if pred=='err': return all(o.startswith('err') for o in outs)
    if pred=='ran-inspection': return any(ev for ev in native_res.get('events',[]))
    return len(set(outs))==1 and outs[0]==pred

def summary_matches(native_res,exp):
    if not exp: return True
    sm=native_res.get('summaries') or []
    if len(sm)!=1: return False
    got=sm[0]
    for part in ('materials','products'):
        if part in exp:
            want={p:{'sha256':''.join('%02x'%b for b in dg)} for p,dg in exp[part].items()}
            if got.get(part)!=want: return False
    for part in ('name','command'):
        if part in exp and got.get(part)!=exp[part]: return False
    return True

def main():
    ap=argparse.ArgumentParser()
    ap.add_argument('pid'); ap.add_argument('--tier',default=os.environ.get('VERIF_TIER','quick'))
    ap.add_argument('--replay',default=None); ap.add_argument('--jobs',type=int,default=0)
    ap.add_argument('--only',default=None,help='run only obligations whose name contains this')
    a=ap.parse_args()
    pid=a.pid; tier=a.tier if a.tier in('quick','thorough') else 'quick'
    seed=int(os.environ.get('VERIF_SEED','0') or 0)
    t0=time.time()
    from harness import registry
    if pid not in registry.PROPS:
        print('INCONCLUSIVE property=%s reason=not-registered'%pid); return 2
    spec=registry.PROPS[pid]
    # an independent second solver (cvc5) re-decides a sample of the obligation queries (every 40th in the quick tier, every 10th in the thorough tier)
    os.environ.setdefault('VERIF_SECOND_SOLVER_RATE','40' if tier=='quick' else '10')
    evid={'property_id':pid,'tier':tier,'seed':seed,'level':'model_checking','coverage':{},'assumptions':list(spec.get('assumptions',[])),'wall_s':0.0,'violations':0}
    inconclusive=[]; lines=[]
    try:
        binary,build_s=build_replay()
        if a.replay:
            sc=json.load(open(a.replay))
            res=native(binary,sc['scenarios'] if isinstance(sc,dict) else sc)
            print(json.dumps(res,indent=1)); return 0
        mir,dg,mir_s=runner.dump_mir()
    except Unsupported as e:
        print('INCONCLUSIVE property=%s reason=%s'%(pid,str(e)[:300])); return 2
    known=load_known(pid)
    known_keys={k['key'] for k in known}
    cov={'states':0,'transitions':0,'traces_validated_against_impl':0,'samples':[],'exhaustive':False,
         'obligation_details':[], 'obligations':0, 'discharged':0, 'functions_encoded':{}, 'models_and_stubs_invoked':{}, 'solver_s':0.0,'witnesses':{},
         'mir_source_digest':dg,'mir_dump_s':round(mir_s,2),'replay_build_s':round(build_s,2),'known_findings_matched':[],
         'counterexamples_replayed':0,'second_solver':{'solver':'cvc5 1.0 on the SMT-LIB2 dump of sampled obligation queries','asked':0,'agree':0,'disagree':0,'undecided':0}}
    viol_unknown=[]; known_hit=collections.OrderedDict()
    for ob in spec['obligations']:
        modname,clsname,params=ob['module'],ob['cls'],dict(ob.get(tier,ob.get('quick',{})))
        if a.only and a.only not in ob.get('name',clsname): continue
        if ob.get('tier_only') and ob['tier_only']!=tier: continue
        params['seed']=seed
        params['known']=sorted(known_keys)
        agg=runner.run_obligation(modname,clsname,tier,mir,jobs=a.jobs or None,params=params)
        recs=agg['recs']
        cov['states']+=agg['paths']; cov['transitions']+=agg['queries']; cov['solver_s']+=agg['solver_s']
        for k,v in agg['fn_hashes'].items(): cov['functions_encoded'][k]=v
        for k,v in agg['used'].items(): cov['models_and_stubs_invoked'][k]=cov['models_and_stubs_invoked'].get(k,0)+v
        for k,v in (agg.get('second') or {}).items(): cov['second_solver'][k]=cov['second_solver'].get(k,0)+v
        oc=collections.Counter(r['outcome'] for r in recs)
        wit=set(w for r in recs for w in r.get('wit',[]))
        missing=[w for w in agg['witnesses'] if w not in wit]
        obl=sum(r.get('obl',0) for r in recs)
        entry={'name':agg['name'],'bounds':agg['bounds'],'paths':agg['paths'],'infeasible_prefixes':agg['infeasible'],'solver_queries':agg['queries'],
               'solver_s':round(agg['solver_s'],2),'wall_s':round(agg['wall'],2),'outcomes':dict(oc),'obligation_queries':obl,
               'witnesses_reached':sorted(wit),'witnesses_missing':missing,'hash_map_order':agg['hash_order']}
        cov['obligation_details'].append(entry); cov['obligations']+=obl; cov['discharged']+=obl-len([r for r in recs if r.get('viol')])
        for w in wit: cov['witnesses'][agg['name']+'.'+w]=True
        if agg['errors']:
            inconclusive.append('%s: %s'%(agg['name'],agg['errors'][0][:400])); continue
        if missing:
            inconclusive.append('%s: vacuity witnesses unreachable: %s'%(agg['name'],missing))
        # ---- translator validation: replay sampled non-violating paths natively
        samples=[r['sample'] for r in recs if r.get('sample') and not r.get('viol')]
        import random
        rnd=random.Random(seed); rnd.shuffle(samples)
        nval=ob.get('validate',{'quick':16,'thorough':128})[tier]
        samples=samples[:nval]
        if samples:
            try:
                res=native(binary,[s['scenario'] for s in samples])
            except Unsupported as e:
                inconclusive.append('%s: %s'%(agg['name'],e)); res=[]
            for s,r in zip(samples,res):
                if matches_expect(r,s['expect']) and all(r.get(k)==want for k,want in (s.get('confirm') or {}).items()) and summary_matches(r,s.get('expect_summary')) and (not s.get('expect_no_events') or all(not ev for ev in r.get('events',[]))): cov['traces_validated_against_impl']+=1
                else:
                    inconclusive.append('%s: translator validation mismatch: interpreter=%s native=%s scenario=%s'%(agg['name'],s['expect'],r,json.dumps(s['scenario'])[:300]))
            for s,r in list(zip(samples,res))[:2]:
                cov['samples'].append({'obligation':agg['name'],'scenario':s['scenario'],'interpreter':s['expect'],'native':r.get('outcome')})
        # ---- violations: confirm natively, classify against known findings
        viols=[r['viol'] for r in recs if r.get('viol')]
        by=collections.OrderedDict()
        for v in viols: by.setdefault((v.get('known_key'),v['kind']),[]).append(v)
        for (kk,kind),vs in by.items():
            todo=[v for v in vs if v.get('scenario') is not None][:3]
            confirmed=[]
            if todo:
                try: res=native(binary,[v['scenario'] for v in todo])
                except Unsupported as e:
                    inconclusive.append('%s: %s'%(agg['name'],e)); res=[]
                for v,r in zip(todo,res):
                    cov['counterexamples_replayed']+=1
                    if matches_expect(r,v['predicted']) and all(r.get(k)==want for k,want in (v.get('confirm') or {}).items()): confirmed.append((v,r))
                    else: inconclusive.append('%s: counterexample (%s) does not reproduce natively: predicted=%s native=%s scenario=%s'%(agg['name'],kind,v['predicted'],r,json.dumps(v['scenario'])[:400]))
            else:
                inconclusive.append('%s: violation %s without replayable scenario'%(agg['name'],kind))
            if not confirmed: continue
            if kk is not None and kk in known_keys:
                known_hit.setdefault(kk,{'count':0,'example':confirmed[0][0]['scenario'],'native':confirmed[0][1]})
                known_hit[kk]['count']+=len(vs)
            else:
                viol_unknown.append({'obligation':agg['name'],'kind':kind,'count':len(vs),'scenario':confirmed[0][0]['scenario'],'native':confirmed[0][1],'what':confirmed[0][0].get('what','')})
    # ---- extra engines (Kani) registered for the property
    for ex in spec.get('extra',[]):
        if ex.get('tier_only') and ex['tier_only']!=tier: continue
        mod=importlib.import_module(ex['module'])
        r=getattr(mod,ex['fn'])(tier=tier,seed=seed,**ex.get('args',{}))
        cov.setdefault('kani',[]).append(r['evidence'])
        for v in r.get('violations',[]): viol_unknown.append(v)
        for k in r.get('known',[]): known_hit.setdefault(k['key'],{'count':1,'example':k.get('example'),'native':k.get('native')})
        if r.get('inconclusive'): cov.setdefault('kani_inconclusive',[]).append(r['inconclusive'])
    # ---- report
    rc=0
    for k in known:
        if k['key'] in known_hit:
            print('KNOWN-FINDING: property=%s %s'%(pid,k['what']))
            cov['known_findings_matched'].append({'key':k['key'],'paths':known_hit[k['key']]['count'],'example':known_hit[k['key']]['example'],'native':known_hit[k['key']]['native']})
    if viol_unknown:
        os.makedirs(os.path.join(VERIF,'replays'),exist_ok=True)
        for i,v in enumerate(viol_unknown):
            path=os.path.join(VERIF,'replays','%s-%s-%d.json'%(pid,tier,i))
            json.dump({'property':pid,'obligation':v.get('obligation'),'kind':v['kind'],'what':v.get('what',''),'paths':v.get('count',1),'scenarios':[v['scenario']],'native_result':v.get('native')},open(path,'w'),indent=1)
            print('VIOLATION property=%s replay=%s'%(pid,path))
            print('  kind=%s obligation=%s native=%s'%(v['kind'],v.get('obligation'),json.dumps(v.get('native'))[:300]))
        rc=1
    if inconclusive and rc==0:
        for m in inconclusive[:8]: print('INCONCLUSIVE property=%s reason=%s'%(pid,m))
        rc=2
    evid['violations']=len(viol_unknown)
    cov['solver_s']=round(cov['solver_s'],2)
    cov['inconclusive']=inconclusive[:20]
    cov['trusted_base']=sorted(cov['models_and_stubs_invoked'].keys())
    if not cov['samples']:
        cov['samples']=[{'obligation':o['name'],'outcomes':o['outcomes']} for o in cov['obligation_details']] or [{'note':'no paths'}]
    cov['states']=max(cov['states'],0); cov['transitions']=max(cov['transitions'],0)
    evid['coverage']=cov; evid['wall_s']=round(time.time()-t0,2)
    evid['bounds_statement']=spec.get('bounds_statement','')
    os.makedirs(os.path.join(VERIF,'evidence'),exist_ok=True)
    cov['checker_cmd']='./check %s --tier %s'%(pid,tier)
    try:
        import jsonschema
        jsonschema.validate(evid,json.load(open(os.path.join(VERIF,'schemas','EVIDENCE.schema.json'))))
    except ImportError: pass
    except Exception as e:
        print('INCONCLUSIVE property=%s reason=evidence does not validate: %s'%(pid,str(e)[:200])); rc=rc or 2
    json.dump(evid,open(os.path.join(VERIF,'evidence','%s.json'%pid),'w'),indent=1,sort_keys=True)
    print('%s tier=%s rc=%d paths=%d queries=%d validated=%d wall=%.1fs'%(pid,tier,rc,cov['states'],cov['transitions'],cov['traces_validated_against_impl'],time.time()-t0))
    return rc

if __name__=='__main__':
    sys.exit(main())
