#!/usr/bin/env python3
"""tools/seed_regression.py [--repo DIR] [--first] [seed-name ...]
Applies every stored seeded change (seeded/<name>/patch.diff) to the repository in turn, runs the checks listed in its
meta.json `caught_by`, and reports whether at least one of them exits 1 with a VIOLATION line.  With --repo pointing at a
scratch copy of /repo (e.g. $VP_RUN_REPO of `vp run --with-repo`), /repo itself is left alone: the copy of /verif this
script runs from then gets its replay crate re-pointed at that directory (never do that in /verif itself)."""
import sys, os, json, subprocess, re
HERE=os.path.dirname(os.path.dirname(os.path.abspath(__file__)))
args=sys.argv[1:]; repo='/repo'
first='--first' in args          # stop at the first check that reports the change
if first: args.remove('--first')
if '--repo' in args: i=args.index('--repo'); repo=args[i+1]; del args[i:i+2]
names=args or sorted(os.listdir(os.path.join(HERE,'seeded')))
env=dict(os.environ); env['VERIF_REPO']=repo
if repo!='/repo':
    assert HERE!='/verif', 'refusing to re-point /verif/replay at a scratch repository'
    p=os.path.join(HERE,'replay','Cargo.toml'); s=open(p).read(); s=s.replace('path = "/repo"','path = "%s"'%repo); open(p,'w').write(s)
def sh(cmd,**kw): return subprocess.run(cmd,stdout=subprocess.PIPE,stderr=subprocess.STDOUT,text=True,**kw)
assert sh(['git','-C',repo,'diff','--quiet']).returncode==0,'repository dirty'
res={}
for n in names:
    d=os.path.join(HERE,'seeded',n)
    if not os.path.exists(os.path.join(d,'patch.diff')): continue
    meta=json.load(open(os.path.join(d,'meta.json')))
    ids=[c.split(':')[0] for c in meta.get('caught_by',[])] or [meta['property']]
    a=sh(['git','-C',repo,'apply',os.path.join(d,'patch.diff')])
    if a.returncode!=0: res[n]='PATCH-DOES-NOT-APPLY'; print(n,res[n],flush=True); continue
    out=[]
    try:
        for pid in ids:
            r=sh([os.path.join(HERE,'check'),pid,'--tier','quick'],env=env,cwd=HERE)
            viol=bool(re.search(r'^VIOLATION property=',r.stdout,re.M))
            out.append('%s:rc=%d%s'%(pid,r.returncode,'' if (r.returncode==1)==viol else '?'))
            if first and r.returncode==1: break
    finally:
        sh(['git','-C',repo,'checkout','--','.'])
    res[n]=' '.join(out)+('  CAUGHT' if any(':rc=1' in o for o in out) else '  MISSED')
    print(n,res[n],flush=True)
missed=[n for n,v in res.items() if not v.endswith('CAUGHT')]
print('seeds',len(res),'caught',len(res)-len(missed),'missed',missed)
