#!/usr/bin/env python3
"""tools/mk_seed_prompt.py <property-id> <tag> [extra guidance] : prints the prompt handed to an independent
sub-agent that is to produce a seeded change for <property-id>.  The sub-agent sees only the property text and its
own scratch worktree /tmp/wt_<tag>; its deliverables go to /tmp/seed_out/<tag>/."""
import sys, json
pid,tag=sys.argv[1],sys.argv[2]; extra=sys.argv[3] if len(sys.argv)>3 else ''
P=None
for l in open('/verif/properties.jsonl'):
    p=json.loads(l)
    if p['id']==pid: P=p
T=open('/verif/tools/seed_prompt_template.txt').read()
out=T.replace('@PID@',pid).replace('@TAG@',tag).replace('@TITLE@',P['title']).replace('@STATEMENT@',P['statement']).replace('@QUANT@',P['quantifier']['text'])
if extra: out+='\nAdditional guidance: '+extra+'\n'
print(out)
