#!/usr/bin/env python3
"""tools/save_seed.py <seed-name> <src dir> <verify-json-line> <property> <caught_by: 'C04:quick,...'> [note]
Stores a confirmed seeded change under /verif/seeded/<seed-name>/ (patch.diff, demo.rs, meta.json)."""
import sys, json, os, shutil
name,src,vj,prop,caught=sys.argv[1:6]
note=sys.argv[6] if len(sys.argv)>6 else ''
dst='/verif/seeded/'+name
os.makedirs(dst,exist_ok=True)
shutil.copy(src+'/patch.diff',dst+'/patch.diff'); shutil.copy(src+'/demo.rs',dst+'/demo.rs')
am=json.load(open(src+'/meta.json'))
v=json.loads(vj)
meta={'property':prop,'summary':am.get('summary'),'needs_to_manifest':am.get('needs_to_manifest'),'files_changed':am.get('files_changed'),
      'demo_placement':am.get('demo_placement') or 'tests/seed_demo.rs','demo_rustflags':am.get('demo_rustflags') or '','origin':'independent sub-agent given only the property text and a scratch worktree',
      'confirmed_by_me':{'how':'tools/verify_seed.sh in a scratch worktree of /repo HEAD (removed afterwards)','result':v},
      'checks_run':['tools/try_seed.sh seeded/%s/patch.diff %s'%(name,' '.join(c.split(':')[0] for c in caught.split(',') if c))],
      'caught_by':[c for c in caught.split(',') if c],'note':note}
json.dump(meta,open(dst+'/meta.json','w'),indent=1)
print('saved',dst)
