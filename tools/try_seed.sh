#!/bin/sh
# tools/try_seed.sh <patch.diff> <property-id>... : apply a seeded change to /repo, run the checks, undo it
P="$1"; shift
cd /repo || exit 3
git diff --quiet || { echo "repo dirty"; exit 3; }
git apply "$P" || { echo "patch does not apply"; exit 3; }
for id in "$@"; do (cd /verif && ./check "$id" ${TIER:+--tier $TIER} 2>&1 | grep -E "^(VIOLATION|INCONCLUSIVE|KNOWN|C[0-9]+ tier)" | cut -c1-300 | head -${LINES_MAX:-6}); done
git checkout -- . && git status --short
