#!/bin/sh
# tools/try_seed.sh <patch.diff> <property-id>... : apply a seeded change to /repo, run the checks, undo it
P="$1"; shift
cd /repo || exit 3
git diff --quiet || { echo "repo dirty"; exit 3; }
git apply "$P" || { echo "patch does not apply"; exit 3; }
for id in "$@"; do (cd /verif && ./check "$id" ${TIER:+--tier $TIER} > /tmp/try_seed_$$.log 2>&1; grep -E "^(VIOLATION|INCONCLUSIVE|KNOWN|C[0-9]+ tier)" /tmp/try_seed_$$.log | cut -c1-300 | head -${LINES_MAX:-6}; grep -qE "^C[0-9]+ tier|^INCONCLUSIVE" /tmp/try_seed_$$.log || { echo "CHECK CRASHED:"; tail -5 /tmp/try_seed_$$.log; }; rm -f /tmp/try_seed_$$.log); done
git checkout -- . && git status --short
