#!/bin/sh
# tools/verify_seed.sh <id> <dir with patch.diff, demo.rs, meta.json>
# Confirms in a scratch worktree of /repo HEAD: demo passes without the change; with the change the crate
# builds, the demo fails, and the existing test suite passes.  Prints a JSON verdict line.
ID="$1"; SRC="$2"
WT=/tmp/vs_$ID
export CARGO_TARGET_DIR=/tmp/vs_target_$ID CARGO_NET_OFFLINE=true
git -C /repo worktree remove --force $WT 2>/dev/null
git -C /repo worktree add -q --detach $WT HEAD || exit 3
cd $WT
PLACE=$(python3 -c "import json;print(json.load(open('$SRC/meta.json')).get('demo_placement') or 'tests/seed_demo.rs')")
mkdir -p $(dirname $PLACE); cp $SRC/demo.rs $PLACE
TESTNAME=$(basename $PLACE .rs)
DEMOFLAGS=$(python3 -c "import json;print(json.load(open('$SRC/meta.json')).get('demo_rustflags') or '')")
RUSTFLAGS="$DEMOFLAGS" cargo test --offline --test $TESTNAME >/tmp/vs_$ID.base.log 2>&1; BASE=$?; grep -q "test result: ok. 0 passed" /tmp/vs_$ID.base.log && BASE=9
git apply $SRC/patch.diff; APPLY=$?
cargo build --offline >/tmp/vs_$ID.build.log 2>&1; BUILD=$?
RUSTFLAGS="$DEMOFLAGS" cargo test --offline --test $TESTNAME >/tmp/vs_$ID.mut.log 2>&1; MUT=$?
rm -f $PLACE
cargo test --workspace --no-fail-fast --offline >/tmp/vs_$ID.suite.log 2>&1; SUITE=$?
NPASS=$(grep -E "^test result: ok" /tmp/vs_$ID.suite.log | sed 's/.*ok. \([0-9]*\) passed.*/\1/' | paste -sd+ | bc)
cd /; git -C /repo worktree remove --force $WT; rm -rf $CARGO_TARGET_DIR
echo "{\"id\":\"$ID\",\"demo_passes_without_change\":$([ $BASE = 0 ] && echo true || echo false),\"patch_applies\":$([ $APPLY = 0 ] && echo true || echo false),\"builds_with_change\":$([ $BUILD = 0 ] && echo true || echo false),\"demo_fails_with_change\":$([ $MUT != 0 ] && echo true || echo false),\"suite_passes_with_change\":$([ $SUITE = 0 ] && echo true || echo false),\"tests_passed_with_change\":${NPASS:-0}}"
