#!/usr/bin/env python3
"""tools/mk_round_hints.py <theme text file> : prints one `Cxx|hint` line per property: the names of all stored seeds whose
meta.json names that property (as mechanisms not to repeat) followed by the theme of the round."""
import sys, json, os, re
theme=open(sys.argv[1]).read().strip()
by={}
for d in sorted(os.listdir('/verif/seeded')):
    try: m=json.load(open('/verif/seeded/%s/meta.json'%d))
    except Exception: continue
    by.setdefault(m['property'],[]).append(re.sub(r'^C\d+[a-z]?-','',d).replace('-',' '))
for i in range(1,21):
    p='C%02d'%i
    print('%s|Changes of the following kinds have ALREADY been made by others and must NOT be repeated or closely imitated (pick a genuinely different mechanism, preferably in a different function or module): %s. %s'%(p,'; '.join(by.get(p,[])),theme))
