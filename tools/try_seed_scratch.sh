#!/bin/sh
# tools/try_seed_scratch.sh <patch.diff> <property-id>... : like try_seed.sh, but on a scratch copy of /repo and of the
# working tree of /verif (under /root/scratch), so that /repo stays untouched (background runs may be using it).
P="$1"; shift
S=/root/scratch
mkdir -p $S
if [ ! -d $S/repo/.git ] && [ ! -f $S/repo/.git ]; then git -C /repo worktree add -q --detach $S/repo HEAD || exit 3; fi
git -C $S/repo checkout -q --detach "$(git -C /repo rev-parse HEAD)" 2>/dev/null
git -C $S/repo checkout -- . ; git -C $S/repo diff --quiet || { echo "scratch repo dirty"; exit 3; }
rsync -a --delete --exclude .build --exclude .git --exclude kani/target --exclude replay/target /verif/ $S/verif/
sed -i "s#path = \"/repo\"#path = \"$S/repo\"#" $S/verif/replay/Cargo.toml
git -C $S/repo apply "$P" || { echo "patch does not apply"; exit 3; }
for id in "$@"; do (cd $S/verif && VERIF_REPO=$S/repo ./check "$id" ${TIER:+--tier $TIER} > /tmp/try_scratch_$$.log 2>&1; grep -E "^(VIOLATION|INCONCLUSIVE|KNOWN|C[0-9]+ tier)" /tmp/try_scratch_$$.log | cut -c1-300 | head -${LINES_MAX:-6}; grep -qE "^C[0-9]+ tier|^INCONCLUSIVE" /tmp/try_scratch_$$.log || { echo "CHECK CRASHED:"; tail -5 /tmp/try_scratch_$$.log; }; rm -f /tmp/try_scratch_$$.log); done
git -C $S/repo checkout -- . && git -C $S/repo status --short
