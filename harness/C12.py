"""C12 - key identity is intrinsic, stable, interoperable and cannot be aliased."""
import z3, hashlib, base64, os
from mirsym.values import *
from mirsym.runner import Obligation
from mirsym.build import B, model_value
from mirsym.models import bytes_eq, val_eq, b_and, clone_val, hex_char
from .common import outcome_of, is_sample
from .signed import FIXTURE_ED25519_PUB

REPO=os.environ.get('VERIF_REPO','/repo')
ED_OID=bytes.fromhex('2b6570'); RSA_OID=bytes.fromhex('2a864886f70d010101'); EC_OID=bytes.fromhex('2a8648ce3d0201'); P256_OID=bytes.fromhex('2a8648ce3d030107')
def tlv(tag,body):
    n=len(body)
    ln=[n] if n<128 else ([0x81,n] if n<256 else [0x82,n>>8,n&255])
    return [tag]+ln+list(body)
def spki(alg_params,key_bytes): return tlv(0x30,tlv(0x30,alg_params)+tlv(0x03,[0]+list(key_bytes)))
def hexs(bl):
    out=[]
    for x in bl:
        if isinstance(x,int): out+=[hex_char(x>>4),hex_char(x&15)]
        else: out+=[hex_char(z3.LShR(x,4)),hex_char(x&0x0f)]
    return out
def ref_preimage(keytype,scheme,algs,public_field):
    """securesystemslib canonical description of a public key (what the key id is the SHA-256 of)"""
    parts=[]
    if algs is not None: parts.append(list(b'"keyid_hash_algorithms":[')+list(','.join('"%s"'%a for a in algs).encode())+list(b']'))
    parts.append(list(('"keytype":"%s"'%keytype).encode()))
    parts.append(list(b'"keyval":{"public":"')+list(public_field)+list(b'"}'))
    parts.append(list(('"scheme":"%s"'%scheme).encode()))
    out=[0x7b]
    for i,p in enumerate(parts):
        if i: out.append(0x2c)
        out+=p
    return out+[0x7d]
KT={'Ed25519':'ed25519','Rsa':'rsa','Ecdsa':'ecdsa'}; SC={'Ed25519':'ed25519','RsaSsaPssSha256':'rsassa-pss-sha256','EcdsaP256Sha256':'ecdsa-sha2-nistp256'}

def synthetic_rsa_public_key():
    """RSAPublicKey DER (modulus bytes arbitrary but fixed, e = 65537) sized so that the base64 text of its SubjectPublicKeyInfo
    fills complete 64-character PEM lines exactly (no short last line)"""
    for mlen in range(256,400):
        n=[0x00]+[0xc3]+[(7*i+11)&0xff for i in range(mlen-1)]
        body=tlv(2,n)+tlv(2,[1,0,1])
        pk=tlv(0x30,body)
        der=spki(tlv(6,RSA_OID)+[5,0],pk)
        if len(base64.b64encode(bytes(der)))%64==0: return bytes(pk)
    raise Unsupported('no synthetic RSA size found')

class KeyIds(Obligation):
    """every construction path computes the id as SHA-256 of the reference canonical description; paths agree"""
    name='C12.key_id'
    hash_order='fixed'
    def __init__(self,seed=0,known=(),**kw):
        self.seed=seed
        self.bounds={'ed25519':'32 key bytes, 3 of them free','ecdsa':'65-byte uncompressed point, 2 bytes free','rsa':'the repository\'s 2048-bit fixture with both RSA-PSS schemes, and a synthetic key whose PEM body fills complete 64-character lines exactly (concrete: PEM/base64 of symbolic bytes is outside the models)',
                     'hash algorithm list':'default [sha256,sha512], absent, [sha256], unsorted [sha512,sha256], repeated [sha256,sha256], empty []','construction paths':'PublicKey::new, from_ed25519(_with_keyid_hash_algorithms), from_spki(DER), from_pem_spki(PEM) (rsa)','history':'none / the same key material constructed earlier in the process with another hash-algorithm list / with the other RSA-PSS scheme'}
        self.witnesses=['ed25519','ecdsa','rsa']; self.seen=set()
    def setup(self,eng,tier):
        self.eng=eng; self.b=B(eng)
        self.new=eng.find_method(None,'PublicKey','new'); self.from_ed=eng.find_method(None,'PublicKey','from_ed25519_with_keyid_hash_algorithms')
        self.from_spki=eng.find_method(None,'PublicKey','from_spki_with_keyid_hash_algorithms'); self.from_pem=eng.find_method(None,'PublicKey','from_pem_spki')
        from mirsym import models as M
        orig=M.m_digest_finish
        def finish(e,run,a,f):
            r=orig(e,run,a,f); run.ghost['digests'].append(r.p); return r
        eng.stub(r'^(ring::)?digest::Context::finish$',finish,'ring::digest::Context::finish [injective digest model, records the pre-image]')
    def entry(self,eng):
        b=self.b
        def go(run,args):
            kind,value,algs=args
            # history: the same key material may have been seen before in this process under another hash-algorithm list or another
            # scheme (state that outlives a call - a cache - must not leak into this key's identifier)
            hist=run.ghost.get('key_history'); run.ghost['digests']=[]
            if hist:
                htyp,hsch,halgs=hist
                eng.call_fn(run,self.new,[b.variant('KeyType',htyp),b.variant('SignatureScheme',hsch),none() if halgs is None else some(VecO([mk_string(x) for x in halgs])),u8vec(list(value))])
            run.ghost['digests']=[]
            A=lambda: none() if algs is None else some(VecO([mk_string(x) for x in algs]))
            typ={'ed25519':'Ed25519','ecdsa':'Ecdsa','rsa':'Rsa','rsa512':'Rsa','rsa_exact':'Rsa'}[kind]; sch={'ed25519':'Ed25519','ecdsa':'EcdsaP256Sha256','rsa':'RsaSsaPssSha256','rsa512':'RsaSsaPssSha512','rsa_exact':'RsaSsaPssSha256'}[kind]
            outs=[]; marks=run.ghost['digest_marks']=[]
            class _O(list):
                def append(self2,x): list.append(self2,x); marks.append((x[0],len(run.ghost['digests'])))
            outs=_O()
            outs.append(('new',eng.call_fn(run,self.new,[b.variant('KeyType',typ),b.variant('SignatureScheme',sch),A(),u8vec(list(value))])))
            if kind=='ed25519':
                outs.append(('from_ed25519',eng.call_fn(run,self.from_ed,[u8vec(list(value)),A()])))
                der=spki(tlv(6,ED_OID)+[5,0],value)
            elif kind=='ecdsa': der=spki(tlv(6,EC_OID)+tlv(6,P256_OID),value)
            else: der=spki(tlv(6,RSA_OID)+[5,0],value)
            outs.append(('from_spki',eng.call_fn(run,self.from_spki,[Ref(Cell(Str(der,False))),b.variant('SignatureScheme',sch),A()])))
            if kind.startswith('rsa') and algs==['sha256','sha512']:
                pem='-----BEGIN PUBLIC KEY-----\n'+'\n'.join(base64.b64encode(bytes(der)).decode()[i:i+64] for i in range(0,400,64) if base64.b64encode(bytes(der)).decode()[i:i+64])+'\n-----END PUBLIC KEY-----\n'
                outs.append(('from_pem_spki',eng.call_fn(run,self.from_pem,[mk_str(pem),b.variant('SignatureScheme',sch)])))
            return outs
        return go
    def mk_args(self,run):
        kind=['ed25519','ecdsa','rsa','rsa512','rsa_exact'][run.pick(5,'kind')]
        algs=[['sha256','sha512'],None,['sha256'],['sha512','sha256'],['sha256','sha256'],[]][run.pick(6,'algs')]
        if kind=='ed25519': value=[z3.BitVec('k%d'%i,8) for i in range(3)]+list(FIXTURE_ED25519_PUB[3:])
        elif kind=='ecdsa': value=[4]+[z3.BitVec('k%d'%i,8) for i in range(2)]+[9]*62
        elif kind=='rsa_exact': value=list(synthetic_rsa_public_key())
        else:
            der=open(os.path.join(REPO,'tests/rsa/rsa-2048.spki.der'),'rb').read()
            # RSAPublicKey = content of the BIT STRING (skip outer SEQUENCE, AlgorithmIdentifier, BIT STRING header)
            i=der.index(bytes.fromhex('0382010f00'))+5; value=list(der[i:])
        typ={'ed25519':'Ed25519','ecdsa':'Ecdsa','rsa':'Rsa','rsa512':'Rsa','rsa_exact':'Rsa'}[kind]; sch={'ed25519':'Ed25519','ecdsa':'EcdsaP256Sha256','rsa':'RsaSsaPssSha256','rsa512':'RsaSsaPssSha512','rsa_exact':'RsaSsaPssSha256'}[kind]
        h=run.pick(3,'history')
        other_algs=None if algs is not None else ['sha256','sha512']
        other_sch={'RsaSsaPssSha256':'RsaSsaPssSha512','RsaSsaPssSha512':'RsaSsaPssSha256'}.get(sch)
        if h==2 and other_sch is None: raise Infeasible()
        run.ghost['key_history']=[None,(typ,sch,other_algs),(typ,other_sch,algs)][h]
        hist_desc=[None,{'same key first constructed with hash algorithms':other_algs},{'same key first constructed with scheme':other_sch}][h]
        return [kind,value,algs],{'kind':kind,'value':value,'algs':algs,'history':hist_desc}
    def check(self,run,out,g):
        rec={'outcome':'ok','viol':None,'wit':[],'sample':None,'obl':1}
        r0,m0=run.check_sat(z3.BoolVal(True))
        scn={'kind':'keyid','key':g['kind'],'value':[model_value(m0,x) for x in g['value']],'algs':g['algs']}
        if g.get('history'): scn['history']=g['history']
        if out[0]!='ret':
            rec['outcome']='panic'; rec['viol']={'kind':'panic','known_key':None,'scenario':scn,'predicted':'panic','what':'key construction panics: '+str(out[1])}; return rec
        outs=out[1]; b=self.b
        kind=g['kind']
        if kind.startswith('rsa'):
            der=spki(tlv(6,RSA_OID)+[5,0],g['value']); b64=base64.b64encode(bytes(der)).decode()
            pub='-----BEGIN PUBLIC KEY-----\n'+'\n'.join(b64[i:i+64] for i in range(0,len(b64),64))+'\n-----END PUBLIC KEY-----'
            public_field=list(pub.replace('\n','\\n').encode())     # JSON-escaped newline inside the description ...
            public_signed=list(pub.encode())                        # ... which the crate turns into a raw LF before hashing (as the reference does)
            want=ref_preimage('rsa','rsassa-pss-sha512' if kind=='rsa512' else 'rsassa-pss-sha256',g['algs'],public_signed)
        else:
            typ={'ed25519':'ed25519','ecdsa':'ecdsa'}[kind]; sch={'ed25519':'ed25519','ecdsa':'ecdsa-sha2-nistp256'}[kind]
            want=ref_preimage(typ,sch,g['algs'],hexs(g['value']))
        ids=[]
        for name,r in outs:
            if deref(r).vname!='Ok':
                rec['viol']={'kind':'construction_fails:'+name,'known_key':None,'scenario':scn,'predicted':'err','what':'constructing a well-formed %s key through %s fails'%(kind,name)}; return rec
            ids.append(byte_list(deref(b.get(deref(r).f[0],'key_id')).f[0]))
        # every path hashed exactly the reference description
        for di,d in enumerate(run.ghost['digests']):
            same=bytes_eq(d.ghost['pre'],want)
            r,m=run.check_sat(z3.Not(same.z()))
            if r==z3.sat:
                scn2=dict(scn); scn2['value']=[model_value(m,x) for x in g['value']]
                scn2['via']=next((nm for nm,upto in run.ghost.get('digest_marks',[]) if di<upto),'new')      # the construction path that hashed these bytes
                actual=hashlib.sha256(bytes(model_value(m,x) for x in d.ghost['pre'])).hexdigest()     # the id the crate computes; it differs from the reference id
                rec['viol']={'kind':'key_id_preimage_differs_from_reference','known_key':None,'scenario':scn2,'predicted':'keyid:'+actual,'what':'the bytes hashed into the key id differ from the reference canonical description of the key'}; return rec
        # every identifier handed out is the hex text of a digest of the reference description (a path may reuse a digest computed
        # earlier in the run - what matters is the identifier it reports)
        for (name,r),idb in zip(outs,ids):
            okd=[z3.And(bytes_eq(idb,hexs(d.b)).z(),bytes_eq(d.ghost['pre'],want).z()) for d in run.ghost['digests'] if len(idb)==2*len(d.b)]
            rr,m=run.check_sat(z3.Not(z3.Or(*okd)) if okd else z3.BoolVal(True))
            if rr==z3.sat:
                scn2=dict(scn); scn2['value']=[model_value(m,x) for x in g['value']]; scn2['via']=name
                actual=bytes(model_value(m,x) for x in idb).decode(errors='replace')
                rec['viol']={'kind':'key_id_is_not_the_digest_of_the_reference_description','known_key':None,'scenario':scn2,'predicted':'keyid:'+actual,'what':'the identifier reported by %s is not the SHA-256 of the reference description of this key (history: %s)'%(name,g.get('history'))}; return rec
        wk='rsa' if kind.startswith('rsa') else kind
        if wk not in self.seen: self.seen.add(wk); rec['wit'].append(wk)
        # concrete sample for native validation: the id itself
        kid=hashlib.sha256(bytes(model_value(m0,x) for x in want)).hexdigest()
        rec['sample']={'scenario':scn,'expect':'keyid:'+kid}
        return rec

TEMPLATES={
 'ed25519_rfc8410':lambda k: spki(tlv(6,ED_OID),k),                 # RFC 8410: parameters absent
 'ed25519_null_params':lambda k: spki(tlv(6,ED_OID)+[5,0],k),       # legacy, non-standard form (older versions of this crate wrote it)
 'rsa_rfc3279':lambda k: spki(tlv(6,RSA_OID)+[5,0],k),              # RFC 3279: NULL parameters
 'ecdsa_p256_rfc5480':lambda k: spki(tlv(6,EC_OID)+tlv(6,P256_OID),k),   # RFC 5480: named curve
}
class Spki(Obligation):
    """every standards-conformant SubjectPublicKeyInfo of a supported algorithm imports and re-exports unchanged"""
    name='C12.spki_roundtrip'
    def __init__(self,seed=0,known=(),**kw):
        self.seed=seed; self.known=set(known)
        self.bounds={'templates':list(TEMPLATES),'key payload':'ed25519: 32 bytes (3 free); ecdsa: 65-byte point (2 free); rsa: the 2048-bit fixture of the repository (concrete; the key id needs PEM/base64, which the models compute for concrete bytes only)','also':'the first 6 DER header bytes of the ed25519 template free (arbitrary tags / lengths), for panic-freedom of the importer'}
        self.witnesses=['import_export_equal','import_rejected']; self.seen=set()
    def setup(self,eng,tier):
        self.eng=eng; self.b=B(eng)
        self.from_spki=eng.find_method(None,'PublicKey','from_spki'); self.as_spki=eng.find_method(None,'PublicKey','as_spki')
    def entry(self,eng):
        b=self.b
        def go(run,args):
            der,sch=args
            r=eng.call_fn(run,self.from_spki,[Ref(Cell(Str(list(der),False))),b.variant('SignatureScheme',sch)])
            if deref(r).vname!='Ok': return ('import_err',None,None)
            key=deref(r).f[0]
            ex=eng.call_fn(run,self.as_spki,[Ref(Cell(key))])
            if deref(ex).vname!='Ok': return ('export_err',key,None)
            out=byte_list(deref(ex).f[0])
            r2=eng.call_fn(run,self.from_spki,[Ref(Cell(Str(list(out),False))),b.variant('SignatureScheme',sch)])
            return ('ok',key,(out,deref(r2).vname=='Ok'))
        return go
    def mk_args(self,run):
        names=list(TEMPLATES)+['fuzz_header']
        t=names[run.pick(len(names),'template')]
        fr=lambda n,name: [z3.BitVec('%s%d'%(name,i),8) for i in range(n)]
        if t.startswith('ed25519') or t=='fuzz_header': key=fr(3,'k')+list(FIXTURE_ED25519_PUB[3:]); sch='Ed25519'
        elif t.startswith('ecdsa'): key=[4]+fr(2,'k')+[9]*62; sch='EcdsaP256Sha256'
        else:
            d=open(os.path.join(REPO,'tests/rsa/rsa-2048.spki.der'),'rb').read()
            key=list(d[d.index(bytes.fromhex('0382010f00'))+5:]); sch='RsaSsaPssSha256'
        if t=='fuzz_header':
            der=TEMPLATES['ed25519_null_params'](key); der=fr(6,'h')+der[6:]
        else: der=TEMPLATES[t](key)
        return [der,sch],{'t':t,'der':der,'key':key}
    def check(self,run,out,g):
        rec={'outcome':'?','viol':None,'wit':[],'sample':None,'obl':1}
        r0,m0=run.check_sat(z3.BoolVal(True))
        scn={'kind':'spki','template':g['t'],'der':[model_value(m0,x) for x in g['der']]}
        if out[0]!='ret':
            rec['outcome']='panic'; rec['viol']={'kind':'panic_from_spki','known_key':None,'scenario':scn,'predicted':'panic','what':'from_spki / as_spki panics: '+str(out[1])}; return rec
        st,key,ex=out[1]; rec['outcome']=st
        def W(n):
            if n not in self.seen: self.seen.add(n); rec['wit'].append(n)
        if g['t']=='fuzz_header':
            W('import_rejected') if st!='ok' else None
            return rec
        if st!='ok':
            key_={'ed25519_rfc8410':'ed25519_rfc8410_rejected'}.get(g['t'])
            rec['viol']={'kind':'standard_spki_rejected:'+g['t'],'known_key':key_,'scenario':scn,'predicted':'import_err','what':'a standards-conformant SubjectPublicKeyInfo (%s) cannot be imported'%g['t']}; return rec
        outb,reimport=ex
        # the legacy NULL-parameter ed25519 form is not standards-conformant: it must import, and export as the RFC 8410 form of the same key
        target=g['der'] if g['t']!='ed25519_null_params' else TEMPLATES['ed25519_rfc8410'](g['key'])
        same=bytes_eq(outb,target) if reimport else Bool(False)
        r,m=run.check_sat(z3.Not(same.z()))
        if r==z3.sat:
            key_={'ecdsa_p256_rfc5480':'ecdsa_spki_export_differs'}.get(g['t'])
            scn2=dict(scn); scn2['der']=[model_value(m,x) for x in g['der']]
            rec['viol']={'kind':'spki_export_differs:'+g['t'],'known_key':key_,'scenario':scn2,'predicted':'export_differs'+('' if reimport else '+not_reimportable'),'what':'importing and re-exporting a standards-conformant SubjectPublicKeyInfo (%s) changes the DER bytes%s'%(g['t'],'' if reimport else ' and the result cannot be imported again')}; return rec
        W('import_export_equal')
        rec['sample']={'scenario':scn,'expect':'roundtrip_equal' if g['t']!='ed25519_null_params' else 'export_differs'}
        return rec

class KeyTable(Obligation):
    """Layout::try_into keeps only table entries whose identifier is the key's own identifier"""
    name='C12.layout_key_table'
    hash_order='all'
    def __init__(self,seed=0,known=(),**kw):
        self.seed=seed
        self.bounds={'wire key table':'2 entries; each filed under its own id, under the other key\'s id, or under an unrelated id','keys':'two ed25519 keys with their real (reference-computed) ids'}
        self.witnesses=['kept_own','dropped_alias']; self.seen=set()
    def setup(self,eng,tier):
        self.eng=eng; self.b=B(eng); self.try_into=eng.find_method(None,'Layout','try_into')
    def entry(self,eng): return self.try_into
    def mk_args(self,run):
        from .signed import ed25519_keyid
        b=self.b
        pubs=[bytes(FIXTURE_ED25519_PUB),bytes([FIXTURE_ED25519_PUB[0]^1])+bytes(FIXTURE_ED25519_PUB[1:])]
        ids=[ed25519_keyid(p) for p in pubs]; other='ab'*32
        keys=[b.struct('PublicKey',typ=b.variant('KeyType','Ed25519'),key_id=b.keyid(ids[i]),scheme=b.variant('SignatureScheme','Ed25519'),keyid_hash_algorithms=some(VecO([mk_string('sha256'),mk_string('sha512')])),value=Agg('PublicKeyValue',[u8vec(list(pubs[i]))])) for i in range(2)]
        filed=[]
        for i in range(2):
            k=run.pick(3,'filed%d'%i); filed.append([ids[i],ids[1-i],other][k])
        if filed[0]==filed[1]: raise Infeasible()
        lay=b.struct('Layout',typ=mk_string('layout'),expires=mk_string('2100-01-01T00:00:00Z'),readme=mk_string(''),keys=b.btreemap([(b.keyid(filed[i]),keys[i]) for i in range(2)]),steps=VecO([]),inspect=VecO([]))
        return [lay],{'filed':filed,'ids':ids}
    def check(self,run,out,g):
        oc=outcome_of(out); rec={'outcome':oc,'viol':None,'wit':[],'sample':None,'obl':1}
        scn={'kind':'keytable','filed':g['filed'],'ids':g['ids']}
        if oc!='ok':
            rec['viol']={'kind':'layout_conversion_fails','known_key':None,'scenario':scn,'predicted':'err','what':'Layout::try_into fails on a well-formed layout: '+oc}; return rec
        meta=deref(out[1]).f[0]; table=deref(self.b.get(meta,'keys'))
        got=[]
        for k,v in table.e:
            kid=bytes(byte_list(deref(k).f[0])).decode(); own=bytes(byte_list(deref(self.b.get(v,'key_id')).f[0])).decode()
            got.append(kid)
            if kid!=own:
                rec['viol']={'kind':'aliased_key_table_entry','known_key':None,'scenario':scn,'predicted':'kept:'+','.join(sorted(got)),'what':'a parsed layout maps identifier %s to a key whose own identifier is %s'%(kid[:8],own[:8])}; return rec
        want=sorted(g['ids'][i] for i in range(2) if g['filed'][i]==g['ids'][i])
        if sorted(got)!=want:
            rec['viol']={'kind':'wrong_key_table','known_key':None,'scenario':scn,'predicted':'kept:'+','.join(sorted(got)),'what':'entries filed under the key\'s own identifier must be kept, all others dropped'}; return rec
        if want and 'kept_own' not in self.seen: self.seen.add('kept_own'); rec['wit'].append('kept_own')
        if len(want)<2 and 'dropped_alias' not in self.seen: self.seen.add('dropped_alias'); rec['wit'].append('dropped_alias')
        rec['sample']={'scenario':scn,'expect':'kept:'+','.join(sorted(got))}
        return rec

class KeyJson(Obligation):
    """keys and layout key tables that arrive as JSON: the identifier stated inside the key document (or the identifier a table
    entry is filed under) is caller-chosen text; after decoding, a key's identifier is its intrinsic one and a table never maps
    an identifier to a key with another intrinsic identifier"""
    name='C12.key_json'
    hash_order='all'
    STATED=['absent','own','other','unrelated','short']
    def __init__(self,seed=0,known=(),**kw):
        self.seed=seed
        self.bounds={'documents':'a PublicKey document, and a LayoutMetadata document with a 2-entry key table, decoded from text (borrowed channel) and from a tree',
                     'stated keyid member of each key document':self.STATED,'table entries filed under':['own id','the other key\'s id','an unrelated id'],'keys':'two ed25519 keys (concrete bytes); reference ids computed independently (SHA-256 of the reference canonical description)'}
        self.witnesses=['key_accepted','table_entry_kept','table_entry_dropped']; self.seen=set()
    def setup(self,eng,tier): self.eng=eng; self.b=B(eng)
    def keydoc(self,pub,stated,ids,i):
        d={'keyid_hash_algorithms':['sha256','sha512'],'keytype':'ed25519','keyval':{'public':pub.hex()},'scheme':'ed25519'}
        if stated!='absent': d['keyid']={'own':ids[i],'other':ids[1-i],'unrelated':'ab'*32,'short':'abc'}[stated]
        return d
    def entry(self,eng):
        from mirsym import models_de as md
        from .C14 import py_to_value
        def go(run,args):
            ty,doc=args; outs=[]
            for ch in ('borrowed','tree'):
                try: outs.append(('ok',md.de_type(eng,run,ty,py_to_value(doc),ch)))
                except md.DeFail: outs.append(('err',None))
            return outs
        return go
    def mk_args(self,run):
        from .signed import ed25519_keyid
        pubs=[bytes(FIXTURE_ED25519_PUB),bytes([FIXTURE_ED25519_PUB[0]^1])+bytes(FIXTURE_ED25519_PUB[1:])]
        ids=[ed25519_keyid(p) for p in pubs]
        what=['key','layout'][run.pick(2,'what')]
        st=[self.STATED[run.pick(len(self.STATED),'stated%d'%i)] for i in range(2 if what=='layout' else 1)]
        if what=='key':
            doc=self.keydoc(pubs[0],st[0],ids,0); ty='PublicKey'; filed=None
        else:
            filed=[[ids[i],ids[1-i],'cd'*32][run.pick(3,'filed%d'%i)] for i in range(2)]
            if filed[0]==filed[1]: raise Infeasible()
            doc={'_type':'layout','expires':'2100-01-01T00:00:00Z','readme':'','keys':{filed[i]:self.keydoc(pubs[i],st[i],ids,i) for i in range(2)},'steps':[],'inspect':[]}; ty='LayoutMetadata'
        return [ty,doc],{'what':what,'doc':doc,'ids':ids,'pubs':pubs,'filed':filed,'stated':st,'ty':ty}
    def describe(self,g,val):
        """'mapid=keyid' pairs (layout) or the key id (key) of a decoded value"""
        b=self.b
        kid=lambda k: bytes(byte_list(deref(b.get(k,'key_id')).f[0])).decode(errors='replace')
        pubof=lambda k: bytes(x if isinstance(x,int) else x.v for x in byte_list(deref(b.get(k,'value')).f[0]))
        if g['what']=='key': return [('-',kid(val),pubof(val))]
        table=deref(b.get(val,'keys'))
        return sorted((bytes(byte_list(deref(k).f[0])).decode(errors='replace'),kid(v),pubof(v)) for k,v in table.e)
    def check(self,run,out,g):
        rec={'outcome':'?','viol':None,'wit':[],'sample':None,'obl':1}
        scn={'kind':'keyjson','type':g['ty'],'doc':g['doc']}
        if out[0]!='ret':
            rec['outcome']='panic'; rec['viol']={'kind':'panic_key_json','known_key':None,'scenario':scn,'predicted':'panic','what':'decoding a key document panics: '+str(out[1])[:200]}; return rec
        from .signed import ed25519_keyid
        kinds=[o[0] for o in out[1]]; rec['outcome']='/'.join(kinds)
        def W(n):
            if n not in self.seen: self.seen.add(n); rec['wit'].append(n)
        pred=[]
        for (k,val) in out[1]:
            if k!='ok': pred.append('err'); continue
            ents=self.describe(g,val)
            pred.append(';'.join('%s=%s'%(a,c) for a,c,_ in ents))
            for mapid,keyid,pub in ents:
                intrinsic=ed25519_keyid(pub)
                if keyid!=intrinsic:
                    rec['viol']={'kind':'key_id_not_intrinsic','known_key':None,'scenario':scn,'predicted':'/'.join(pred),'what':'a key read from JSON reports identifier %s but its intrinsic identifier is %s (stated keyid member: %s)'%(keyid[:8],intrinsic[:8],g['stated'])}
                if mapid!='-' and mapid!=intrinsic:
                    rec['viol']={'kind':'aliased_key_table_entry','known_key':None,'scenario':scn,'predicted':'/'.join(pred),'what':'a parsed layout maps identifier %s to a key whose intrinsic identifier is %s (stated keyid members: %s)'%(mapid[:8],intrinsic[:8],g['stated'])}
            if g['what']=='key': W('key_accepted')
            else:
                if ents: W('table_entry_kept')
                if len(ents)<2: W('table_entry_dropped')
                # entries filed under the key's own intrinsic id and not contradicted by a stated id must survive
                want=sorted(g['ids'][i] for i in range(2) if g['filed'][i]==g['ids'][i] and g['stated'][i] in ('absent','own'))
                if not set(want)<=set(a for a,_,_ in ents) and not rec['viol']:
                    rec['viol']={'kind':'own_key_table_entry_dropped','known_key':None,'scenario':scn,'predicted':'/'.join(pred),'what':'a key filed under its own identifier is missing from the parsed layout'}
        if rec['viol']:
            # fill in the complete prediction (all channels) for the native comparison
            full=[]
            for (k,val) in out[1]: full.append('err' if k!='ok' else ';'.join('%s=%s'%(a,c) for a,c,_ in self.describe(g,val)))
            rec['viol']['predicted']='/'.join(full); return rec
        rec['sample']={'scenario':scn,'expect':'/'.join(pred)}
        return rec

class RsaPkcs8(Obligation):
    """derivation of the RSA public key from a PKCS#8 private-key document (`extract_rsa_pub_from_pkcs8` + `write_pkcs1`):
    the RSAPublicKey it writes carries exactly the modulus and public exponent of the document, each as the DER positive
    INTEGER it was read from - the same bytes a SubjectPublicKeyInfo of the key holds, hence the same key id"""
    name='C12.rsa_public_from_pkcs8'
    hash_order='fixed'
    def __init__(self,seed=0,known=(),**kw):
        self.seed=seed
        self.bounds={'document':'PrivateKeyInfo{0, AlgorithmIdentifier{rsaEncryption, NULL}, OCTET STRING{RSAPrivateKey{0, n, e, <one more INTEGER>}}}',
                     'modulus n':'3 free bytes, top bit set or clear (with / without the DER sign octet)','public exponent e':'1..4 free bytes, top bit set or clear (with / without the DER sign octet), minimal encoding',
                     'not covered':'ring\'s own validation of the key pair (RsaKeyPair::from_pkcs8) in front of this code; real key sizes'}
        self.witnesses=['exponent_with_sign_octet','exponent_without_sign_octet']; self.seen=set()
    def setup(self,eng,tier):
        self.eng=eng; self.fn=eng.find_fn('extract_rsa_pub_from_pkcs8')
    def entry(self,eng): return self.fn
    def posint(self,run,name,n):
        """DER content of a positive integer with n value bytes; returns (content bytes, has_sign_octet)"""
        bs=[z3.BitVec('%s%d'%(name,i),8) for i in range(n)]
        hi=bool(run.pick(2,name+'_hi'))
        if hi: run.add(z3.UGE(bs[0],0x80)); return [0]+bs,True
        run.add(z3.ULT(bs[0],0x80),bs[0]!=0); return bs,False
    def mk_args(self,run):
        nc,_=self.posint(run,'n',3)
        ec,esign=self.posint(run,'e',1+run.pick(4,'elen'))
        rsa=tlv(0x30,tlv(2,[0])+tlv(2,nc)+tlv(2,ec)+tlv(2,[1]))
        doc=tlv(0x30,tlv(2,[0])+tlv(0x30,tlv(6,RSA_OID)+[5,0])+tlv(4,rsa))
        want=tlv(0x30,tlv(2,nc)+tlv(2,ec))
        return [Ref(Cell(Str(doc,False)))],{'doc':doc,'want':want,'esign':esign}
    def check(self,run,out,g):
        rec={'outcome':'?','viol':None,'wit':[],'sample':None,'obl':1}
        r0,m0=run.check_sat(z3.BoolVal(True))
        scn=lambda m: {'kind':'rsa_pkcs8','doc':[model_value(m,x) for x in g['doc']]}
        hx=lambda m,bl: ''.join('%02x'%model_value(m,x) for x in bl)
        if out[0]!='ret':
            rec['outcome']='panic'; rec['viol']={'kind':'panic_rsa_pkcs8','known_key':None,'scenario':scn(m0),'predicted':'panic','what':'deriving the RSA public key from a PKCS#8 document panics: '+str(out[1])[:200]}; return rec
        r=deref(out[1])
        if r.vname!='Ok':
            rec['outcome']='err'; rec['viol']={'kind':'wellformed_pkcs8_rejected','known_key':None,'scenario':scn(m0),'predicted':'err','what':'a well-formed RSA PKCS#8 document is rejected'}; return rec
        rec['outcome']='ok'
        got=byte_list(r.f[0])
        same=bytes_eq(got,g['want'])
        rr,m=run.check_sat(z3.Not(same.z()))
        if rr==z3.sat:
            rec['viol']={'kind':'derived_rsa_public_key_differs','known_key':None,'scenario':scn(m),'predicted':'der:'+hx(m,got),'what':'the RSA public key derived from a PKCS#8 document is not RSAPublicKey{n, e} with the integers of the document (so its key id differs from the id of the same key imported as SubjectPublicKeyInfo)'}; return rec
        w='exponent_with_sign_octet' if g['esign'] else 'exponent_without_sign_octet'
        if w not in self.seen: self.seen.add(w); rec['wit'].append(w)
        rec['sample']={'scenario':scn(m0),'expect':'der:'+hx(m0,g['want'])}
        return rec
