"""Wire round trips through the serde data models (C16, C17): serialize (the crate's Serialize impls from MIR
against the Serializer model) -> serde_json::Value -> deserialize (the crate's Deserialize impls / visitors from
MIR against the Deserializer model) on every input channel."""
import z3
from mirsym.values import *
from mirsym.runner import Obligation
from mirsym.build import B, model_value, concretize
from mirsym.models import val_eq, b_and, clone_val
from mirsym import models_serde as ms, models_de as md
from .common import outcome_of, is_sample, pool_keyid
from .signed import FIXTURE_ED25519_PUB, ed25519_keyid
from oracles.ref_wire import ref_wire

CHANNELS=['borrowed','escaped','reader','tree']
def sym_str(run,name,n,ascii_only=True):
    bs=[z3.BitVec('%s_%d'%(name,i),8) for i in range(n)]
    for x in bs: run.add(z3.ULT(x,0x80))
    return StringO(bs)

class RoundTrip(Obligation):
    name='wire.roundtrip'
    hash_order='fixed'
    def __init__(self,what='rule',prop='C16',nbytes=1,seed=0,known=(),rate=10,**kw):
        self.what=what; self.prop=prop; self.nbytes=nbytes; self.seed=seed; self.rate=rate; self.known=set(known)
        self.name='%s.wire_%s'%(prop,what)
        self.bounds={'type':what,'strings':'free ASCII strings of 0..%d bytes in every string position that is varied (patterns, prefixes, names); keyword-like values (IN, WITH, FROM, MATCH) included as concrete variants'%nbytes,
                     'channels':CHANNELS,'numbers':'threshold u32 / return value i32 free where present'}
        self.witnesses=['roundtrip_equal']; self.seen=set()
    def setup(self,eng,tier):
        self.eng=eng; self.b=B(eng)
    TYPE={'rule':'ArtifactRule','step':'Step','inspection':'Inspection','link':'LinkMetadata','layout':'LayoutMetadata','metablock':'Metablock','pubkey':'PublicKey',
          'signature':'Signature','keyid':'KeyId','vpath':'VirtualTargetPath','command':'Command','byproducts':'ByProducts','keytype':'KeyType','hashvalue':'HashValue','wrapper':'MetadataWrapper','predicate':'PredicateWrapper','statement':'StatementWrapper'}
    def entry(self,eng):
        def go(run,args):
            x=args[0]
            try: v=ms.ser_value(eng,run,x)
            except ms.SerError as se: return ('ser_err',None,[])
            outs=[]
            for ch in CHANNELS:
                try: outs.append(('ok',md.de_type(eng,run,self.TYPE[self.what],clone_val(v),ch)))
                except md.DeFail as d: outs.append(('err',d.msg))
            return ('ok',v,outs)
        return go
    # ------------------------------------------------------------------ values
    def S(self,run,name,default,kw=None):
        """string leaf: symbolic, or one of the keyword-like concrete variants"""
        opts=1+len(kw or [])
        k=run.pick(opts+1,'leaf_'+name)
        if k==0: return mk_string(default)
        if k<=len(kw or []): return mk_string(kw[k-1])
        n=run.pick(self.nbytes+1,'len_'+name); return sym_str(run,name,n)
    def mk(self,run):
        b=self.b; w=self.what
        if w=='rule':
            kinds=['Create','Delete','Modify','Allow','Require','Disallow','Match','Match','Match','Match']
            k=run.pick(len(kinds),'kind')
            KW=['IN','WITH','FROM','MATCH','dist/','']
            if kinds[k]!='Match': return b.variant('ArtifactRule',kinds[k],[Agg('VirtualTargetPath',[self.S(run,'pat','*',KW)])])
            shape=k-6   # 0: no prefixes, 1: src, 2: dst, 3: both
            vals={'pattern':Agg('VirtualTargetPath',[self.S(run,'pat','*',KW)]),'in_src':some(self.S(run,'src','d',KW)) if shape in (1,3) else none(),
                  'with':b.variant('Artifact',['Materials','Products'][run.pick(2,'with')]),'in_dst':some(self.S(run,'dst','e',KW)) if shape in (2,3) else none(),'from':self.S(run,'from','t',KW)}
            return b.variant('ArtifactRule','Match',[vals[n] for n in self.eng.src.enum_payload['ArtifactRule']['Match']])
        if w=='command': return Agg('Command',[VecO([self.S(run,'a0','sh'),mk_string('-c')][:1+run.pick(2,'n')])])
        if w=='keyid':
            # any 64-byte text is a key id: one free ASCII byte (upper-case letters, punctuation ...) in front of 63 hex digits
            k=run.pick(3,'keyid_shape')
            if k==0: return b.keyid(pool_keyid(0))
            c=z3.BitVec('kid_c',8); run.add(z3.ULT(c,0x80))
            hx=list(pool_keyid(0).encode())
            return Agg('KeyId',[StringO([c]+hx[1:] if k==1 else hx[:-1]+[c])])
        if w=='vpath': return Agg('VirtualTargetPath',[self.S(run,'p','a/b')])
        if w=='keytype': return b.variant('KeyType',['Ed25519','Rsa','Ecdsa'][run.pick(3,'kt')])
        if w=='hashvalue': return Agg('HashValue',[u8vec([z3.BitVec('h0',8),z3.BitVec('h1',8)][:run.pick(3,'n')])])
        if w=='byproducts':
            rv=[none(),some(Int(32,True,z3.BitVec('rv',32)))][run.pick(2,'rv')]
            so=[none(),some(self.S(run,'so','out'))][run.pick(2,'so')]; se=[none(),some(mk_string('e'))][run.pick(2,'se')]
            other=[[],[(mk_string('x'),self.S(run,'ov','y'))],[(self.S(run,'ok','k'),mk_string('v')),(mk_string('zz'),mk_string(''))]][run.pick(3,'other')]
            bp=b.struct('ByProducts',return_value=rv,stderr=se,stdout=so,other_fields=b.btreemap(other))
            # a free extra key must not collide with the fixed member names
            for kk,_ in other:
                for res in (b'return-value',b'stderr',b'stdout')+((b'zz',) if len(other)==2 and kk is other[0][0] else ()):      # a map holds each key once
                    from mirsym.models import bytes_eq
                    c=bytes_eq(kk.b,list(res))
                    if not (c.conc() and not c.v): run.add(z3.Not(c.z()))
            return bp
        if w=='step':
            return b.struct('Step',typ=mk_string('step'),threshold=Int(32,False,z3.BitVec('thr',32)),name=self.S(run,'name','s0'),
                            expected_materials=VecO([b.rule('Match','*',in_src='d',with_='Products',from_='t')][:run.pick(2,'nm')]),expected_products=VecO([b.rule('Allow','x')]),
                            pub_keys=VecO([b.keyid(pool_keyid(1))][:run.pick(2,'nk')]),expected_command=b.command(['make']))
        if w=='inspection':
            return b.struct('Inspection',typ=mk_string('inspection'),name=self.S(run,'name','i0'),expected_materials=VecO([]),expected_products=VecO([b.rule('Disallow','*')]),run=b.command(['sh','-c',]))
        if w=='signature': return b.signature(pool_keyid(0),value=[z3.BitVec('s0',8),7])
        if w=='pubkey':
            ak=run.pick(4,'algs')
            algs=[some(VecO([mk_string('sha256'),mk_string('sha512')])),none(),some(VecO([])),some(VecO([mk_string('sha512'),mk_string('sha256')]))][ak]
            pub=bytes(FIXTURE_ED25519_PUB)
            kid=[ed25519_keyid(pub),ed25519_keyid_noalgs(pub),ed25519_keyid(pub,()),ed25519_keyid(pub,('sha512','sha256'))][ak]
            if run.pick(2,'keytype')==1:
                # an ECDSA P-256 key (65-byte uncompressed point; the crate keeps the bytes as they are)
                pub=bytes([4]+[(3*i+1)&0xff for i in range(64)]); names=[('sha256','sha512'),None,(),('sha512','sha256')][ak]
                canon='{%s"keytype":"ecdsa","keyval":{"public":"%s"},"scheme":"ecdsa-sha2-nistp256"}'%('' if names is None else '"keyid_hash_algorithms":[%s],'%','.join('"%s"'%a for a in names),pub.hex())
                import hashlib
                return b.struct('PublicKey',typ=b.variant('KeyType','Ecdsa'),key_id=b.keyid(hashlib.sha256(canon.encode()).hexdigest()),scheme=b.variant('SignatureScheme','EcdsaP256Sha256'),keyid_hash_algorithms=algs,value=Agg('PublicKeyValue',[u8vec(list(pub))]))
            k=b.struct('PublicKey',typ=b.variant('KeyType','Ed25519'),key_id=b.keyid(kid),scheme=b.variant('SignatureScheme','Ed25519'),keyid_hash_algorithms=algs,value=Agg('PublicKeyValue',[u8vec(list(pub))]))
            return k
        if w=='link':
            env=[none(),some(b.btreemap([])),some(b.btreemap([(mk_string('K'),self.S(run,'ev','V'))]))][run.pick(3,'env')]
            return b.struct('LinkMetadata',name=self.S(run,'name','s0'),materials=b.btreemap([(b.vpath('a'),b.target_description([z3.BitVec('dm',8)]))][:run.pick(2,'nm')]),
                            products=b.btreemap([]),env=env,byproducts=b.byproducts(Int(32,True,0),'o','e'),command=b.command(['x']))
        if w=='layout':
            pub=bytes(FIXTURE_ED25519_PUB); kid=ed25519_keyid(pub)
            key=b.struct('PublicKey',typ=b.variant('KeyType','Ed25519'),key_id=b.keyid(kid),scheme=b.variant('SignatureScheme','Ed25519'),keyid_hash_algorithms=some(VecO([mk_string('sha256'),mk_string('sha512')])),value=Agg('PublicKeyValue',[u8vec(list(pub))]))
            steps=[b.step('s0',Int(32,False,z3.BitVec('thr',32)),[b.keyid(kid)],[b.rule('Create','a')],[],['make'])][:run.pick(2,'ns')]
            secs,nanos=[(4102444800,0),(1700000000,0),(1483228799,1000000000)][run.pick(3,'exp')]      # the last one is the leap second 2016-12-31T23:59:60Z
            return b.struct('LayoutMetadata',steps=VecO(steps),inspect=VecO([b.inspection('i0',['true'])][:run.pick(2,'ni')]),keys=b.hashmap([(b.keyid(kid),key)][:run.pick(2,'nkeys')]),expires=b.datetime(secs,nanos),readme=self.S(run,'readme','r'))
        if w in ('metablock','wrapper'):
            meta=b.wrap_link(b.link('s0',[(b.vpath('a'),b.target_description([1]))],[],byproducts=b.byproducts(Int(32,True,0),'o','e'),command=['x'])) if run.pick(2,'which')==0 else \
                 b.wrap_layout(b.layout([b.step('s0',1,[],[],[],[])],[],[],b.datetime(4102444800),'r'))
            if w=='wrapper': return meta
            ids=sorted([pool_keyid(0),pool_keyid(1)])
            S=lambda kid,v: b.signature(kid,value=v)
            # signature lists: none, one, two in ascending / descending key-id order, two under ONE key id (the list is data: order and repeats survive the trip)
            sigs=[[],[S(ids[0],[1,2])],[S(ids[0],[1,2]),S(ids[1],[3])],[S(ids[1],[3]),S(ids[0],[1,2])],[S(ids[0],[1,2]),S(ids[0],[3])]][run.pick(5,'nsig')]
            return b.metablock(meta,sigs)
        if w in ('predicate','statement'):
            def uri(s): return Agg('TypeURI',[mk_string(s) if isinstance(s,str) else s])
            def ts(secs,off=0,nanos=0): return Agg('TimeStamp',[Agg('DateTimeFixed',[Int(64,True,secs),nanos if isinstance(nanos,Int) else Int(32,False,nanos),Int(32,True,off)])])
            def frac():
                # a time stamp with fractional seconds (RFC 3339 allows them and the parser accepts them): free nanoseconds
                n=z3.BitVec('ts_nanos',32); run.add(z3.ULT(n,1000000000)); return Int(32,False,n)
            def linkv02(): return b.struct('LinkV02',name=self.S(run,'pname','p'),materials=b.btreemap([(b.vpath('m'),b.target_description([z3.BitVec('pm',8)]))][:run.pick(2,'npm')]),
                                           env=[none(),some(b.btreemap([(mk_string('K'),mk_string('V'))]))][run.pick(2,'penv')],command=b.command(['c']),byproducts=b.byproducts(Int(32,True,0),'o','e'))
            def meta():
                k=run.pick(5 if w=='predicate' else 4,'meta')      # (the fractional time stamp only for bare predicates)
                if k==0: return none()
                t1=[none(),some(ts(1700000000)),some(ts(1700000000,3600)),some(ts(1700000000,0,frac()))][k-1]
                return some(b.struct('ProvenanceMetadata',build_invocation_id=[none(),some(self.S(run,'inv','id'))][run.pick(2,'inv')],build_started_on=t1,build_finished_on=none(),
                                     completeness=[none(),some(b.struct('Completeness',arguments=some(Bool(z3.Bool('c_arg'))),environment=none(),materials=none()))][run.pick(2,'compl')],reproducible=none()))
            def mats(): return [none(),some(VecO([b.struct('Material',uri=some(uri('git+x')),digest=some(b.hashmap([(mk_string('sha1'),mk_string('ab'))])))])),some(VecO([])),
                                 # two materials whose uris are NOT in ascending order: the list is data, its order survives the trip (recipe.definedInMaterial indexes into it)
                                 some(VecO([b.struct('Material',uri=some(uri('z+x')),digest=some(b.hashmap([(mk_string('sha1'),mk_string('ab'))]))),b.struct('Material',uri=some(uri('a+x')),digest=none())]))][run.pick(4 if w=='predicate' else 3,'mats')]      # (the two-material list only for bare predicates: the statement wrapper adds nothing to it and multiplies the paths)
            def slsa1(): return b.struct('SLSAProvenanceV01',builder=b.struct('Builder',id=uri(self.S(run,'bid','b'))),
                                         recipe=[none(),some(b.struct('Recipe',typ=uri('t'),defined_in_material=some(Int(64,False,z3.BitVec('dim',64))),entry_point=none(),arguments=none(),environment=none()))][run.pick(2,'recipe')],metadata=meta(),materials=mats())
            def slsa2(): return b.struct('SLSAProvenanceV02',builder=b.struct('Builder',id=uri('b')),build_type=uri(self.S(run,'bt','t')),
                                         invocation=[none(),some(b.struct('Invocation',config_source=some(b.struct('ConfigSource',uri=some(uri('u')),digest=none(),entry_point=some(mk_string('e')))),parameters=none(),environment=none()))][run.pick(2,'inv2')],
                                         build_config=none(),metadata=meta(),materials=mats())
            pk=run.pick(3,'pred'); pred=[linkv02,slsa1,slsa2][pk]()
            ver=['LinkV0_2','SLSAProvenanceV0_1','SLSAProvenanceV0_2'][pk]
            # the values the parser hands out are the wrappers; they are what a consumer serialises again
            if w=='predicate': return b.variant('PredicateWrapper',ver,[pred])
            if run.pick(2,'stmt')==0:
                return b.variant('StatementWrapper','Naive',[b.struct('StateNaive',typ=mk_string('link'),name=self.S(run,'sname','n'),materials=b.btreemap([]),products=b.btreemap([(b.vpath('p'),b.target_description([z3.BitVec('sp',8)]))]),
                                env=none(),command=b.command([]),byproducts=b.byproducts(Int(32,True,0),'o','e'))])
            return b.variant('StatementWrapper','V0_1',[b.struct('StateV01',typ=mk_string('https://in-toto.io/Statement/v0.1'),subject=b.btreemap([(b.vpath('p'),b.target_description([z3.BitVec('sp',8)]))]),
                            predicate_type=b.variant('PredicateVer',ver),predicate=b.variant('PredicateWrapper',ver,[pred]))])
        raise Unsupported(w)
    def mk_args(self,run):
        x=self.mk(run)
        return [x],{'x':x}
    def check(self,run,out,g):
        rec={'outcome':'ok','viol':None,'wit':[],'sample':None,'obl':0}
        if out[0]!='ret':
            rec['outcome']='panic'; rec['viol']={'kind':'panic','known_key':None,'scenario':None,'predicted':'panic','what':'(de)serialisation panics: '+str(out[1])}; return rec
        st,v,outs=out[1]
        if st!='ok':
            rec['outcome']='ser_err'; rec['viol']={'kind':'serialize_failed','known_key':None,'scenario':None,'predicted':'err','what':'serialisation of a representable value fails'}; return rec
        def scn(m):
            d={'kind':'wire','type':self.TYPE[self.what],'value':json_py(v,m)}
            ref=ref_wire(self.eng,g['x'],m)
            if ref is not None: d['ref_value']=ref
            return d
        rec['obl']+=1
        kinds=[o[0] for o in outs]
        rec['outcome']='/'.join(kinds)
        if self.prop=='C17':
            if len(set(kinds))>1:
                r,m=run.check_sat(z3.BoolVal(True))
                bad=[c for c,k in zip(CHANNELS,kinds) if k=='err']
                rec['viol']={'kind':'channel_dependent_decoding','known_key':None,'scenario':scn(m),'predicted':'/'.join(kinds),'what':'the same document is accepted on some input channels and rejected on others (rejected on: %s)'%','.join(bad)}; return rec
            if kinds[0]=='ok':
                eqs=b_and(*[val_eq(outs[0][1],o[1]) for o in outs[1:]])
                r,m=run.check_sat(z3.Not(eqs.z()))
                if r==z3.sat:
                    rec['viol']={'kind':'channel_dependent_value','confirm':{'values_equal':False},'known_key':None,'scenario':scn(m),'predicted':'/'.join(kinds),'what':'the same document decodes to different values on different input channels'}; return rec
        else:
            # C16: the tree channel (and every channel that accepts) must give back the value
            oks=[o for o in outs if o[0]=='ok']
            if not oks:
                r,m=run.check_sat(z3.BoolVal(True))
                rec['viol']={'kind':'own_output_rejected','known_key':None,'scenario':scn(m),'predicted':'/'.join(kinds),'what':'the serialised form of a value is rejected by the parser on every channel'}; return rec
            for o in oks:
                got=o[1]
                if isinstance(got,Agg) and got.ty!=g['x'].ty and got.variant is not None and len(got.f)==1: got=got.f[0]      # Wrapper::Variant(inner)
                same=val_eq(g['x'],got)
                r,m=run.check_sat(z3.Not(same.z()))
                if r==z3.sat:
                    rec['viol']={'kind':'roundtrip_changes_value','confirm':{'roundtrip_equal':False},'known_key':None,'scenario':scn(m),'predicted':'/'.join(kinds),'what':'serialise -> parse does not give back an equal value'}; return rec
        if 'roundtrip_equal' not in self.seen and kinds[0]=='ok': self.seen.add('roundtrip_equal'); rec['wit'].append('roundtrip_equal')
        if is_sample(run,self.seed,self.rate):
            r,m=run.check_sat(z3.BoolVal(True))
            if r==z3.sat:
                rec['sample']={'scenario':scn(m),'expect':'/'.join(kinds)}
                if self.prop!='C17' and 'ref_value' in rec['sample']['scenario'] and kinds[0]=='ok': rec['sample']['confirm']={'value_roundtrip':True}     # also validates the reference serialiser
        return rec

def ed25519_keyid_noalgs(pub):
    import hashlib
    canon='{"keytype":"ed25519","keyval":{"public":"%s"},"scheme":"ed25519"}'%pub.hex()
    return hashlib.sha256(canon.encode()).hexdigest()
def json_py(v,m):
    """serde_json::Value Agg -> plain python (objects as {'__obj__':[[k,v],..]})"""
    t=v.vname
    if t=='Null': return None
    if t=='Bool': return bool(model_value(m,v.f[0].z()))
    if t=='Number':
        n=v.f[0].f[0]
        if n.vname=='Float': return 1.5
        x=model_value(m,n.f[0].z())
        return x-(1<<64) if n.vname=='NegInt' and x>>63 else x
    if t=='String':
        so=deref(v.f[0]); g=getattr(so,'ghost',None)
        if g and g.get('kind')=='rfc3339' and getattr(so,'taint',False):
            # a date text carried as a ghost string: written out from the model (chrono's AutoSi: 0, 3, 6 or 9 fraction digits)
            from mirsym.models import _fmt_rfc3339
            mvv=lambda x: x if isinstance(x,int) else model_value(m,x)
            sg=lambda x,w: x-(1<<w) if x>>(w-1) else x
            loc=sg(mvv(g['local_secs']),64) if not isinstance(g['local_secs'],int) else g['local_secs']; off=mvv(g['offset']); off=sg(off,32) if off>>31 else off; n=mvv(g['nanos'])
            txt=_fmt_rfc3339(loc-off,off,g.get('zulu',True),0)
            if n:
                fr='%09d'%(n%1000000000); fr=fr[:3] if fr[3:]=='000000' else (fr[:6] if fr[6:]=='000' else fr)
                i=txt.index('T')+9; txt=txt[:i]+'.'+fr+txt[i:]
            return txt
        return bytes(model_value(m,x) for x in so.b).decode(errors='replace')
    if t=='Array': return [json_py(x,m) for x in deref(v.f[0]).items]
    if t=='Object': return {'__obj__':[[bytes(model_value(m,x) for x in deref(k).b).decode(errors='replace'),json_py(x,m)] for k,x in deref(v.f[0]).e]}


class EntryPoints(Obligation):
    """the crate's own text entry points (`Json::from_reader`, `Json::from_slice`, `Json::deserialize`) run from MIR (generic
    bodies, T bound by the harness) on one document, with and without non-whitespace bytes after it: they accept / reject alike"""
    name='C17.interchange_entry_points'
    hash_order='fixed'
    def __init__(self,seed=0,known=(),**kw):
        self.seed=seed
        self.bounds={'documents':'a signed link block and a layout block: valid; with one member removed (invalid); with a struct member written twice (text entry points only: a tree cannot hold it); with a map member written twice','after the document':'nothing / non-whitespace bytes (a second document, a stray bracket)',
                     'entry points':'Json::from_reader, Json::from_slice (text) and Json::deserialize (tree; only without trailing bytes)'}
        self.witnesses=['accepted_everywhere','rejected_everywhere']; self.seen=set()
    def setup(self,eng,tier):
        self.eng=eng
        self.f_reader=eng.find_method('DataInterchange','Json','from_reader'); self.f_slice=eng.find_method('DataInterchange','Json','from_slice'); self.f_value=eng.find_method('DataInterchange','Json','deserialize')
    def entry(self,eng):
        def go(run,args):
            v,trailing=args
            run.ghost['tysubst']={'T':'Metablock'}
            outs=[]
            for fn,chan in ((self.f_reader,'reader'),(self.f_slice,'borrowed')):
                r=eng.call_fn(run,fn,[Opaque('JsonDoc',{'v':clone_val(v),'chan':chan,'trailing':trailing})])
                outs.append(deref(r).vname=='Ok')
            if not trailing and not run.ghost.get('dup_member'):
                r=eng.call_fn(run,self.f_value,[Ref(Cell(clone_val(v)))]); outs.append(deref(r).vname=='Ok')
            return outs
        return go
    def mk_args(self,run):
        from .C14 import ADV_DOCS, py_to_value
        name=['metablock_link','metablock_layout'][run.pick(2,'doc')]
        doc=ADV_DOCS[name][1]()
        from .C14 import ObjPairs, to_value_ordered
        shape=run.pick(4,'shape')      # 0 valid, 1 a member missing, 2 a struct member written twice, 3 a map member written twice
        run.ghost['dup_member']=shape in (2,3)
        if shape==1: doc={k:x for k,x in doc.items() if k!='signed'}
        if shape==2:
            inner=doc['signed']; k0='name' if 'name' in inner else 'readme'
            doc=dict(doc,signed=ObjPairs([(list(k.encode()),x) for k,x in sorted(inner.items())]+[(list(k0.encode()),'other')]))
        if shape==3:
            inner=doc['signed']; k0='materials' if 'materials' in inner else 'keys'
            m=inner[k0]; kk=sorted(m)[0]
            doc=dict(doc,signed=dict(inner,**{k0:ObjPairs([(list(k.encode()),x) for k,x in sorted(m.items())]+[(list(kk.encode()),m[kk])])}))
        trailing=bool(run.pick(2,'trailing'))
        v=to_value_ordered(doc) if shape in (2,3) else py_to_value(doc)
        class _M:       # the documents of this obligation are concrete: a "model" that evaluates constants
            def eval(self,t,model_completion=True): return z3.simplify(t)
        return [v,trailing],{'doc':json_py(v,_M()) if shape in (2,3) else doc,'trailing':trailing,'dup':shape in (2,3)}
    def check(self,run,out,g):
        rec={'outcome':'?','viol':None,'wit':[],'sample':None,'obl':1}
        scn={'kind':'entry_points','doc':g['doc'],'trailing':g['trailing'],'text_order':bool(g.get('dup'))}
        if out[0]!='ret':
            rec['outcome']='panic'; rec['viol']={'kind':'panic','known_key':None,'scenario':scn,'predicted':'panic','what':'an interchange entry point panics: '+str(out[1])[:200]}; return rec
        outs=out[1]; pred='/'.join('ok' if o else 'err' for o in outs); rec['outcome']=pred
        if len(set(outs))>1 or (g['trailing'] and any(outs)):
            rec['viol']={'kind':'entry_points_disagree','known_key':None,'scenario':scn,'predicted':pred,'what':'the same bytes are accepted through one entry point and rejected through another (reader/slice/tree = %s; bytes after the document: %s)'%(pred,g['trailing'])}; return rec
        w='accepted_everywhere' if outs[0] else 'rejected_everywhere'
        if w not in self.seen: self.seen.add(w); rec['wit'].append(w)
        rec['sample']={'scenario':scn,'expect':pred}
        return rec

class TextWhitespace(Obligation):
    """the crate's byte-level entry points (`MetadataWrapper::try_from_bytes`, `MetablockBuilder::from_raw_metadata` behind it) on
    the same document written with different insignificant white space: compact, leading / trailing blanks and line feeds, CR LF,
    pretty-printed.  All spellings are accepted or rejected alike and yield equal values (text layer: the serde_json model)."""
    name='C17.text_whitespace'
    hash_order='fixed'
    def __init__(self,seed=0,known=(),**kw):
        self.seed=seed
        self.bounds={'documents':'a link and a layout (valid), and a link with a member missing (invalid)','spellings':'compact; one leading space / line feed / tab / CR LF + two spaces; trailing line feed; pretty-printed (2-space indent); blanks around every colon and comma',
                     'entry point':'MetadataWrapper::try_from_bytes (byte slice)'}
        self.witnesses=['accepted_in_every_spelling','rejected_in_every_spelling']; self.seen=set()
    def setup(self,eng,tier):
        self.eng=eng; self.fn=eng.find_method(None,'MetadataWrapper','try_from_bytes')
    def entry(self,eng):
        def go(run,args):
            outs=[]
            for t in args[0]:
                r=eng.call_fn(run,self.fn,[Ref(Cell(Str(list(t),False)))])
                outs.append(deref(r))
            return outs
        return go
    def mk_args(self,run):
        import json as _j
        from .C14 import ADV_DOCS
        which=run.pick(3,'doc')
        doc=[ADV_DOCS['link'][1](),ADV_DOCS['layout'][1](),{k:v for k,v in ADV_DOCS['link'][1]().items() if k!='name'}][which]
        c=_j.dumps(doc,separators=(',',':'),sort_keys=True,ensure_ascii=False)
        texts=[c,' '+c,'\n'+c,'\t'+c,'\r\n  '+c,c+'\n',_j.dumps(doc,indent=2,sort_keys=True,ensure_ascii=False),_j.dumps(doc,separators=(' , ',' : '),sort_keys=True,ensure_ascii=False)]
        return [[t.encode() for t in texts]],{'texts':texts,'which':which}
    def check(self,run,out,g):
        rec={'outcome':'?','viol':None,'wit':[],'sample':None,'obl':1}
        scn={'kind':'text_whitespace','texts':g['texts']}
        if out[0]!='ret':
            rec['outcome']='panic'; rec['viol']={'kind':'panic','known_key':None,'scenario':scn,'predicted':'panic','what':'try_from_bytes panics: '+str(out[1])[:200]}; return rec
        outs=out[1]; kinds=['ok' if o.vname=='Ok' else 'err' for o in outs]; rec['outcome']='/'.join(kinds)
        if len(set(kinds))>1:
            bad=[i for i,k in enumerate(kinds) if k!=kinds[0]]
            rec['viol']={'kind':'whitespace_dependent_decoding','known_key':None,'scenario':scn,'predicted':'/'.join(kinds),'what':'the same document is accepted in one white-space spelling and rejected in another (spellings %s differ from the compact one)'%bad}; return rec
        if kinds[0]=='ok':
            from mirsym.models import val_eq, b_and
            eqs=b_and(*[val_eq(outs[0].f[0],o.f[0]) for o in outs[1:]])
            r,m=run.check_sat(z3.Not(eqs.z()))
            if r==z3.sat:
                rec['viol']={'kind':'whitespace_dependent_value','known_key':None,'scenario':scn,'predicted':'/'.join(kinds),'confirm':{'values_equal':False},'what':'the same document decodes to different values depending on its white space'}; return rec
        w='accepted_in_every_spelling' if kinds[0]=='ok' else 'rejected_in_every_spelling'
        if w not in self.seen: self.seen.add(w); rec['wit'].append(w)
        rec['sample']={'scenario':scn,'expect':'/'.join(kinds),'confirm':{'values_equal':True}}
        return rec

class WritersDeterministic(Obligation):
    """`Json::to_writer` and `JsonPretty::to_writer` (generic bodies from MIR, T bound by the harness) on a link whose artifacts carry
    two digest algorithms (a HashMap with two entries): the bytes do not depend on the iteration order of any hash map, and they
    parse back to the value."""
    name='C16.writers_deterministic'
    hash_order='fixed'
    def __init__(self,seed=0,known=(),**kw):
        self.seed=seed
        self.bounds={'value':'a link with two products, each with sha256 and sha512 digests (concrete bytes), an environment map with two entries','writers':'Json::to_writer (canonical) and JsonPretty::to_writer into a Vec<u8>',
                     'hash_map_iteration':'first run insertion order, second run every permutation of every hash map','text':'serde_json writer model (member order as handed over; a Value argument is a key-ordered tree)'}
        self.witnesses=['same_bytes']; self.seen=set()
    def setup(self,eng,tier):
        self.eng=eng; self.b=B(eng)
        self.w_pretty=eng.find_method('DataInterchange','JsonPretty','to_writer'); self.w_json=eng.find_method('DataInterchange','Json','to_writer')
    def entry(self,eng):
        def go(run,args):
            mk=args[0]; outs=[]
            run.ghost['tysubst']={'T':'LinkMetadata','W':'Vec<u8>'}
            for fn in (self.w_pretty,self.w_json):
                res=[]
                for mode in ('fixed','all'):
                    run.hash_order=mode
                    buf=VecO([])
                    r=eng.call_fn(run,fn,[buf,Ref(Cell(mk()))])
                    res.append((deref(r).vname,[deref(x).v for x in buf.items]))
                outs.append(res)
            run.hash_order='fixed'
            return outs
        return go
    def mk_args(self,run):
        b=self.b
        def mk():
            td=lambda x,y: b.hashmap([(b.variant('HashAlgorithm','Sha256'),Agg('HashValue',[u8vec([x])])),(b.variant('HashAlgorithm','Sha512'),Agg('HashValue',[u8vec([y])]))])
            return b.struct('LinkMetadata',name=mk_string('s0'),materials=b.btreemap([]),products=b.btreemap([(b.vpath('a'),td(1,2)),(b.vpath('b'),td(3,4))]),
                            env=some(b.btreemap([(mk_string('K'),mk_string('V')),(mk_string('L'),mk_string('W'))])),byproducts=b.byproducts(Int(32,True,0),'o','e'),command=b.command(['x']))
        return [mk],{}
    def check(self,run,out,g):
        rec={'outcome':'?','viol':None,'wit':[],'sample':None,'obl':1}
        scn={'kind':'writers_deterministic'}
        if out[0]!='ret':
            rec['outcome']='panic'; rec['viol']={'kind':'panic','known_key':None,'scenario':scn,'predicted':'panic','what':'a writer panics: '+str(out[1])[:200]}; return rec
        rec['outcome']='ok'
        for name,res in zip(('JsonPretty::to_writer','Json::to_writer'),out[1]):
            (k1,b1),(k2,b2)=res
            if k1!='Ok' or k2!='Ok':
                rec['viol']={'kind':'writer_fails','known_key':None,'scenario':scn,'predicted':'err','what':name+' fails on a representable link'}; return rec
            if b1!=b2:
                rec['viol']={'kind':'written_bytes_depend_on_hash_order','known_key':None,'scenario':scn,'predicted':'differs','what':'%s writes different bytes for the same link under different hash-map iteration orders:\\n%s\\nvs\\n%s'%(name,bytes(b1).decode(errors='replace')[:300],bytes(b2).decode(errors='replace')[:300])}; return rec
        if 'same_bytes' not in self.seen: self.seen.add('same_bytes'); rec['wit'].append('same_bytes')
        rec['sample']={'scenario':scn,'expect':'stable'}
        return rec
