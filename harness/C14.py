"""C14 - untrusted bytes can make verification fail but never crash it (panic-freedom obligations)."""
import z3
from mirsym.values import *
from mirsym.runner import Obligation
from mirsym.build import B, model_value
from .common import outcome_of, is_sample, pool_keyid
from .pipeline import *
from . import C03 as c03

class KeyIdPrefix(PipelineBase):
    """link files whose signatures carry arbitrary (well-formed UTF-8, 64-byte) key ids: `match_signatures` / `KeyId::prefix`"""
    name='C14.keyid_prefix'
    def __init__(self,**kw):
        PipelineBase.__init__(self,**kw)
        self.bounds={'signature_key_id':'64 bytes: 6 fixed hex digits, 4 free bytes forming valid UTF-8 (so multi-byte characters straddle byte 8), 54 fixed hex digits; also hex ids of 3, 7, 8, 9, 63 and 65 bytes; the link file is a JSON document that passes through the crate\'s Metablock decoder (Deserializer model) before it is used','pipeline':'1 step, the link file is found by the directory scan and handed to match_signatures'}
        self.witnesses=['ascii_id_ok','nonascii_id_seen']
    def mk_args(self,run):
        F0,OWN=0,1
        free=[z3.BitVec('kid_%d'%i,8) for i in range(4)]
        kid=list(pool_keyid(F0)[:6].encode())+free+list(pool_keyid(F0)[10:].encode())
        # other lengths (a key id in a file is just a JSON string): they reach verification only if the decoder lets them through
        ln=[64,3,7,8,9,63,65][run.pick(7,'kidlen')]
        if ln!=64: kid=list((pool_keyid(F0)*2)[:ln].encode()); free=[]
        from mirsym.models import utf8_valid
        okv,_=utf8_valid(run,kid)
        if not okv: raise Infeasible()
        fd=FileD('s0',F0,BlockD('link',LinkD('s0',{'a':[1]},{'b':[2]}),[SigD(F0,F0)]))
        dirs={():[fd]}
        lay=LayoutD([F0],[StepD('s0',1,[F0])])
        lb=BlockD('layout',lay,[SigD(OWN,OWN)]); caller=[(OWN,OWN)]
        args=self.install(run,lb,caller,dirs)
        # overwrite the key id of the link's signature with the free one
        blk=run.ghost['dirs'][self.link_dir][fd.fname()]
        sig=deref(self.b.get(blk,'signatures')).items[0]
        self.b.set(sig,'key_id',Agg('KeyId',[StringO(kid)]))
        # the link file goes through the crate's decoder: serialise the block (Serializer model) and let load_linkfile decode the document
        from mirsym import models_serde as ms
        run.ghost['dirs'][self.link_dir][fd.fname()]=('json',ms.ser_value(self.eng,run,blk))
        return args,{'lb':lb,'caller':caller,'dirs':dirs,'kid':kid,'free':free}
    def check(self,run,out,g):
        oc=outcome_of(out); rec=self.new_rec(oc)
        def scn(m):
            sc=conc_scenario(m,g['lb'],g['caller'],g['dirs'],1700000000,repeat=1)
            sc['dirs'][0]['files'][0]['block']['sigs'][0]['label_raw']=[model_value(m,x) for x in g['kid']]
            return sc
        if oc=='panic':
            r,m=run.check_sat(z3.BoolVal(True))
            rec['viol']={'kind':'panic_keyid_prefix','known_key':None,'scenario':scn(m),'predicted':'panic','what':'in_toto_verify panics on a link file whose signature key id has a multi-byte character across byte 8: '+str(out[1])}; return rec
        if g['free']:
            self.wit(run,rec,'ascii_id_ok',z3.And(*[z3.ULT(x,0x80) for x in g['free']]))
            self.wit(run,rec,'nonascii_id_seen',z3.Or(*[z3.UGE(x,0x80) for x in g['free']]))
        if is_sample(run,self.seed,4):
            r,m=run.check_sat(z3.BoolVal(True))
            if r==z3.sat: rec['sample']={'scenario':scn(m),'expect':'ok' if oc=='ok' else 'err'}
        return rec

class LinkFileNames(PipelineBase):
    """files in the link directory whose names match `<step>.????????.link` with multi-byte characters in the
    8-character part (a `?` matches any character): found by the directory scan before any signature is checked"""
    name='C14.link_file_names'
    MB=['\u00e9','\u20ac','\U00010000']
    def __init__(self,**kw):
        PipelineBase.__init__(self,**kw)
        self.bounds={'decoy_file_name':'<step>.<8 characters>.link where one of the 8 characters (any position) is a 2-, 3- or 4-byte character and the others are the hex digits of an authorized key id; also the 7/9-character forms that the glob does not match',
                     'step_name':'ASCII `s0` or non-ASCII `s\u00e9`','decoy_content':'validly signed by the authorized functionary / unparsable','companions':'with and without the genuine link file of the step'}
        self.witnesses=['decoy_seen_ok','decoy_seen_err']
    def mk_args(self,run):
        F0,OWN=0,1
        sname=['s0','s\u00e9'][run.pick(2,'stepname')]
        pos=run.pick(8,'pos'); ch=self.MB[run.pick(3,'char')]
        nchars=[8,7,9][run.pick(3,'nchars')]
        base=(pool_keyid(F0)[:8]+'0')[:nchars]
        pos=min(pos,nchars-1)
        short=base[:pos]+ch+base[pos+1:]
        parsable=run.pick(2,'parsable')==0
        files=[FileD(sname,F0,BlockD('link',LinkD(sname,{'a':[1]},{'b':[2]}),[SigD(F0,F0)]),parsable=parsable,short_raw=short)]
        if run.pick(2,'genuine')==0: files.append(FileD(sname,F0,BlockD('link',LinkD(sname,{'a':[1]},{'b':[2]}),[SigD(F0,F0)])))
        dirs={():files}
        lay=LayoutD([F0],[StepD(sname,1,[F0])])
        lb=BlockD('layout',lay,[SigD(OWN,OWN)]); caller=[(OWN,OWN)]
        args=self.install(run,lb,caller,dirs)
        return args,{'lb':lb,'caller':caller,'dirs':dirs,'short':short}
    def check(self,run,out,g):
        oc=outcome_of(out); rec=self.new_rec(oc); rec['obl']=1
        scn=lambda m: conc_scenario(m,g['lb'],g['caller'],g['dirs'],1700000000,repeat=1)
        if oc=='panic':
            r,m=run.check_sat(z3.BoolVal(True))
            rec['viol']={'kind':'panic_link_file_name','known_key':None,'scenario':scn(m),'predicted':'panic','what':'in_toto_verify panics on a link directory containing a file named %s.%s.link: %s'%(g['dirs'][()][0].step,g['short'],str(out[1])[:200])}; return rec
        self.wit(run,rec,'decoy_seen_ok' if oc=='ok' else 'decoy_seen_err')
        if is_sample(run,self.seed,6):
            r,m=run.check_sat(z3.BoolVal(True))
            if r==z3.sat: rec['sample']={'scenario':scn(m),'expect':'ok' if oc=='ok' else 'err'}
        return rec

NN_SRC=['a/../b','./a','a//b','b','../x','a']
class RulesNonNormal(c03.Rules):
    """the rule engine on non-normalised artifact paths (./, ../, //): any verdict, but no panic"""
    def __init__(self,**kw):
        c03.Rules.__init__(self,**kw)
        self.name='C14.rules_non_normal_paths'
        self.bounds={'path_universe':NN_SRC,'artifacts':'1-2 paths of the universe, each material only / product only / both, free digest bytes','rule_list':'one of 7 basic rules (CREATE/DELETE/MODIFY/ALLOW/DISALLOW *, ALLOW ?, REQUIRE a) followed by DISALLOW * or REQUIRE a','obligation':'no panic (the verdict on non-normal paths is outside C03)'}
        self.witnesses=['returns']
    def mk_args(self,run):
        b=self.b
        side=['materials','products'][run.pick(2,'side')]
        NNR=[c03.BASIC[i] for i in (1,4,7,10,13,15,19)]
        rules=[NNR[run.pick(len(NNR),'rule')]]+c03.TAILS[run.pick(2,'tail')]
        mats={}; prods={}
        chosen=[NN_SRC[i] for i in range(len(NN_SRC)) if run.pick(2,'use_%d'%i)]
        if len(chosen)>2 or not chosen: raise Infeasible()
        for p in chosen:
            st=1+run.pick(3,'state_'+p)
            if st in (1,3): mats[p]=self.desc(z3.BitVec('m_'+p,8))
            if st in (2,3): prods[p]=self.desc(z3.BitVec('p_'+p,8))
        links={'it':{'materials':mats,'products':prods}}
        def mk_art(d):
            return [(b.vpath(p),b.hashmap([(b.variant('HashAlgorithm','Sha256'),Agg('HashValue',[u8vec(bs)])) for alg,bs in dd.items()])) for p,dd in sorted(d.items())]
        lm=b.hashmap([(mk_string(n),b.link(n,mk_art(l['materials']),mk_art(l['products']))) for n,l in links.items()])
        rl=[self.mk_rule(r) for r in rules]
        it=b.step('it',1,[],rl if side=='materials' else [],rl if side=='products' else [])
        return [Ref(Cell(Ref(Cell(it)))),Ref(Cell(lm))],{'side':side,'rules':rules,'links':links}
    def check(self,run,out,g):
        oc=outcome_of(out); rec={'outcome':oc,'viol':None,'wit':[],'sample':None,'obl':1}
        if oc=='panic':
            r,m=run.check_sat(z3.BoolVal(True))
            rec['viol']={'kind':'panic_rules_non_normal_path','known_key':None,'scenario':self.scn(g,m),'predicted':'panic','what':'apply_rules_on_link panics on non-normalised artifact paths: '+str(out[1])}; return rec
        if 'returns' not in self.seen: self.seen.add('returns'); rec['wit'].append('returns')
        if is_sample(run,self.seed,self.rate*3):
            r,m=run.check_sat(z3.BoolVal(True))
            if r==z3.sat: rec['sample']={'scenario':self.scn(g,m),'expect':'ok' if oc=='ok' else 'err'}
        return rec

EDGE_PATHS=['d','d/.','./d/','x/../d','d\u00e9','d\U0001F600/a','d/a','da','d//a','/d/a','./d/a','x/../d/a']
class RulesMatchPrefixEdges(RulesNonNormal):
    """MATCH rules with a source / destination prefix on artifact paths that are the prefix itself, the prefix followed by a
    multi-byte character, or reach the prefix only after normalisation: any verdict, but no panic"""
    def __init__(self,**kw):
        RulesNonNormal.__init__(self,**kw)
        self.name='C14.rules_match_prefix_edges'
        self.bounds={'path_universe':EDGE_PATHS,'artifacts':'1-2 paths of the universe on the rule side (free digest byte); the referenced step holds a, d/a, e/a',
                     'rule_list':'MATCH * / a / ? with IN d or IN d/ as source prefix, optionally IN e as destination prefix, WITH PRODUCTS or MATERIALS, followed by DISALLOW * or nothing','obligation':'no panic'}
        self.witnesses=['returns']
    def mk_args(self,run):
        b=self.b
        side=['materials','products'][run.pick(2,'side')]
        pat=['*','a','?'][run.pick(3,'pat')]; src=['d','d/'][run.pick(2,'src')]; dst=[None,'e'][run.pick(2,'dst')]; w=['Products','Materials'][run.pick(2,'with')]
        rules=[c03.M(pat,in_src=src,in_dst=dst,with_=w)]+[c03.TAILS[0],c03.TAILS[3]][run.pick(2,'tail')]
        i=run.pick(len(EDGE_PATHS),'p1'); j=run.pick(len(EDGE_PATHS)+1,'p2')
        chosen=[EDGE_PATHS[i]]+([EDGE_PATHS[j]] if j<len(EDGE_PATHS) and j!=i else [])
        own={p:self.desc(z3.BitVec('o_%d'%k,8)) for k,p in enumerate(chosen)}
        td={p:self.desc(z3.BitVec('t_%d'%k,8)) for k,p in enumerate(['a','d/a','e/a'])}
        links={'it':{'materials':own if side=='materials' else {},'products':own if side=='products' else {}},'t':{'materials':td if w=='Materials' else {},'products':td if w=='Products' else {}}}
        def mk_art(d):
            return [(b.vpath(p),b.hashmap([(b.variant('HashAlgorithm','Sha256'),Agg('HashValue',[u8vec(bs)])) for alg,bs in dd.items()])) for p,dd in sorted(d.items())]
        lm=b.hashmap([(mk_string(n),b.link(n,mk_art(l['materials']),mk_art(l['products']))) for n,l in links.items()])
        rl=[self.mk_rule(r) for r in rules]
        it=b.step('it',1,[],rl if side=='materials' else [],rl if side=='products' else [])
        return [Ref(Cell(Ref(Cell(it)))),Ref(Cell(lm))],{'side':side,'rules':rules,'links':links}

LONG_LENS=[255,4000,4097,70000]
class RulesLongPaths(c03.Rules):
    """the rule engine on very long (but representable) artifact paths and MATCH prefixes: any verdict, but no panic"""
    def __init__(self,lens=None,**kw):
        c03.Rules.__init__(self,**kw)
        self.name='C14.rules_long_paths'; self.lens=list(lens or LONG_LENS)
        self.bounds={'artifact_path_lengths':self.lens,'prefix_lengths':[1,200,5000],'rule_list':'MATCH * [IN <src prefix>] WITH PRODUCTS [IN <dst prefix>] FROM t, or CREATE/DELETE/MODIFY/ALLOW/REQUIRE/DISALLOW <the long path or *>, followed by DISALLOW *',
                     'artifacts':'one long path on the rule side (material, product or both, free digest byte); the referenced step t holds the same name under the destination prefix (present or absent)','obligation':'no panic'}
        self.witnesses=['returns']
    def mk_args(self,run):
        b=self.b
        n=self.lens[run.pick(len(self.lens),'len')]; name='n'*n
        side=['materials','products'][run.pick(2,'side')]
        kind=['MATCH','CREATE','DELETE','MODIFY','ALLOW','REQUIRE','DISALLOW'][run.pick(7,'kind')]
        pre=lambda k: [None,'p','q'*200,'r'*5000][run.pick(4,k)]
        src=dst=None
        if kind=='MATCH':
            src=pre('src'); dst=pre('dst')
            rules=[c03.M('*',in_src=src,in_dst=dst)]
        else: rules=[{'kind':kind,'pattern':[name,'*'][run.pick(2,'pat')]}]
        rules=rules+c03.TAILS[0]
        own_path=(src+'/' if src else '')+name
        st=1+run.pick(3,'state')
        mats={}; prods={}
        if st in (1,3): mats[own_path]=self.desc(z3.BitVec('m',8))
        if st in (2,3): prods[own_path]=self.desc(z3.BitVec('p',8))
        links={'it':{'materials':mats,'products':prods}}
        if kind=='MATCH':
            tp={}
            if run.pick(2,'t_has'): tp[(dst+'/' if dst else '')+name]=self.desc(z3.BitVec('t',8))
            links['t']={'materials':{},'products':tp}
        def mk_art(d):
            return [(b.vpath(p),b.hashmap([(b.variant('HashAlgorithm','Sha256'),Agg('HashValue',[u8vec(bs)])) for alg,bs in dd.items()])) for p,dd in sorted(d.items())]
        lm=b.hashmap([(mk_string(nm),b.link(nm,mk_art(l['materials']),mk_art(l['products']))) for nm,l in links.items()])
        rl=[self.mk_rule(r) for r in rules]
        it=b.step('it',1,[],rl if side=='materials' else [],rl if side=='products' else [])
        return [Ref(Cell(Ref(Cell(it)))),Ref(Cell(lm))],{'side':side,'rules':rules,'links':links}
    def check(self,run,out,g):
        oc=outcome_of(out); rec={'outcome':oc,'viol':None,'wit':[],'sample':None,'obl':1}
        if oc=='panic':
            r,m=run.check_sat(z3.BoolVal(True))
            rec['viol']={'kind':'panic_rules_long_path','known_key':None,'scenario':self.scn(g,m),'predicted':'panic','what':'apply_rules_on_link panics on a long artifact path / prefix: '+str(out[1])[:200]}; return rec
        if 'returns' not in self.seen: self.seen.add('returns'); rec['wit'].append('returns')
        if is_sample(run,self.seed,40):
            r,m=run.check_sat(z3.BoolVal(True))
            if r==z3.sat: rec['sample']={'scenario':self.scn(g,m),'expect':'ok' if oc=='ok' else 'err'}
        return rec

class RulesManyPatterns(c03.Rules):
    """a step with a very long list of distinct rule patterns (a representable, if unusual, layout), applied twice in one process:
    no panic, and the verdict of the reference rule semantics both times"""
    def __init__(self,counts=(200,),**kw):
        c03.Rules.__init__(self,**kw)
        self.name='C14.rules_many_patterns'; self.counts=list(counts)
        self.bounds={'rule_list':'N in %s distinct ALLOW q<i>* patterns in ascending or descending order, then ALLOW/CREATE/DELETE a* (sorts before all of them) and DISALLOW *'%self.counts,
                     'artifacts':'products a1 and q007x (free digest bytes), optionally zz (caught by DISALLOW *)','calls':'the same rule list is applied twice in one process (statics persist); both verdicts are checked against oracles/rules.py','hash_map_iteration':'insertion order'}
        self.witnesses=['accept','reject']; self.rate=2
    def entry(self,eng):
        fn=self.fn
        def go(run,args):
            a1,a2=args
            eng.call_fn(run,fn,a1)
            return eng.call_fn(run,fn,a2)
        return go
    def mk_args(self,run):
        b=self.b
        n=self.counts[run.pick(len(self.counts),'count')] if len(self.counts)>1 else self.counts[0]
        order=run.pick(2,'descending')
        names=['q%03d*'%i for i in range(n)]
        if order: names.reverse()
        last=['ALLOW','CREATE','DELETE'][run.pick(3,'last')]
        rules=[{'kind':'ALLOW','pattern':p} for p in names]+[{'kind':last,'pattern':'a*'}]+c03.TAILS[0]
        prods={'a1':self.desc(z3.BitVec('pa',8)),'q007x':self.desc(z3.BitVec('pq',8))}
        if run.pick(2,'stray'): prods['zz']=self.desc(z3.BitVec('pz',8))
        links={'it':{'materials':{},'products':prods}}
        def mk_art(d):
            return [(b.vpath(p),b.hashmap([(b.variant('HashAlgorithm','Sha256'),Agg('HashValue',[u8vec(bs)])) for alg,bs in dd.items()])) for p,dd in sorted(d.items())]
        def mk():
            lm=b.hashmap([(mk_string(nm),b.link(nm,mk_art(l['materials']),mk_art(l['products']))) for nm,l in links.items()])
            it=b.step('it',1,[],[],[self.mk_rule(r) for r in rules])
            return [Ref(Cell(Ref(Cell(it)))),Ref(Cell(lm))]
        return (mk(),mk()),{'side':'products','rules':rules,'links':links}
    def scn(self,g,m):
        d=c03.Rules.scn(self,g,m); d['repeat']=2; return d

class Importers(Obligation):
    """key importers on garbage: PublicKey::from_pem_spki and PrivateKey::from_pkcs8 with the parsing
    dependencies (pem::parse, ring key-pair constructors) stubbed by their contract "may return Err"."""
    name='C14.key_importers'
    def __init__(self,seed=0,known=(),**kw):
        self.seed=seed
        self.bounds={'pem::parse':'returns Err or a Pem with 0..2 free content bytes','ring constructors':'Ed25519KeyPair::from_pkcs8 and RsaKeyPair::from_pkcs8 fail (the input is not such a key); EcdsaKeyPair::from_pkcs8 fails or succeeds',
                     'inputs':'any text / any bytes (the stubs make the content irrelevant)'}
        self.witnesses=['err_returned']; self.seen=set()
    def setup(self,eng,tier):
        self.eng=eng; self.b=B(eng)
        def s_pem_parse(e,run,a,f):
            if run.pick(2,'pem_ok')==0: return err(Opaque('PemError'))
            n=run.pick(3,'pem_len'); return ok(Agg('Pem',[mk_string('PUBLIC KEY'),u8vec([z3.BitVec('pem_%d'%i,8) for i in range(n)])]))
        def s_fail(e,run,a,f): return err(Opaque('KeyRejected'))
        def s_maybe(e,run,a,f):
            if run.pick(2,'ecdsa_ok')==0: return err(Opaque('KeyRejected'))
            return ok(Opaque('EcdsaKeyPair'))
        eng.stub(r'^pem::parse$|^parse$',s_pem_parse,'pem::parse [may return Err]')
        eng.stub(r'Pem::contents$',lambda e,run,a,f: Ref(Cell(deref(a[0]).f[1])),'pem::Pem::contents')
        eng.stub(r'Ed25519KeyPair::from_pkcs8(_maybe_unchecked)?$',s_fail,'ring Ed25519KeyPair::from_pkcs8 [Err]')
        eng.stub(r'(RsaKeyPair|rsa::KeyPair|KeyPair)::from_pkcs8$',s_fail,'ring RsaKeyPair::from_pkcs8 [Err]')
        eng.stub(r'EcdsaKeyPair::from_pkcs8$',s_maybe,'ring EcdsaKeyPair::from_pkcs8 [may return Err]')
        eng.stub(r'EcdsaKeyPair( as ring::signature::KeyPair>)?::public_key$',lambda e,run,a,f: Ref(Cell(Opaque('EcdsaPub'))),'ring EcdsaKeyPair::public_key')
        eng.stub(r'^SystemRandom::new$',lambda e,run,a,f: Opaque('SystemRandom'),'ring SystemRandom::new')
        eng.stub(r'^<.*PublicKey as AsRef<\[u8\]>>::as_ref$',lambda e,run,a,f: Ref(Cell(Str([4]+[7]*64,False))),'ring PublicKey::as_ref [65 fixed bytes]')
        self.f_pem=eng.find_method(None,'PublicKey','from_pem_spki'); self.f_pk8=eng.find_method(None,'PrivateKey','from_pkcs8')
        def go(run,args):
            which=args[0]
            if which=='pem': return eng.call_fn(run,self.f_pem,[mk_str('whatever'),self.b.variant('SignatureScheme','Ed25519')])
            return eng.call_fn(run,self.f_pk8,[mk_str('garbage'),self.b.variant('SignatureScheme','EcdsaP256Sha256')])
        self.go=go
    def entry(self,eng): return self.go
    def mk_args(self,run):
        w=['pem','pkcs8'][run.pick(2,'which')]
        return [w],{'which':w}
    def check(self,run,out,g):
        oc=outcome_of(out); rec={'outcome':oc,'viol':None,'wit':[],'sample':None,'obl':1}
        if oc=='panic':
            scn={'kind':'importers','which':g['which']}
            rec['viol']={'kind':'panic_importer_'+g['which'],'known_key':None,'scenario':scn,'predicted':'panic','what':('PublicKey::from_pem_spki' if g['which']=='pem' else 'PrivateKey::from_pkcs8')+' panics on input that is not a key: '+str(out[1])}; return rec
        if oc.startswith('err') and 'err_returned' not in self.seen: self.seen.add('err_returned'); rec['wit'].append('err_returned')
        return rec

# ------------------------------------------------------------------------------------------------
# adversarial documents through the crate's decoders (hand-written and derive-generated visitors)
from mirsym import models_de as md
from mirsym.models import clone_val
from mirsym.models_json import jnull,jbool,jnum,jstr,jarr,jobj
from .signed import FIXTURE_ED25519_PUB, ed25519_keyid
from .wire import CHANNELS, json_py

def _kid(i=0): return pool_keyid(i)
def _edkey():
    pub=bytes(FIXTURE_ED25519_PUB)
    return {'keyid':ed25519_keyid(pub),'keyid_hash_algorithms':['sha256','sha512'],'keytype':'ed25519','keyval':{'public':pub.hex()},'scheme':'ed25519'}
def _link(): return {'_type':'link','name':'s0','materials':{'a':{'sha256':'ab'}},'products':{},'environment':{'K':'V'},'byproducts':{'return-value':0,'stdout':'o','stderr':'e','x':'y'},'command':['x']}
def _layout():
    k=_edkey()
    return {'_type':'layout','steps':[{'_type':'step','threshold':1,'name':'s0','expected_materials':[['MATCH','*','IN','d','WITH','PRODUCTS','IN','e','FROM','t']],'expected_products':[['ALLOW','x']],'pubkeys':[k['keyid']],'expected_command':['make']}],
            'inspect':[{'_type':'inspection','name':'i0','expected_materials':[],'expected_products':[['DISALLOW','*']],'run':['sh','-c']}],'keys':{k['keyid']:k},'expires':'2100-01-01T00:00:00Z','readme':'r'}
def _slsa1(): return {'builder':{'id':'b'},'recipe':{'type':'t','definedInMaterial':1},'metadata':{'buildInvocationId':'id','buildStartedOn':'2023-11-14T22:13:20Z','completeness':{'arguments':True}},'materials':[{'uri':'git+x','digest':{'sha1':'ab'}}]}
def _slsa2(): return {'builder':{'id':'b'},'buildType':'t','invocation':{'configSource':{'uri':'u','entryPoint':'e'}},'metadata':{'buildStartedOn':'2023-11-14T23:13:20+01:00'},'materials':[{'uri':'git+x','digest':{'sha1':'ab'}}]}
def _linkv02(): return {'name':'p','materials':{'m':{'sha256':'ab'}},'env':{'K':'V'},'command':['c'],'byproducts':{'return-value':0,'stdout':'o','stderr':'e'}}
def _stmt(ptype,pred): return {'_type':'https://in-toto.io/Statement/v0.1','subject':{'p':{'sha256':'ab'}},'predicateType':ptype,'predicate':pred}
ADV_DOCS={
 'rule':('ArtifactRule',lambda: ['MATCH','*','IN','d','WITH','PRODUCTS','IN','e','FROM','t']),
 'rule_short':('ArtifactRule',lambda: ['CREATE','a']),
 'step':('Step',lambda: _layout()['steps'][0]),
 'inspection':('Inspection',lambda: _layout()['inspect'][0]),
 'pubkey':('PublicKey',_edkey),
 'signature':('Signature',lambda: {'keyid':_kid(0),'sig':'0102'}),
 'byproducts':('ByProducts',lambda: _link()['byproducts']),
 'link':('LinkMetadata',_link),
 'layout':('LayoutMetadata',_layout),
 'metablock_link':('Metablock',lambda: {'signatures':[{'keyid':_kid(0),'sig':'0102'}],'signed':_link()}),
 'metablock_layout':('Metablock',lambda: {'signatures':[],'signed':_layout()}),
 'predicate_slsa1':('PredicateWrapper',_slsa1),
 'predicate_slsa2':('PredicateWrapper',_slsa2),
 'predicate_link':('PredicateWrapper',_linkv02),
 'statement_link':('StatementWrapper',lambda: _stmt('https://in-toto.io/Link/v0.2',_linkv02())),
 'statement_slsa1':('StatementWrapper',lambda: _stmt('https://slsa.dev/provenance/v0.1',_slsa1())),
 'statement_naive':('StatementWrapper',_link),
}
def py_to_value(x):
    if x is None: return jnull()
    if isinstance(x,bool): return jbool(Bool(x))
    if isinstance(x,int): return jnum('PosInt',Int(64,False,x)) if x>=0 else jnum('NegInt',Int(64,True,x))
    if isinstance(x,str): return jstr(mk_string(x))
    if isinstance(x,list): return jarr([py_to_value(y) for y in x])
    if isinstance(x,dict): return jobj(sorted([(k,py_to_value(v)) for k,v in x.items()],key=lambda kv: kv[0].encode()))
    raise Unsupported('py_to_value')
def count_nodes(x):
    if isinstance(x,list): return 1+sum(count_nodes(y) for y in x)
    if isinstance(x,dict): return 1+sum(count_nodes(v) for v in x.values())
    return 1
def replace_node(x,idx,fn,path=()):
    """pre-order replacement of node idx in a python JSON document; returns (new doc, remaining idx or None when done)"""
    if idx==0: return fn(x,path),None
    idx-=1
    if isinstance(x,list):
        out=[]
        for i,y in enumerate(x):
            if idx is None: out.append(y); continue
            n,idx=replace_node(y,idx,fn,path+(i,)); out.append(n)
        return out,idx
    if isinstance(x,dict):
        out={}
        for k in sorted(x):
            if idx is None: out[k]=x[k]; continue
            n,idx=replace_node(x[k],idx,fn,path+(k,)); out[k]=n
        return out,idx
    return x,idx
class SymLeaf:
    """placeholder for a symbolic node inserted into a python document"""
    def __init__(self,v): self.v=v
def to_value(x):
    if isinstance(x,SymLeaf): return x.v
    if isinstance(x,list): return jarr([to_value(y) for y in x])
    if isinstance(x,dict): return jobj(sorted([(k,to_value(v)) for k,v in x.items()],key=lambda kv: kv[0].encode()))
    return py_to_value(x)
DATE_KEYS=('expires','buildStartedOn','buildFinishedOn')
DATE_SAMPLES=['','x','2100-01-01','2100-13-01T00:00:00Z','2100-01-01T00:00:00','2100-01-01T00:00:00+25:00','2100-01-01T23:59:60Z','2100-01-01t00:00:00z','+10000-01-01T00:00:00Z','2100-01-01T00:00:00.123456789123Z','2100-01-01 00:00:00Z','2100-02-30T00:00:00Z','0000-01-01T00:00:00-23:59']
KEYWORDS=['MATCH','CREATE','IN','WITH','FROM','MATERIALS','PRODUCTS','']
class DecodeAdversarial(Obligation):
    """every single-node mutation of a valid document of every wire type, decoded on every channel: value or error, never a panic"""
    name='C14.decode_adversarial'
    hash_order='fixed'
    def __init__(self,what='rule',seed=0,known=(),rate=40,nbytes=2,prop='C14',**kw):
        self.what=what; self.seed=seed; self.rate=rate; self.nbytes=nbytes; self.prop=prop
        self.name=prop+('.decode_' if prop=='C14' else '.adversarial_')+what
        self.ty,self.mkdoc=ADV_DOCS[what]
        self.bounds={'type':self.ty,'base_document':'one valid document of the type with every optional member present (harness/C14.py ADV_DOCS)',
                     'mutations':'exactly one node (any node, incl. the root) replaced by: null, a free boolean, a free u64, a free negative i64, a float, a free ASCII string of 0..%d bytes, a non-ASCII sample, a keyword-like string (date members: %d concrete malformed / extreme RFC 3339 samples instead of free bytes), the original string with one byte / one 2-byte character freed at the start, middle or end, [], ["x"], {}, {"x":null}; for an object also: one member removed, one unknown member added; for an array also: one element removed, one string appended'%(nbytes,len(DATE_SAMPLES)),
                     'channels':CHANNELS,'obligation':'each channel returns Ok or Err (no panic)' if prop=='C14' else 'all channels agree on acceptance and, when accepting, on the decoded value'}
        self.witnesses=['accepted','rejected']; self.seen=set()
    def setup(self,eng,tier): self.eng=eng; self.b=B(eng)
    def entry(self,eng):
        def go(run,args):
            outs=[]
            for ch in CHANNELS:
                try: outs.append(('ok',md.de_type(eng,run,self.ty,clone_val(args[0]),ch)))
                except md.DeFail: outs.append(('err',None))
            return outs
        return go
    def mutate(self,run,node,path):
        kinds=['null','bool','u64','i64','float','str','nonascii','kw','arr0','arr1','obj0','obj1']
        if isinstance(node,str) and len(node)>=1: kinds+=['byte_first','byte_mid','byte_last','char2_first','char2_mid']
        if path and path[-1] in DATE_KEYS:
            # chrono's RFC 3339 parser is a dependency (modelled for concrete text only): concrete samples instead of free bytes
            kinds=[k for k in kinds if k!='str' and not k.startswith('byte_') and not k.startswith('char2_')]+['date_%d'%i for i in range(len(DATE_SAMPLES))]
        if isinstance(node,dict): kinds+=['del_%s'%k for k in sorted(node)]+['add_member']
        if isinstance(node,list): kinds+=['del_%d'%i for i in range(len(node))]+['append']
        k=kinds[run.pick(len(kinds),'mut')]
        self.mut=k
        if k=='null': return None
        if k=='bool': return SymLeaf(jbool(Bool(z3.Bool('mb'))))
        if k=='u64': return SymLeaf(jnum('PosInt',Int(64,False,z3.BitVec('mu',64))))
        if k=='i64':
            x=z3.BitVec('mi',64); run.add(x<0); return SymLeaf(jnum('NegInt',Int(64,True,x)))
        if k=='float': return SymLeaf(jnum('Float',Opaque('f64')))
        if k=='str':
            n=run.pick(self.nbytes+1,'mlen'); bs=[z3.BitVec('ms_%d'%i,8) for i in range(n)]
            for x in bs: run.add(z3.ULT(x,0x80))
            return SymLeaf(jstr(StringO(bs)))
        if k.startswith('date_'): return DATE_SAMPLES[int(k[5:])]
        if k=='nonascii': return 'é\U00010000'
        if k=='kw': return KEYWORDS[run.pick(len(KEYWORDS),'kw')]
        if k=='arr0': return []
        if k=='arr1': return ['x']
        if k=='obj0': return {}
        if k=='obj1': return {'x':None}
        if k.startswith('byte_') or k.startswith('char2_'):
            raw=list(node.encode()); w=2 if k.startswith('char2') else 1
            pos={'first':0,'mid':len(raw)//2,'last':len(raw)-1}[k.split('_')[1]]
            if k.startswith('char2'):
                # a free 2-byte character in place of one byte: the string grows by one byte, later offsets shift
                c0=z3.BitVec('mc0',8); c1=z3.BitVec('mc1',8); run.add(z3.UGE(c0,0xc2),z3.ULE(c0,0xdf),z3.UGE(c1,0x80),z3.ULE(c1,0xbf))
                return SymLeaf(jstr(StringO(raw[:pos]+[c0,c1]+raw[pos+1:])))
            c=z3.BitVec('mc',8); run.add(z3.ULT(c,0x80))
            return SymLeaf(jstr(StringO(raw[:pos]+[c]+raw[pos+1:])))
        if k.startswith('del_') and isinstance(node,dict):
            return {kk:vv for kk,vv in node.items() if kk!=k[4:]}
        if k.startswith('del_'):
            i=int(k[4:]); return node[:i]+node[i+1:]
        if k=='add_member': return dict(node,zz=1)
        if k=='append': return node+['x']
        raise Unsupported(k)
    def mk_args(self,run):
        doc=self.mkdoc()
        n=count_nodes(doc)
        idx=run.pick(n,'node')
        info={}
        def fn(node,path): info['path']=path; return self.mutate(run,node,path)
        new,_=replace_node(doc,idx,fn)
        v=to_value(new)
        return [v],{'v':v,'path':info.get('path'),'mut':self.mut}
    def check(self,run,out,g):
        rec={'outcome':'ok','viol':None,'wit':[],'sample':None,'obl':1}
        scn=lambda m: {'kind':'wire','type':self.ty,'value':json_py(g['v'],m)}
        if out[0]!='ret':
            r,m=run.check_sat(z3.BoolVal(True))
            rec['outcome']='panic'
            rec['viol']={'kind':'panic_decode_'+self.ty,'known_key':None,'scenario':scn(m),'predicted':'panic','what':'decoding a %s document panics (node %s, mutation %s): %s'%(self.ty,'/'.join(map(str,g['path'] or ())),g['mut'],str(out[1])[:200])}
            return rec
        kinds=[o[0] for o in out[1]]; rec['outcome']='/'.join(kinds)
        if self.prop=='C17':
            where='node %s, mutation %s'%('/'.join(map(str,g['path'] or ())),g['mut'])
            if len(set(kinds))>1:
                r,m=run.check_sat(z3.BoolVal(True))
                bad=[c for c,k in zip(CHANNELS,kinds) if k=='err']
                rec['viol']={'kind':'channel_dependent_decoding','known_key':None,'scenario':scn(m),'predicted':'/'.join(kinds),'what':'the same (malformed or unusual) %s document is accepted on some input channels and rejected on others (rejected on: %s; %s)'%(self.ty,','.join(bad),where)}; return rec
            if kinds[0]=='ok':
                from mirsym.models import val_eq, b_and
                eqs=b_and(*[val_eq(out[1][0][1],o[1]) for o in out[1][1:]])
                r,m=run.check_sat(z3.Not(eqs.z()))
                if r==z3.sat:
                    rec['viol']={'kind':'channel_dependent_value','confirm':{'values_equal':False},'known_key':None,'scenario':scn(m),'predicted':'/'.join(kinds),'what':'the same %s document decodes to different values on different input channels (%s)'%(self.ty,where)}; return rec
        w='accepted' if kinds[0]=='ok' else 'rejected'
        if w not in self.seen: self.seen.add(w); rec['wit'].append(w)
        if is_sample(run,self.seed,self.rate):
            r,m=run.check_sat(z3.BoolVal(True))
            if r==z3.sat: rec['sample']={'scenario':scn(m),'expect':'/'.join(kinds)}
        return rec

class ObjPairs:
    """an object whose members are given as an ordered list of (key bytes - possibly symbolic -, python/SymLeaf value)"""
    def __init__(self,pairs): self.pairs=pairs
def to_value_ordered(x):
    """python document -> serde_json::Value keeping the member order as written (dict insertion order / ObjPairs order)"""
    if isinstance(x,SymLeaf): return x.v
    if isinstance(x,list): return jarr([to_value_ordered(y) for y in x])
    if isinstance(x,dict): return jobj([(k,to_value_ordered(v)) for k,v in x.items()])
    if isinstance(x,ObjPairs): return jobj([(StringO(list(k)),to_value_ordered(v)) for k,v in x.pairs])
    return py_to_value(x)
def key_lt(a,b):
    """z3 term (or python bool): byte string a sorts before byte string b (serde_json::Map = BTreeMap<String,_> order)"""
    def tz(x): return z3.BitVecVal(x,8) if isinstance(x,int) else x
    n=min(len(a),len(b)); t=z3.BoolVal(len(a)<len(b))
    for i in reversed(range(n)):
        t=z3.If(z3.ULT(tz(a[i]),tz(b[i])),True,z3.If(tz(a[i])==tz(b[i]),t,False))
    return z3.simplify(t)
def sorted_tree(run,v):
    """what `serde_json::from_str::<Value>` makes of a text document: members of every object in key order"""
    v=deref(v)
    if v.vname=='Array': return jarr([sorted_tree(run,x) for x in deref(v.f[0]).items])
    if v.vname!='Object': return v
    out=[]
    for k,x in deref(v.f[0]).e:
        kb=list(deref(k).b); x=sorted_tree(run,x); pos=len(out)
        for i,(k2,_) in enumerate(out):
            t=key_lt(kb,list(deref(k2).b))
            lt=z3.is_true(t) if (z3.is_true(t) or z3.is_false(t)) else run.branch_bool(Bool(t),'member_order')
            if lt: pos=i; break
        out.insert(pos,(k,x))
    return jobj(out)
def variant_of(x):
    """a value of the same shape that differs from x in its first string leaf"""
    if isinstance(x,str): return (('b' if x[-1:]!='b' else 'c')*max(1,len(x)))
    if isinstance(x,list):
        for i,y in enumerate(x):
            v=variant_of(y)
            if v is not None: return x[:i]+[v]+x[i+1:]
        return None
    if isinstance(x,dict):
        for k in x:
            v=variant_of(x[k])
            if v is not None: return dict(x,**{k:v})
        return None
    return None
class MemberOrder(Obligation):
    """the order in which the members of an object are WRITTEN does not matter: a text document whose members come in any order
    decodes on the text channels (document order) exactly as its parsed tree (serde_json::Map: key order) does - also when two
    members have keys that differ in a single byte"""
    name='C17.member_order'
    hash_order='fixed'
    def __init__(self,what='link',seed=0,rate=20,known=(),**kw):
        self.what=what; self.seed=seed; self.rate=rate; self.name='C17.member_order_'+what
        self.ty,self.mkdoc=ADV_DOCS[what]
        self.bounds={'type':self.ty,'base_document':'one valid document of the type with every optional member present (harness/C14.py ADV_DOCS)',
                     'text orders':'one object of the document (every object in turn) has its members written reversed, rotated by one, or has one member replaced by TWO members whose keys are the original key with one byte (first / middle / last) freed to two different ASCII bytes and whose values differ; all other objects in key order',
                     'tree order':'members of every object in byte order of their keys (serde_json::Map without preserve_order), branching on the free bytes','channels':CHANNELS,
                     'outside':'texts with two members of the SAME key in one object (a tree cannot hold them); more than one reordered object per document'}
        self.witnesses=['accepted','rejected']; self.seen=set()
    def setup(self,eng,tier): self.eng=eng; self.b=B(eng)
    def entry(self,eng):
        def go(run,args):
            text,_=args; tree=sorted_tree(run,text); outs=[]
            for ch in CHANNELS:
                try: outs.append(('ok',md.de_type(eng,run,self.ty,clone_val(tree if ch=='tree' else text),ch)))
                except md.DeFail: outs.append(('err',None))
            return outs
        return go
    def mk_args(self,run):
        doc=self.mkdoc()
        objs=[]
        def walk(x,path):
            if isinstance(x,dict):
                if len(x)>=1: objs.append(path)
                for k in sorted(x): walk(x[k],path+(k,))
            elif isinstance(x,list):
                for i,y in enumerate(x): walk(y,path+(i,))
        walk(doc,())
        path=objs[run.pick(len(objs),'object')]
        node=doc
        for p in path: node=node[p]
        keys=sorted(node)
        kinds=(['reverse','rotate'] if len(keys)>=2 else [])+['twin_%d_%s'%(i,w) for i in range(len(keys)) for w in ('first','mid','last')]
        k=kinds[run.pick(len(kinds),'order')]
        if k=='reverse': new={kk:node[kk] for kk in reversed(keys)}
        elif k=='rotate': new={kk:node[kk] for kk in keys[1:]+keys[:1]}
        else:
            _,i,w=k.split('_'); kk=keys[int(i)]; raw=list(kk.encode())
            if not raw: raw=[0x61]
            pos={'first':0,'mid':len(raw)//2,'last':len(raw)-1}[w]
            c1=z3.BitVec('tk1',8); c2=z3.BitVec('tk2',8); run.add(z3.ULT(c1,0x80),z3.ULT(c2,0x80),c1!=c2)
            v2=variant_of(node[kk])
            pairs=[(list(x.encode()),node[x]) for x in keys if x!=kk]+[(raw[:pos]+[c1]+raw[pos+1:],node[kk]),(raw[:pos]+[c2]+raw[pos+1:],v2 if v2 is not None else node[kk])]
            new=ObjPairs(pairs)
        def put(x,path):
            if not path: return new
            if isinstance(x,dict): return {kk:(put(v,path[1:]) if kk==path[0] else v) for kk,v in sorted(x.items())}
            return [put(v,path[1:]) if i==path[0] else v for i,v in enumerate(x)]
        def sort_rest(x):
            if isinstance(x,dict) and x is not new: return {kk:sort_rest(x[kk]) for kk in sorted(x)}
            if isinstance(x,list): return [sort_rest(y) for y in x]
            return x
        v=to_value_ordered(put(sort_rest(doc),path))
        return [v,None],{'v':v,'path':path,'order':k}
    def check(self,run,out,g):
        rec={'outcome':'ok','viol':None,'wit':[],'sample':None,'obl':1}
        scn=lambda m: {'kind':'wire','type':self.ty,'value':json_py(g['v'],m),'text_order':True}
        where='object %s, members %s'%('/'.join(map(str,g['path'])) or '(root)',g['order'])
        if out[0]!='ret':
            r,m=run.check_sat(z3.BoolVal(True)); rec['outcome']='panic'
            rec['viol']={'kind':'panic_decode_'+self.ty,'known_key':None,'scenario':scn(m),'predicted':'panic','what':'decoding a %s document panics (%s): %s'%(self.ty,where,str(out[1])[:200])}; return rec
        kinds=[o[0] for o in out[1]]; rec['outcome']='/'.join(kinds)
        if len(set(kinds))>1:
            r,m=run.check_sat(z3.BoolVal(True)); bad=[c for c,kk in zip(CHANNELS,kinds) if kk=='err']
            rec['viol']={'kind':'channel_dependent_decoding','known_key':None,'scenario':scn(m),'predicted':'/'.join(kinds),'what':'the same %s document is accepted on some input channels and rejected on others (rejected on: %s; %s)'%(self.ty,','.join(bad),where)}; return rec
        if kinds[0]=='ok':
            from mirsym.models import val_eq, b_and
            eqs=b_and(*[val_eq(out[1][0][1],o[1]) for o in out[1][1:]])
            r,m=run.check_sat(z3.Not(eqs.z()))
            if r==z3.sat:
                rec['viol']={'kind':'channel_dependent_value','confirm':{'values_equal':False},'known_key':None,'scenario':scn(m),'predicted':'/'.join(kinds),'what':'the same %s document decodes to different values from its text (members in document order) and from its parsed tree (members in key order) (%s)'%(self.ty,where)}; return rec
        w='accepted' if kinds[0]=='ok' else 'rejected'
        if w not in self.seen: self.seen.add(w); rec['wit'].append(w)
        if is_sample(run,self.seed,self.rate):
            r,m=run.check_sat(z3.BoolVal(True))
            if r==z3.sat: rec['sample']={'scenario':scn(m),'expect':'/'.join(kinds)}
        return rec
