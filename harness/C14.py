"""C14 - untrusted bytes can make verification fail but never crash it (panic-freedom obligations)."""
import z3
from mirsym.values import *
from mirsym.runner import Obligation
from mirsym.build import B, model_value
from .common import outcome_of, is_sample, pool_keyid
from .pipeline import *
from . import C03 as c03

class KeyIdPrefix(PipelineBase):
    """link files whose signatures carry arbitrary (well-formed UTF-8, 64-byte) key ids: `match_signatures` / `KeyId::prefix`"""
    name='C14.keyid_prefix'
    def __init__(self,**kw):
        PipelineBase.__init__(self,**kw)
        self.bounds={'signature_key_id':'64 bytes: 6 fixed hex digits, 4 free bytes forming valid UTF-8 (so multi-byte characters straddle byte 8), 54 fixed hex digits','pipeline':'1 step, the link file is found by the directory scan and handed to match_signatures'}
        self.witnesses=['ascii_id_ok','nonascii_id_seen']
    def mk_args(self,run):
        F0,OWN=0,1
        free=[z3.BitVec('kid_%d'%i,8) for i in range(4)]
        kid=list(pool_keyid(F0)[:6].encode())+free+list(pool_keyid(F0)[10:].encode())
        from mirsym.models import utf8_valid
        okv,_=utf8_valid(run,kid)
        if not okv: raise Infeasible()
        fd=FileD('s0',F0,BlockD('link',LinkD('s0',{'a':[1]},{'b':[2]}),[SigD(F0,F0)]))
        dirs={():[fd]}
        lay=LayoutD([F0],[StepD('s0',1,[F0])])
        lb=BlockD('layout',lay,[SigD(OWN,OWN)]); caller=[(OWN,OWN)]
        args=self.install(run,lb,caller,dirs)
        # overwrite the key id of the link's signature with the free one
        blk=run.ghost['dirs'][self.link_dir][fd.fname()]
        sig=deref(self.b.get(blk,'signatures')).items[0]
        self.b.set(sig,'key_id',Agg('KeyId',[StringO(kid)]))
        return args,{'lb':lb,'caller':caller,'dirs':dirs,'kid':kid,'free':free}
    def check(self,run,out,g):
        oc=outcome_of(out); rec=self.new_rec(oc)
        def scn(m):
            sc=conc_scenario(m,g['lb'],g['caller'],g['dirs'],1700000000,repeat=1)
            sc['dirs'][0]['files'][0]['block']['sigs'][0]['label_raw']=[model_value(m,x) for x in g['kid']]
            return sc
        if oc=='panic':
            r,m=run.check_sat(z3.BoolVal(True))
            rec['viol']={'kind':'panic_keyid_prefix','known_key':None,'scenario':scn(m),'predicted':'panic','what':'in_toto_verify panics on a link file whose signature key id has a multi-byte character across byte 8: '+str(out[1])}; return rec
        self.wit(run,rec,'ascii_id_ok',z3.And(*[z3.ULT(x,0x80) for x in g['free']]))
        self.wit(run,rec,'nonascii_id_seen',z3.Or(*[z3.UGE(x,0x80) for x in g['free']]))
        if is_sample(run,self.seed,4):
            r,m=run.check_sat(z3.BoolVal(True))
            if r==z3.sat: rec['sample']={'scenario':scn(m),'expect':'ok' if oc=='ok' else 'err'}
        return rec

NN_SRC=['a/../b','./a','a//b','b','../x','a']
class RulesNonNormal(c03.Rules):
    """the rule engine on non-normalised artifact paths (./, ../, //): any verdict, but no panic"""
    def __init__(self,**kw):
        c03.Rules.__init__(self,**kw)
        self.name='C14.rules_non_normal_paths'
        self.bounds={'path_universe':NN_SRC,'artifacts':'1-2 paths of the universe, each material only / product only / both, free digest bytes','rule_list':'one of 7 basic rules (CREATE/DELETE/MODIFY/ALLOW/DISALLOW *, ALLOW ?, REQUIRE a) followed by DISALLOW * or REQUIRE a','obligation':'no panic (the verdict on non-normal paths is outside C03)'}
        self.witnesses=['returns']
    def mk_args(self,run):
        b=self.b
        side=['materials','products'][run.pick(2,'side')]
        NNR=[c03.BASIC[i] for i in (1,4,7,10,13,15,19)]
        rules=[NNR[run.pick(len(NNR),'rule')]]+c03.TAILS[run.pick(2,'tail')]
        mats={}; prods={}
        chosen=[NN_SRC[i] for i in range(len(NN_SRC)) if run.pick(2,'use_%d'%i)]
        if len(chosen)>2 or not chosen: raise Infeasible()
        for p in chosen:
            st=1+run.pick(3,'state_'+p)
            if st in (1,3): mats[p]=self.desc(z3.BitVec('m_'+p,8))
            if st in (2,3): prods[p]=self.desc(z3.BitVec('p_'+p,8))
        links={'it':{'materials':mats,'products':prods}}
        def mk_art(d):
            return [(b.vpath(p),b.hashmap([(b.variant('HashAlgorithm','Sha256'),Agg('HashValue',[u8vec(bs)])) for alg,bs in dd.items()])) for p,dd in sorted(d.items())]
        lm=b.hashmap([(mk_string(n),b.link(n,mk_art(l['materials']),mk_art(l['products']))) for n,l in links.items()])
        rl=[self.mk_rule(r) for r in rules]
        it=b.step('it',1,[],rl if side=='materials' else [],rl if side=='products' else [])
        return [Ref(Cell(Ref(Cell(it)))),Ref(Cell(lm))],{'side':side,'rules':rules,'links':links}
    def check(self,run,out,g):
        oc=outcome_of(out); rec={'outcome':oc,'viol':None,'wit':[],'sample':None,'obl':1}
        if oc=='panic':
            r,m=run.check_sat(z3.BoolVal(True))
            rec['viol']={'kind':'panic_rules_non_normal_path','known_key':None,'scenario':self.scn(g,m),'predicted':'panic','what':'apply_rules_on_link panics on non-normalised artifact paths: '+str(out[1])}; return rec
        if 'returns' not in self.seen: self.seen.add('returns'); rec['wit'].append('returns')
        if is_sample(run,self.seed,self.rate*3):
            r,m=run.check_sat(z3.BoolVal(True))
            if r==z3.sat: rec['sample']={'scenario':self.scn(g,m),'expect':'ok' if oc=='ok' else 'err'}
        return rec

class Importers(Obligation):
    """key importers on garbage: PublicKey::from_pem_spki and PrivateKey::from_pkcs8 with the parsing
    dependencies (pem::parse, ring key-pair constructors) stubbed by their contract "may return Err"."""
    name='C14.key_importers'
    def __init__(self,seed=0,known=(),**kw):
        self.seed=seed
        self.bounds={'pem::parse':'returns Err or a Pem with 0..2 free content bytes','ring constructors':'Ed25519KeyPair::from_pkcs8 and RsaKeyPair::from_pkcs8 fail (the input is not such a key); EcdsaKeyPair::from_pkcs8 fails or succeeds',
                     'inputs':'any text / any bytes (the stubs make the content irrelevant)'}
        self.witnesses=['err_returned']; self.seen=set()
    def setup(self,eng,tier):
        self.eng=eng; self.b=B(eng)
        def s_pem_parse(e,run,a,f):
            if run.pick(2,'pem_ok')==0: return err(Opaque('PemError'))
            n=run.pick(3,'pem_len'); return ok(Agg('Pem',[mk_string('PUBLIC KEY'),u8vec([z3.BitVec('pem_%d'%i,8) for i in range(n)])]))
        def s_fail(e,run,a,f): return err(Opaque('KeyRejected'))
        def s_maybe(e,run,a,f):
            if run.pick(2,'ecdsa_ok')==0: return err(Opaque('KeyRejected'))
            return ok(Opaque('EcdsaKeyPair'))
        eng.stub(r'^pem::parse$|^parse$',s_pem_parse,'pem::parse [may return Err]')
        eng.stub(r'Pem::contents$',lambda e,run,a,f: Ref(Cell(deref(a[0]).f[1])),'pem::Pem::contents')
        eng.stub(r'Ed25519KeyPair::from_pkcs8(_maybe_unchecked)?$',s_fail,'ring Ed25519KeyPair::from_pkcs8 [Err]')
        eng.stub(r'(RsaKeyPair|rsa::KeyPair|KeyPair)::from_pkcs8$',s_fail,'ring RsaKeyPair::from_pkcs8 [Err]')
        eng.stub(r'EcdsaKeyPair::from_pkcs8$',s_maybe,'ring EcdsaKeyPair::from_pkcs8 [may return Err]')
        eng.stub(r'EcdsaKeyPair( as ring::signature::KeyPair>)?::public_key$',lambda e,run,a,f: Ref(Cell(Opaque('EcdsaPub'))),'ring EcdsaKeyPair::public_key')
        eng.stub(r'^SystemRandom::new$',lambda e,run,a,f: Opaque('SystemRandom'),'ring SystemRandom::new')
        eng.stub(r'^<.*PublicKey as AsRef<\[u8\]>>::as_ref$',lambda e,run,a,f: Ref(Cell(Str([4]+[7]*64,False))),'ring PublicKey::as_ref [65 fixed bytes]')
        self.f_pem=eng.find_method(None,'PublicKey','from_pem_spki'); self.f_pk8=eng.find_method(None,'PrivateKey','from_pkcs8')
        def go(run,args):
            which=args[0]
            if which=='pem': return eng.call_fn(run,self.f_pem,[mk_str('whatever'),self.b.variant('SignatureScheme','Ed25519')])
            return eng.call_fn(run,self.f_pk8,[mk_str('garbage'),self.b.variant('SignatureScheme','EcdsaP256Sha256')])
        self.go=go
    def entry(self,eng): return self.go
    def mk_args(self,run):
        w=['pem','pkcs8'][run.pick(2,'which')]
        return [w],{'which':w}
    def check(self,run,out,g):
        oc=outcome_of(out); rec={'outcome':oc,'viol':None,'wit':[],'sample':None,'obl':1}
        if oc=='panic':
            scn={'kind':'importers','which':g['which']}
            rec['viol']={'kind':'panic_importer_'+g['which'],'known_key':None,'scenario':scn,'predicted':'panic','what':('PublicKey::from_pem_spki' if g['which']=='pem' else 'PrivateKey::from_pkcs8')+' panics on input that is not a key: '+str(out[1])}; return rec
        if oc.startswith('err') and 'err_returned' not in self.seen: self.seen.add('err_returned'); rec['wit'].append('err_returned')
        return rec
