"""C06 - an expired layout is never accepted (top level and every delegated sub-layout)."""
import z3
from .pipeline import *

NANO=1000000000
def sym_instant(run,b,name):
    s=z3.BitVec(name+'_secs',64); n=z3.BitVec(name+'_nanos',32)
    run.solver.add(z3.ULT(n,NANO))
    return b.datetime(Int(64,True,s),Int(32,False,n))
def instant_lt(a,b):
    s1,n1=a.f[0].z(),a.f[1].z(); s2,n2=b.f[0].z(),b.f[1].z()
    return z3.Or(s1<s2,z3.And(s1==s2,z3.ULT(n1,n2)))

class Expiry(PipelineBase):
    name='C06.expiry'
    def __init__(self,sub=False,**kw):
        PipelineBase.__init__(self,**kw); self.sub=sub
        self.bounds={'expiry_instant':'any (i64 seconds, u32 nanoseconds < 1e9), full bit-vectors','verification_instant':'any; the clock stub returns non-decreasing instants on successive calls',
                     'layout':'validly signed; '+('1 step delegated to a sub-layout with its own symbolic expiry' if sub else '0 steps')}
        self.witnesses=['ok_unexpired','err_expired','ok_equal_instant']+(['err_inner_expired'] if sub else [])
    def s_now(self,e,run,a,f):
        i=run.ghost['now_calls']; run.ghost['now_calls']+=1
        return copy_val(run.ghost['nows'][min(i,len(run.ghost['nows'])-1)])
    def mk_args(self,run):
        b=self.b; OWN=0; F=1
        exp=sym_instant(run,b,'expires'); now0=sym_instant(run,b,'now0'); now1=sym_instant(run,b,'now1')
        run.solver.add(z3.Not(instant_lt(now1,now0)))
        dirs={():[]}; steps=[]; keys=[]; inner_exp=None
        if self.sub:
            inner_exp=sym_instant(run,b,'inner_expires')
            inner=LayoutD([],[],expires=inner_exp)
            steps=[StepD('s0',1,[F])]; keys=[F]
            dirs[()].append(FileD('s0',F,BlockD('layout',inner,[SigD(F,F)])))
            dirs[(('s0',F),)]=[]
        ld=LayoutD(keys,steps,expires=exp)
        lb=BlockD('layout',ld,[SigD(OWN,OWN)]); caller=[(OWN,OWN)]
        args=self.install(run,lb,caller,dirs)
        run.ghost['nows']=[now0,now1]; run.ghost['now_calls']=0
        return args,{'lb':lb,'caller':caller,'dirs':dirs,'exp':exp,'now0':now0,'now1':now1,'inner_exp':inner_exp}
    def check(self,run,out,g):
        oc=outcome_of(out); rec=self.new_rec(oc)
        def mk(m):
            sc=conc_scenario(m,g['lb'],g['caller'],g['dirs'],g['now0'].f[0])
            return sc
        if oc=='panic':
            r,m=run.check_sat(z3.BoolVal(True))
            rec['viol']={'kind':'panic','known_key':None,'scenario':mk(m),'predicted':'panic','what':'in_toto_verify panics: '+str(out[1])}
            return rec
        unexp=z3.Not(instant_lt(g['exp'],g['now0']))
        if self.sub: unexp=z3.And(unexp,z3.Not(instant_lt(g['inner_exp'],g['now1'])))
        if oc=='ok':
            if self.classify(run,rec,z3.Not(unexp),{},mk,'ok','verification succeeds although the (sub-)layout expiry instant is earlier than the verification instant','expired_layout_accepted'): return rec
            self.wit(run,rec,'ok_unexpired',instant_lt(g['now0'],g['exp']))
            self.wit(run,rec,'ok_equal_instant',z3.And(g['exp'].f[0].z()==g['now0'].f[0].z(),g['exp'].f[1].z()==g['now0'].f[1].z()))
        elif oc.startswith('err'):
            # in this scenario everything else is valid, so an error must be explained by expiry (no spurious rejection)
            if self.classify(run,rec,unexp,{},mk,'err','verification fails although nothing is wrong and the layout is unexpired','unexpired_layout_rejected'): return rec
            self.wit(run,rec,'err_expired',instant_lt(g['exp'],g['now0']))
            if self.sub: self.wit(run,rec,'err_inner_expired',z3.And(z3.Not(instant_lt(g['exp'],g['now0'])),instant_lt(g['inner_exp'],g['now1'])))
        if True:
            r,m=run.check_sat(z3.And(z3.Or(g['exp'].f[0].z()-g['now0'].f[0].z()>100,g['now0'].f[0].z()-g['exp'].f[0].z()>100),g['now0'].f[0].z()>0,g['now0'].f[0].z()<4000000000,g['exp'].f[0].z()>0,g['exp'].f[0].z()<4000000000,
                    *( [z3.Or(g['inner_exp'].f[0].z()-g['now1'].f[0].z()>100,g['now1'].f[0].z()-g['inner_exp'].f[0].z()>100),g['inner_exp'].f[0].z()>0,g['inner_exp'].f[0].z()<4000000000,g['now1'].f[0].z()-g['now0'].f[0].z()<5] if self.sub else [])))
            if r==z3.sat: rec['sample']={'scenario':mk(m),'expect':'ok' if oc=='ok' else 'err'}
        return rec
