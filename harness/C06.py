"""C06 - an expired layout is never accepted (top level and every delegated sub-layout)."""
import z3
from .pipeline import *

NANO=1000000000
def sym_instant(run,b,name):
    s=z3.BitVec(name+'_secs',64); n=z3.BitVec(name+'_nanos',32)
    run.add(z3.ULT(n,NANO))
    return b.datetime(Int(64,True,s),Int(32,False,n))
def instant_lt(a,b):
    s1,n1=a.f[0].z(),a.f[1].z(); s2,n2=b.f[0].z(),b.f[1].z()
    return z3.Or(s1<s2,z3.And(s1==s2,z3.ULT(n1,n2)))

class Expiry(PipelineBase):
    name='C06.expiry'
    def __init__(self,sub=False,**kw):
        PipelineBase.__init__(self,**kw); self.sub=sub
        self.bounds={'expiry_instant':'any (i64 seconds, u32 nanoseconds < 1e9), full bit-vectors','verification_instant':'any; the clock stub returns non-decreasing instants on successive calls',
                     'layout':'validly signed; '+('1 step delegated to a sub-layout with its own symbolic expiry' if sub else '0 steps')}
        self.witnesses=['ok_unexpired','err_expired','ok_equal_instant']+(['err_inner_expired'] if sub else [])
    def s_now(self,e,run,a,f):
        i=run.ghost['now_calls']; run.ghost['now_calls']+=1
        return copy_val(run.ghost['nows'][min(i,len(run.ghost['nows'])-1)])
    def mk_args(self,run):
        b=self.b; OWN=0; F=1
        exp=sym_instant(run,b,'expires'); now0=sym_instant(run,b,'now0'); now1=sym_instant(run,b,'now1')
        run.add(z3.Not(instant_lt(now1,now0)))
        dirs={():[]}; steps=[]; keys=[]; inner_exp=None
        if self.sub:
            inner_exp=sym_instant(run,b,'inner_expires')
            inner=LayoutD([],[],expires=inner_exp)
            steps=[StepD('s0',1,[F])]; keys=[F]
            dirs[()].append(FileD('s0',F,BlockD('layout',inner,[SigD(F,F)])))
            dirs[(('s0',F),)]=[]
        ld=LayoutD(keys,steps,expires=exp)
        lb=BlockD('layout',ld,[SigD(OWN,OWN)]); caller=[(OWN,OWN)]
        args=self.install(run,lb,caller,dirs)
        run.ghost['nows']=[now0,now1]; run.ghost['now_calls']=0
        return args,{'lb':lb,'caller':caller,'dirs':dirs,'exp':exp,'now0':now0,'now1':now1,'inner_exp':inner_exp}
    def check(self,run,out,g):
        oc=outcome_of(out); rec=self.new_rec(oc)
        def mk(m):
            sc=conc_scenario(m,g['lb'],g['caller'],g['dirs'],g['now0'].f[0])
            return sc
        if oc=='panic':
            r,m=run.check_sat(z3.BoolVal(True))
            rec['viol']={'kind':'panic','known_key':None,'scenario':mk(m),'predicted':'panic','what':'in_toto_verify panics: '+str(out[1])}
            return rec
        unexp=z3.Not(instant_lt(g['exp'],g['now0']))
        if self.sub: unexp=z3.And(unexp,z3.Not(instant_lt(g['inner_exp'],g['now1'])))
        if oc=='ok':
            if self.classify(run,rec,z3.Not(unexp),{},mk,'ok','verification succeeds although the (sub-)layout expiry instant is earlier than the verification instant','expired_layout_accepted'): return rec
            self.wit(run,rec,'ok_unexpired',instant_lt(g['now0'],g['exp']))
            self.wit(run,rec,'ok_equal_instant',z3.And(g['exp'].f[0].z()==g['now0'].f[0].z(),g['exp'].f[1].z()==g['now0'].f[1].z()))
        elif oc.startswith('err'):
            # in this scenario everything else is valid, so an error must be explained by expiry (no spurious rejection)
            if self.classify(run,rec,unexp,{},mk,'err','verification fails although nothing is wrong and the layout is unexpired','unexpired_layout_rejected'): return rec
            self.wit(run,rec,'err_expired',instant_lt(g['exp'],g['now0']))
            if self.sub: self.wit(run,rec,'err_inner_expired',z3.And(z3.Not(instant_lt(g['exp'],g['now0'])),instant_lt(g['inner_exp'],g['now1'])))
        if True:
            r,m=run.check_sat(z3.And(z3.Or(g['exp'].f[0].z()-g['now0'].f[0].z()>100,g['now0'].f[0].z()-g['exp'].f[0].z()>100),g['now0'].f[0].z()>0,g['now0'].f[0].z()<4000000000,g['exp'].f[0].z()>0,g['exp'].f[0].z()<4000000000,
                    *( [z3.Or(g['inner_exp'].f[0].z()-g['now1'].f[0].z()>100,g['now1'].f[0].z()-g['inner_exp'].f[0].z()>100),g['inner_exp'].f[0].z()>0,g['inner_exp'].f[0].z()<4000000000,g['now1'].f[0].z()-g['now0'].f[0].z()<5] if self.sub else [])))
            if r==z3.sat: rec['sample']={'scenario':mk(m),'expect':'ok' if oc=='ok' else 'err'}
        return rec

class ExpirySecondCall(Expiry):
    """two verifications in one process (one run): an unrelated, unexpired layout at instant now0, then layout B at a later
    instant now1.  The verdict on B may depend on B and now1 only - nothing remembered from the first call may let an
    expired B through (statics persist across the two calls of a run)."""
    name='C06.expiry_second_call'
    def __init__(self,**kw):
        Expiry.__init__(self,**kw); self.name='C06.expiry_second_call'
        self.bounds={'sequence':'in_toto_verify(A) at now0, then in_toto_verify(B) at now1 >= now0, same process (statics shared)','layout A':'0 steps, validly signed, expiry free','layout B':'0 steps, validly signed, expiry free',
                     'instants':'free 64+32-bit vectors'}
        self.witnesses=['second_ok_unexpired','second_err_expired']
    def entry(self,eng):
        body=self.entry_body
        def go(run,args):
            a1,a2=args
            r1=eng.call_fn(run,body,a1)
            run.ghost['now_calls']=1            # the clock has moved on: the next reading is now1
            r2=eng.call_fn(run,body,a2)
            return r2
        return go
    def mk_args(self,run):
        b=self.b; OWN=0
        expA=sym_instant(run,b,'expiresA'); expB=sym_instant(run,b,'expiresB'); now0=sym_instant(run,b,'now0'); now1=sym_instant(run,b,'now1')
        run.add(z3.Not(instant_lt(now1,now0)))
        lbA=BlockD('layout',LayoutD([],[],expires=expA,readme='A'),[SigD(OWN,OWN)]); lbB=BlockD('layout',LayoutD([],[],expires=expB,readme='B'),[SigD(OWN,OWN)])
        caller=[(OWN,OWN)]
        a1=self.install(run,lbA,caller,{():[]}); a2=self.install(run,lbB,caller,{():[]})
        run.ghost['nows']=[now0,now1]; run.ghost['now_calls']=0
        return [a1,a2],{'lbA':lbA,'lbB':lbB,'caller':caller,'expA':expA,'expB':expB,'now0':now0,'now1':now1}
    def check(self,run,out,g):
        oc=outcome_of(out); rec=self.new_rec(oc)
        def mk(m):
            first=conc_scenario(m,g['lbA'],g['caller'],{():[]},g['now0'].f[0],repeat=1); second=conc_scenario(m,g['lbB'],g['caller'],{():[]},g['now1'].f[0],repeat=1)
            val=lambda inst: (lambda x: x-(1<<64) if x>>63 else x)(model_value(m,inst.f[0].z()))*1000000000+model_value(m,inst.f[1].z())
            n0,n1,ea,eb=val(g['now0']),val(g['now1']),val(g['expA']),val(g['expB'])
            # real time: the first call happens at once; the second after `sleep_ms`; expiries are placed relative to the real clock in the same order
            first['layout']['layout']['expires_in_ms']=400000 if ea>=n0 else -400000
            between=(eb>=n0 and eb<n1)
            second['layout']['layout']['expires_in_ms']=1500 if between else (400000 if eb>=n1 else -400000)
            return {'kind':'verify_sequence','first':first,'second':second,'sleep_ms':2500 if between else 0}
        if oc=='panic':
            r,m=run.check_sat(z3.BoolVal(True))
            rec['viol']={'kind':'panic','known_key':None,'scenario':mk(m),'predicted':'panic','what':'in_toto_verify panics: '+str(out[1])}; return rec
        unexp=z3.Not(instant_lt(g['expB'],g['now1']))
        # replayable natively: the second layout expires between the two instants (shortly after the first call)
        between=z3.And(z3.Not(instant_lt(g['expB'],g['now0'])),instant_lt(g['expB'],g['now1']),z3.Not(instant_lt(g['expA'],g['now1'])))
        if oc=='ok':
            rec['obl']+=1
            r,m=run.check_sat(z3.And(z3.Not(unexp),between))
            if r!=z3.sat: r,m=run.check_sat(z3.Not(unexp))
            if r==z3.sat:
                rec['viol']={'kind':'expired_layout_accepted_on_a_later_call','known_key':None,'scenario':mk(m),'predicted':'ok','what':'a layout that is expired at the moment of its verification is accepted when another verification ran earlier in the same process'}; return rec
            self.wit(run,rec,'second_ok_unexpired')
        elif oc.startswith('err'):
            if self.classify(run,rec,unexp,{},mk,'err','the second verification fails although nothing is wrong and the layout is unexpired','unexpired_layout_rejected_on_a_later_call'): return rec
            self.wit(run,rec,'second_err_expired',between)
        r,m=run.check_sat(between if oc!='ok' else z3.And(unexp,g['expB'].f[0].z()-g['now1'].f[0].z()>100,g['expA'].f[0].z()-g['now1'].f[0].z()>100))
        if r==z3.sat: rec['sample']={'scenario':mk(m),'expect':'ok' if oc=='ok' else 'err'}
        return rec

class ParseInstant(Obligation):
    """`layout::parse_datetime` (private; addressed by name in the MIR): the instant read from an RFC 3339 text
    equals wall-clock fields minus UTC offset, for every offset notation; and parse(format(t)) = t to the second."""
    name='C06.parse_datetime'
    def __init__(self,seed=0,known=(),**kw):
        self.seed=seed
        self.bounds={'wall_clock_fields':'any i64 second count within chrono\'s range (|secs| < 2^40 assumed)','utc_offset':'any whole-minute offset in (-24h,+24h) (RFC 3339 offsets are hh:mm)','fraction':'any nanoseconds < 1e9',
                     'text':'carried as a ghost string: chrono\'s text parser itself is a dependency model validated natively on boundary samples'}
        self.witnesses=['parse_positive_offset','parse_negative_offset','roundtrip']
        self.seen=set()
    def setup(self,eng,tier):
        self.eng=eng; self.b=B(eng)
        self.parse=eng.find_fn('parse_datetime'); self.fmt=eng.find_fn('format_datetime')
        def both(run,args):
            mode=args[0]
            if mode=='parse': return eng.call_fn(run,self.parse,[args[1]])
            s=eng.call_fn(run,self.fmt,[Ref(Cell(args[1]))])
            return eng.call_fn(run,self.parse,[Ref(Cell(Str(s.b,True,s.taint,s.ghost)))])
        self.both=both
    def entry(self,eng): return self.both
    def mk_args(self,run):
        mode=['parse','roundtrip'][run.pick(2,'mode')]
        if mode=='parse':
            loc=z3.BitVec('local_secs',64); off=z3.BitVec('offset',32); nan=z3.BitVec('nanos',32)
            run.add(off>-86400,off<86400,z3.SRem(off,60)==0,z3.ULT(nan,1000000000),loc>-(1<<40),loc<(1<<40))
            s=Ref(Cell(Str(list(b'<rfc3339>'),True,True,{'kind':'rfc3339','local_secs':loc,'nanos':nan,'offset':off})))
            return ['parse',s],{'mode':mode,'loc':loc,'off':off,'nan':nan}
        t=z3.BitVec('t_secs',64); n=z3.BitVec('t_nanos',32); run.add(z3.ULT(n,1000000000),t>-(1<<40),t<(1<<40))
        return ['roundtrip',self.b.datetime(Int(64,True,t),Int(32,False,n))],{'mode':mode,'t':t,'n':n}
    def check(self,run,out,g):
        oc=outcome_of(out); rec={'outcome':oc,'viol':None,'wit':[],'sample':None,'obl':1}
        def wit(name,cond):
            if name in self.seen: return
            r,m=run.check_sat(cond)
            if r==z3.sat: self.seen.add(name); rec['wit'].append(name)
        if oc!='ok':
            r,m=run.check_sat(z3.BoolVal(True))
            rec['viol']={'kind':'parse_failed','known_key':None,'scenario':self.scn(g,m),'predicted':oc,'what':'parse_datetime fails on a well-formed RFC 3339 text'}; return rec
        dt=deref(out[1]).f[0]
        if g['mode']=='parse':
            want=g['loc']-z3.SignExt(32,g['off'])
            r,m=run.check_sat(z3.Or(dt.f[0].z()!=want,dt.f[1].z()!=g['nan']))
            if r==z3.sat:
                rec['viol']={'kind':'wrong_instant','known_key':None,'scenario':self.scn(g,m),'predicted':'instant:%d'%s64(model_value(m,dt.f[0].z())),'what':'the expiry instant read from an RFC 3339 text with a UTC offset is not wall-clock minus offset'}; return rec
            wit('parse_positive_offset',g['off']>0); wit('parse_negative_offset',g['off']<0)
        else:
            r,m=run.check_sat(z3.Or(dt.f[0].z()!=g['t'],dt.f[1].z()!=0))
            if r==z3.sat:
                rec['viol']={'kind':'roundtrip_changes_instant','known_key':None,'scenario':self.scn(g,m),'predicted':'instant:%d'%s64(model_value(m,dt.f[0].z())),'what':'parse(format(t)) differs from t truncated to whole seconds'}; return rec
            wit('roundtrip',z3.BoolVal(True))
        r,m=run.check_sat(z3.And(g['loc']>0,g['loc']<4000000000) if g['mode']=='parse' else z3.And(g['t']>0,g['t']<4000000000))
        if r==z3.sat: rec['sample']={'scenario':self.scn(g,m),'expect':'instant:%d'%s64(model_value(m,dt.f[0].z()))}
        return rec
    def scn(self,g,m):
        if g['mode']=='parse':
            return {'kind':'parse_datetime','mode':'parse','local_secs':s64(model_value(m,g['loc'])),'offset':s32(model_value(m,g['off'])),'nanos':model_value(m,g['nan'])}
        return {'kind':'parse_datetime','mode':'roundtrip','secs':s64(model_value(m,g['t'])),'nanos':model_value(m,g['n'])}
def s64(x): return x-(1<<64) if x>>63 else x
def s32(x): return x-(1<<32) if x>>31 else x
from mirsym.runner import Obligation

class ExpiryThroughConstructors(Expiry):
    """the layout that is verified was not put together by the harness but by the crate's own construction paths, from MIR:
    `LayoutMetadata::new`, `LayoutMetadataBuilder`, or the decoder on a document whose `expires` text carries a free offset and
    free fractional seconds.  The expiry that counts is the instant the CALLER / the DOCUMENT states."""
    name='C06.expiry_through_constructors'
    def __init__(self,**kw):
        Expiry.__init__(self,**kw); self.name='C06.expiry_through_constructors'
        self.bounds={'construction':'LayoutMetadata::new(expires, ..) / LayoutMetadataBuilder::new().expires(e).readme(..).build() / decoder (tree channel) on the document of the layout with `expires` = an RFC 3339 text (ghost string) with free wall-clock seconds, free nanoseconds < 1e9 and a free whole-minute offset',
                     'expiry_instant':'any (i64 seconds within chrono range for the decoder path, u32 nanoseconds < 1e9)','verification_instant':'any','layout':'validly signed, 0 steps'}
        self.witnesses=['ok_unexpired','err_expired']
    def setup(self,eng,tier):
        Expiry.setup(self,eng,tier)
        self.f_new=eng.find_method(None,'LayoutMetadata','new')
        self.fb_new=eng.find_method(None,'LayoutMetadataBuilder','new'); self.fb_exp=eng.find_method(None,'LayoutMetadataBuilder','expires'); self.fb_build=eng.find_method(None,'LayoutMetadataBuilder','build')
    def entry(self,eng):
        body=self.entry_body; b=self.b
        def go(run,args):
            from mirsym import models_de as md, models_serde as ms
            from mirsym.models_json import jstr
            mbr=args[0]; mb=deref(mbr); lay=deref(b.get(mb,'metadata')).f[0]
            via=run.ghost['via']; exp=run.ghost['doc_exp']
            if via=='new':
                new=eng.call_fn(run,self.f_new,[copy_val(exp),b.get(lay,'readme'),b.get(lay,'keys'),b.get(lay,'steps'),b.get(lay,'inspect')])
            elif via=='builder':
                x=eng.call_fn(run,self.fb_new,[]); x=eng.call_fn(run,self.fb_exp,[x,copy_val(exp)])
                r=eng.call_fn(run,self.fb_build,[x]); new=deref(r).f[0]
                run.ghost['now_calls']=0          # the builder read the clock for its default expiry; the verification reads it afresh
            else:
                tree=ms.ser_value(eng,run,lay)
                off=run.ghost['doc_off']
                loc=exp.f[0].z()+z3.SignExt(32,off)
                txt=StringO(list(b'<rfc3339>'),True,{'kind':'rfc3339','local_secs':loc,'nanos':exp.f[1].z(),'offset':off})
                ents=deref(tree.f[0]).e
                for ent in ents:
                    if bytes(deref(ent[0]).b)==b'expires': ent[1]=jstr(txt)
                try: new=md.de_type(eng,run,'LayoutMetadata',tree,'tree')
                except md.DeFail as d: raise Unsupported('the decoder rejects the layout document: '+str(getattr(d,'msg',d))[:80])
            mb2=b.metablock(b.wrap_layout(new),deref(b.get(mb,'signatures')).items)
            return eng.call_fn(run,body,[Ref(Cell(mb2))]+list(args[1:]))
        return go
    def mk_args(self,run):
        b=self.b; OWN=0
        via=['new','builder','parser'][run.pick(3,'via')]
        exp=sym_instant(run,b,'expires'); now0=sym_instant(run,b,'now0'); now1=sym_instant(run,b,'now1')
        run.add(z3.Not(instant_lt(now1,now0)))
        off=z3.BitVecVal(0,32)
        if via=='parser':
            om=z3.BitVec('off_min',32); run.add(om>-1440,om<1440); off=om*60
            run.add(exp.f[0].z()>-(1<<40),exp.f[0].z()<(1<<40))
        if via=='builder': run.add(now0.f[0].z()>-(1<<40),now0.f[0].z()<(1<<40))      # LayoutMetadataBuilder::new() adds 365 days to the clock reading
        ld=LayoutD([],[],expires=exp)
        lb=BlockD('layout',ld,[SigD(OWN,OWN)]); caller=[(OWN,OWN)]
        args=self.install(run,lb,caller,{():[]})
        run.ghost['nows']=[now0,now1]; run.ghost['now_calls']=0; run.ghost['via']=via; run.ghost['doc_exp']=exp; run.ghost['doc_off']=off
        return args,{'lb':lb,'caller':caller,'dirs':{():[]},'exp':exp,'now0':now0,'now1':now1,'inner_exp':None,'via':via}
    def check(self,run,out,g):
        oc=outcome_of(out); rec=self.new_rec(oc); rec['obl']=1
        exp,now=g['exp'],g['now0']
        es,en,ns,nn=exp.f[0].z(),exp.f[1].z(),now.f[0].z(),now.f[1].z()
        def mk(m):
            mv=lambda t: model_value(m,t)
            sg=lambda x: x-(1<<64) if x>>63 else x
            E,N=sg(mv(es)),sg(mv(ns))
            sc={'kind':'expiry_via','via':g['via']}
            if E==N: sc['same_second']={'exp_ms':mv(en)//1000000,'now_ms':mv(nn)//1000000}
            else: sc['expires_in_ms']=max(-400000000,min(400000000,(E-N)*1000))
            return sc
        if oc=='panic':
            r,m=run.check_sat(z3.BoolVal(True)); rec['viol']={'kind':'panic','known_key':None,'scenario':mk(m),'predicted':'panic','what':'construction or verification panics: '+str(out[1])[:200]}; return rec
        expired=instant_lt(exp,now)
        # counterexamples the real clock can reproduce come first: a clear distance in seconds, or both instants inside one second
        # with >= 150 ms between them (whole milliseconds)
        clear=z3.Or(es+100<ns,ns+100<es)
        ms=lambda t: z3.URem(t,1000000)==0
        inside=z3.And(es==ns,ms(en),ms(nn),z3.ULE(nn,800000000),z3.Or(z3.UGE(nn-en,150000000),z3.UGE(en-nn,150000000)))
        def find(cond):
            for pref in (clear,inside,z3.BoolVal(True)):
                r,m=run.check_sat(z3.And(cond,pref,es>0,es<4000000000,ns>0,ns<4000000000))
                if r==z3.sat: return m
            r,m=run.check_sat(cond)
            return m if r==z3.sat else None
        if oc=='ok':
            m=find(expired)
            if m is not None:
                rec['viol']={'kind':'expired_layout_accepted','known_key':None,'scenario':mk(m),'predicted':'ok','what':'a layout built through %s is accepted although the expiry instant the caller / the document states is earlier than the moment of verification'%g['via']}; return rec
            self.wit(run,rec,'ok_unexpired')
        else:
            m=find(z3.Not(expired))
            if m is not None:
                rec['viol']={'kind':'unexpired_layout_rejected','known_key':None,'scenario':mk(m),'predicted':{'not':'ok'},'what':'a layout built through %s is rejected although nothing is wrong and it is unexpired'%g['via']}; return rec
            self.wit(run,rec,'err_expired')
        for pref in (inside,clear):
            r,m=run.check_sat(z3.And(pref,es>0,es<4000000000,ns>0,ns<4000000000))
            if r==z3.sat: rec['sample']={'scenario':mk(m),'expect':'ok' if oc=='ok' else 'err'}; break
        return rec
