"""Shared pieces of the harnesses: the ideal-signature oracle (DESIGN.md §3.5), key pool, records."""
import z3, hashlib
from mirsym.values import *
from mirsym.build import B, concretize, model_value
from mirsym.models import bytes_eq, b_and, val_eq

HEX='0123456789abcdef'
def pool_keyid(i):
    """distinct, well-formed 64-hex key ids for pool key i (concrete)"""
    return hashlib.sha256(b'pool-key-%d'%i).hexdigest()
UNKNOWN_KEYID=hashlib.sha256(b'unknown-key').hexdigest()

def outcome_of(out):
    kind,ret=out
    if kind=='panic': return 'panic'
    if kind=='abort': return 'abort:'+ret.tag
    r=deref(ret)
    if isinstance(r,Agg) and r.ty=='Result':
        if r.vname=='Ok': return 'ok'
        e=deref(r.f[0])
        return 'err:'+(e.vname if isinstance(e,Agg) and e.vname else type(e).__name__)
    return 'ret'

class SigOracle:
    """EUF-CMA idealisation of `PublicKey::verify(key,msg,sig)`:
    Ok  <=>  the signature is intact, was made by this key's material under this key's scheme,
             over exactly these message bytes.
    Signatures are identified by the (concrete) first byte of their value; the ghost record of
    each signature lives in run.ghost['sigs'][tag]:
       made_by : z3 term (BV8) - material id of the key that produced it
       scheme  : z3 term (BV8) or None
       intact  : z3 Bool
       over    : z3 Bool ("made over the bytes now being verified")  or
       over_bytes : list of byte terms that were signed (compared with msg byte-wise)
    Keys carry their material id in value[0] and their scheme as the enum variant index."""
    def __init__(self,eng):
        self.eng=eng; self.b=B(eng)
        eng.stub(r'(^|::)PublicKey::verify$',self.verify,'crypto::PublicKey::verify [ideal-signature oracle]')
    def valid_term(self,run,key,sig,msg=None):
        key=deref(key); sig=deref(sig)
        tag=deref(deref(self.b.get(sig,'value')).f[0]).items[0]
        if not tag.conc(): raise Unsupported('symbolic signature tag')
        g=run.ghost['sigs'][tag.v]
        mat=deref(deref(self.b.get(key,'value')).f[0]).items[0]
        conds=[g['intact'], g['made_by']==mat.z()]
        if g.get('scheme') is not None:
            sch=deref(self.b.get(key,'scheme'))
            conds.append(g['scheme']==sch.variant)
        if 'over_bytes' in g and msg is not None:
            conds.append(bytes_eq(g['over_bytes'],byte_list(msg)).z())
        else:
            conds.append(g['over'])
        return z3.And(*conds)
    def verify(self,e,run,a,f):
        c=Bool(self.valid_term(run,a[0],a[2],a[1]))
        run.log.append(('verify',deref(a[0]),deref(a[2])))
        if run.branch_bool(c,'sigvalid'): return ok(UNIT)
        return err(self.b.variant('Error','BadSignature'))

def is_sample(run,seed,rate):
    h=hashlib.sha256(('%d|'%seed+','.join(map(str,run.dec))).encode()).digest()
    return int.from_bytes(h[:4],'big')%rate==0
