"""Shared pieces of the harnesses: the ideal-signature oracle (DESIGN.md §3.5), key pool, records."""
import z3, hashlib
from mirsym.values import *
from mirsym.build import B, concretize, model_value
from mirsym.models import bytes_eq, b_and, val_eq

HEX='0123456789abcdef'
def pool_keyid(i):
    """distinct, well-formed 64-hex key ids for pool key i (concrete)"""
    return hashlib.sha256(b'pool-key-%d'%i).hexdigest()
UNKNOWN_KEYID=hashlib.sha256(b'unknown-key').hexdigest()

def outcome_of(out):
    kind,ret=out
    if kind=='panic': return 'panic'
    if kind=='abort': return 'abort:'+ret.tag
    r=deref(ret)
    if isinstance(r,Agg) and r.ty=='Result':
        if r.vname=='Ok': return 'ok'
        e=deref(r.f[0])
        return 'err:'+(e.vname if isinstance(e,Agg) and e.vname else type(e).__name__)
    return 'ret'

class SigOracle:
    """EUF-CMA idealisation of `PublicKey::verify(key,msg,sig)`:
    Ok  <=>  the signature is intact, was made by this key's material under this key's scheme,
             over exactly these message bytes.
    Signatures are identified by the (concrete) first byte of their value; the ghost record of
    each signature lives in run.ghost['sigs'][tag]:
       made_by : z3 term (BV8) - material id of the key that produced it
       scheme  : z3 term (BV8) or None
       intact  : z3 Bool
       over    : z3 Bool ("made over the bytes now being verified")  or
       over_bytes : list of byte terms that were signed (compared with msg byte-wise)
    Keys carry their material id in value[0] and their scheme as the enum variant index."""
    RING_ALG={'ED25519':'Ed25519','RSA_PSS_2048_8192_SHA256':'RsaSsaPssSha256','RSA_PSS_2048_8192_SHA512':'RsaSsaPssSha512','ECDSA_P256_SHA256_ASN1':'EcdsaP256Sha256'}
    def __init__(self,eng,ring_level=True):
        self.eng=eng; self.b=B(eng)
        if not ring_level:
            eng.stub(r'(^|::)PublicKey::verify$',self.verify,'crypto::PublicKey::verify [ideal-signature oracle]')
            return
        # the oracle sits at the boundary of the cryptographic library: `PublicKey::verify` itself (scheme dispatch, error mapping and
        # whatever else it does) runs from MIR; only ring's `UnparsedPublicKey::{new,verify}` is idealised
        eng.stub(r'^(ring::signature::)?UnparsedPublicKey::new$',self.ring_new,'ring::signature::UnparsedPublicKey::new [records algorithm and key bytes]')
        eng.stub(r'^(ring::signature::)?UnparsedPublicKey::verify$',self.ring_verify,'ring::signature::UnparsedPublicKey::verify [ideal-signature oracle]')
    def ring_new(self,e,run,a,f):
        alg=deref(a[0])
        name=alg.kind.split(':',1)[1] if isinstance(alg,Opaque) and alg.kind.startswith('static:') else None
        if name not in self.RING_ALG: raise Unsupported('ring verification algorithm '+repr(alg)[:60])
        return Opaque('RingKey',{'alg':name,'bytes':list(byte_list(a[1]))})
    def ring_verify(self,e,run,a,f):
        key=deref(a[0]); msg=a[1]; sigb=byte_list(a[2])
        if not sigb or not isinstance(sigb[0],int): raise Unsupported('symbolic signature tag')
        g=run.ghost['sigs'][sigb[0]]
        mat=key.p['bytes'][0]
        conds=[g['intact'], g['made_by']==(mat if not isinstance(mat,int) else z3.BitVecVal(mat,8))]
        if g.get('scheme') is not None:
            conds.append(g['scheme']==self.eng.enums['SignatureScheme'].index(self.RING_ALG[key.p['alg']]))
        if 'over_bytes' in g: conds.append(bytes_eq(g['over_bytes'],byte_list(msg)).z())
        else: conds.append(g['over'])
        run.log.append(('verify',key.p['alg'],sigb[0]))
        if run.branch_bool(Bool(z3.And(*conds)),'sigvalid'): return ok(UNIT)
        return err(Opaque('ring::error::Unspecified'))
    def valid_term(self,run,key,sig,msg=None):
        key=deref(key); sig=deref(sig)
        tag=deref(deref(self.b.get(sig,'value')).f[0]).items[0]
        if not tag.conc(): raise Unsupported('symbolic signature tag')
        g=run.ghost['sigs'][tag.v]
        mat=deref(deref(self.b.get(key,'value')).f[0]).items[0]
        conds=[g['intact'], g['made_by']==mat.z()]
        if g.get('scheme') is not None:
            sch=deref(self.b.get(key,'scheme'))
            conds.append(g['scheme']==sch.variant)
        if 'over_bytes' in g and msg is not None:
            conds.append(bytes_eq(g['over_bytes'],byte_list(msg)).z())
        else:
            conds.append(g['over'])
        return z3.And(*conds)
    def verify(self,e,run,a,f):
        c=Bool(self.valid_term(run,a[0],a[2],a[1]))
        run.log.append(('verify',deref(a[0]),deref(a[2])))
        if run.branch_bool(c,'sigvalid'): return ok(UNIT)
        return err(self.b.variant('Error','BadSignature'))

def is_sample(run,seed,rate):
    h=hashlib.sha256(('%d|'%seed+','.join(map(str,run.dec))).encode()).digest()
    return int.from_bytes(h[:4],'big')%rate==0
