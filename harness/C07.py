"""C07 - multi-party steps require identical recorded artifacts from all signers."""
import z3, itertools
from .pipeline import *

def art_eq(a,b):
    """z3 term: two artifact dicts (path -> digest term list, or path -> {algorithm: digest term list}) are equal"""
    if set(a)!=set(b): return z3.BoolVal(False)
    cs=[]
    for p in a:
        x,y=a[p],b[p]
        if isinstance(x,dict) or isinstance(y,dict):
            x=x if isinstance(x,dict) else {'sha256':x}; y=y if isinstance(y,dict) else {'sha256':y}
            if set(x)!=set(y): return z3.BoolVal(False)
            cs+=[tbv(u)==tbv(v) for al in x for u,v in zip(x[al],y[al])]
        else: cs+=[tbv(u)==tbv(v) for u,v in zip(x,y)]
    return z3.And(*cs) if cs else z3.BoolVal(True)

class Agreement(PipelineBase):
    name='C07.threshold_agreement'
    def __init__(self,nlinks=2,small=False,plain=False,**kw):
        PipelineBase.__init__(self,**kw); self.nlinks=nlinks; self.small=small; self.plain=plain
        if plain:
            self.name='C07.threshold_agreement_%dlinks_plain'%nlinks
            self.hash_order='rot'        # every rotation and the reversal of every map (each entry first and last in some order); all 3! x 3! x .. permutations exhaust the path budget
        if small:
            self.name='C07.threshold_agreement_%dlinks_small'%nlinks
            self.hash_order='fixed'      # insertion order only here (order dependence is C13's subject; 3-4 entry maps under every permutation cost 10^5 paths)
        self.bounds={'links':nlinks,'threshold':'any u32','materials':'per link any subset of {a,b} (small: {a}), one free digest byte per entry, plus optionally an entry e with an EMPTY digest table; the second link may record a as ./a; b recorded under sha256 by the first link and under sha256, sha512 or both by the others','products':'per link {} or {a} (a is also a material path), free digest byte',
                     'signature_validity':'link 0 valid; other links free (intact/over/made_by)','hash_map_iteration':'every permutation'}
        if self.hash_order!='all': self.bounds['hash_map_iteration']={'fixed':'insertion order','rot':'every rotation and the reversal of every map'}[self.hash_order]
        self.witnesses=['ok_thr2_agree','err_disagree','ok_thr1_disagree']
    def mk_args(self,run):
        n=self.nlinks; OWN=n
        thr=Int(32,False,z3.BitVec('thr',32))
        dirs={():[]}; links=[]
        for i in range(n):
            mats={}
            for p in (('a',) if self.small else ('a','b')):
                if run.pick(2,'m%d%s'%(i,p)):
                    # the second link may spell the path differently (./a): recorded paths are compared as recorded, not after normalisation
                    if p=='a' and i==1 and not self.small and not self.plain and run.pick(2,'spelling%d'%i): p='./a'
                    mats[p]=[z3.BitVec('dm_%d_%s'%(i,p.replace('./','dot_')),8)]
                    if p=='b' and i>=1 and not self.plain:      # the digests of b may be recorded under sha256, sha512 or both: the algorithm set is part of what must agree
                        al=run.pick(3,'alg%d'%i)
                        if al: mats[p]={'sha512':[z3.BitVec('dm5_%d_%s'%(i,p),8)]} if al==1 else {'sha256':mats[p],'sha512':[z3.BitVec('dm5_%d_%s'%(i,p),8)]}
            # an artifact recorded without any digest (`"e": {}` - representable, e.g. written by another tool): it is still an entry the links must agree on
            if not self.plain and run.pick(2,'m%de'%i): mats['e']={}
            prods={}
            # `a` may be both a material and a product (a file modified in place): the two tables are compared separately
            for p in (() if (self.small or self.plain) else ('a',)):
                if run.pick(2,'p%d%s'%(i,p)): prods[p]=[z3.BitVec('dp_%d_%s'%(i,p),8)]
            if i==0 or self.small: sd=SigD(i,i)       # small universe: every link validly signed (what varies is who dissents)
            else:
                mb=z3.BitVec('mb_%d'%i,8); run.add(z3.ULE(mb,n))
                sd=SigD(i,mb,z3.Bool('in_%d'%i),z3.Bool('ov_%d'%i))
            ld=LinkD('s0',mats,prods)
            dirs[()].append(FileD('s0',i,BlockD('link',ld,[sd]))); links.append((ld,sd,i))
        lay=LayoutD(list(range(n)),[StepD('s0',thr,list(range(n)))])
        lb=BlockD('layout',lay,[SigD(OWN,OWN)]); caller=[(OWN,OWN)]
        return self.install(run,lb,caller,dirs),{'lb':lb,'caller':caller,'dirs':dirs,'links':links,'thr':thr}
    def check(self,run,out,g):
        oc=outcome_of(out); rec=self.new_rec(oc)
        mk=lambda m: conc_scenario(m,g['lb'],g['caller'],g['dirs'],1700000000)
        if oc=='panic':
            r,m=run.check_sat(z3.BoolVal(True))
            rec['viol']={'kind':'panic','known_key':None,'scenario':mk(m),'predicted':'panic','what':'in_toto_verify panics: '+str(out[1])}; return rec
        t=z3.BV2Int(g['thr'].v)
        pairs=[]
        for (la,sa,ka),(lb_,sb,kb) in itertools.combinations(g['links'],2):
            both=z3.And(sa.valid_for(ka),sb.valid_for(kb))
            pairs.append(z3.Implies(both,z3.And(art_eq(la.materials,lb_.materials),art_eq(la.products,lb_.products))))
        agree=z3.And(*pairs)
        if oc=='ok':
            if self.classify(run,rec,z3.And(t>=2,z3.Not(agree)),{},mk,'ok','verification succeeds for a step with threshold >= 2 although two validly signed, authorized links report different materials or products','dissenting_link_accepted'): return rec
            self.wit(run,rec,'ok_thr2_agree',t==2); self.wit(run,rec,'ok_thr1_disagree',z3.And(t==1,z3.Not(agree)))
        elif oc.startswith('err'):
            self.wit(run,rec,'err_disagree',z3.And(t==2,z3.Not(agree)))
        if is_sample(run,self.seed,self.rate):
            r,m=run.check_sat(z3.BoolVal(True))
            if r==z3.sat: rec['sample']={'scenario':mk(m),'expect':'ok' if oc=='ok' else 'err'}
        return rec
