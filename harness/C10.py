"""C10 - canonical JSON is deterministic, order-insensitive, loss-free and integer-only.

`cjson::canonicalize`, `convert` and the recursive `Value::write` run from MIR on a serde_json::Value tree with
symbolic leaves; the output bytes are read back by an independent strict RFC 8259 reader (oracles/json_parse.py)
and compared with the input value."""
import z3
from mirsym.values import *
from mirsym.runner import Obligation
from mirsym.build import model_value
from mirsym.models_json import jnull,jbool,jnum,jstr,jarr,jobj
from .common import outcome_of, is_sample
from oracles import json_parse as jp

def sbytes(run,name,n,ascii_only=True):
    bs=[z3.BitVec('%s_%d'%(name,i),8) for i in range(n)]
    for b in bs:
        if ascii_only: run.add(z3.ULT(b,0x80))
    return bs

class Canon(Obligation):
    name='C10.canonicalize'
    hash_order='fixed'
    def __init__(self,maxlen=2,seed=0,known=(),rate=25,**kw):
        self.maxlen=maxlen; self.seed=seed; self.rate=rate
        self.bounds={'strings_and_keys':'0..%d free ASCII bytes (every control character, quote, backslash, DEL) plus fixed non-ASCII samples (U+00E9, U+2028, U+1F600)'%maxlen,
                     'numbers':'PosInt(any u64), NegInt(any negative i64), Float (1.5, -0.0, 1e-7, 1e16, 1e300, 5e-324: with and without a decimal point / exponent in serde_json\'s text)','containers':'arrays and objects up to 2 members, one level of nesting, empty containers; object keys free (distinct) so every relative order occurs; fixed key sets mixing ASCII, Latin-1, high-BMP (U+E000..U+FFFF) and supplementary-plane characters',
                     'source_text':'the claim starts at the parsed serde_json::Value (text -> Value is serde_json\'s parser); serde_json::Map is a BTreeMap (no preserve_order)'}
        self.witnesses=['string_roundtrip','posint','negint','float_rejected','object_sorted','escape_control']; self.seen=set()
    def setup(self,eng,tier):
        self.eng=eng; self.fn=eng.find_fn('cjson::canonicalize')
    def entry(self,eng): return self.fn
    def shapes(self,run):
        N=self.maxlen
        def S(name,maxn=N):
            n=run.pick(maxn+1,'len_'+name); return StringO(sbytes(run,name,n))
        k=run.pick(16,'shape')
        # supplementary-plane vs. high-BMP keys: code-point (= UTF-8 byte) order differs from UTF-16 code-unit order
        if k==15: return jobj([('\U0001F600',jnull()),('\ufffd',jnull()),('\ue000',jnum('PosInt',Int(64,False,1))),('\U00010000',jnull()),('z',jobj([('\uff5e',jnull()),('\U00020000',jnull())]))]),False
        if k==0: return jstr(S('s')),False
        if k==1:
            c=['é',' ','\U0001F600','\x7f','aé'][run.pick(5,'sample')]
            return jstr(mk_string(c)),False
        if k==2: return jnum('PosInt',Int(64,False,z3.BitVec('u',64))),False
        if k==3:
            i=z3.BitVec('i',64); run.add(i<0); return jnum('NegInt',Int(64,True,i)),False
        if k==4:
            # non-integer numbers as serde_json holds them (f64) together with the text serde_json prints for them
            t=['1.5','-0.0','1e-7','1e16','1e300','5e-324'][run.pick(6,'float')]
            return jnum('Float',Opaque('f64',t)),True
        if k==5: return jbool(Bool(z3.Bool('b'))),False
        if k==6: return jnull(),False
        if k==7: return jarr([jstr(S('e',1)),jnum('PosInt',Int(64,False,z3.BitVec('u',64)))]),False
        if k==8: return [jarr([]),jobj([])][run.pick(2,'empty')],False
        if k==9:
            k1=sbytes(run,'k1',1); k2=sbytes(run,'k2',1); run.add(k1[0]!=k2[0])
            return jobj([(StringO(k1),jnull()),(StringO(k2),jbool(Bool(z3.Bool('b'))))]),False
        if k==10: return jobj([('b',jstr('x')),('a',jarr([jnum('Float',Opaque('f64'))]))]),True
        if k==11: return jobj([(S('k'),jobj([('x',jstr(S('v',1)))]))]),False
        if k==12: return jobj([('a',jnull()),('B',jnull()),('aa',jnull()),('',jnull()),('é',jnull()),('z',jnull())]),False
        if k==13:
            k1=sbytes(run,'k1',2); k2=sbytes(run,'k2',1); return jobj([(StringO(k1),jnum('NegInt',Int(64,True,-5))),(StringO(k2),jstr('q'))]),False
        if k==14: return jarr([jarr([jnull()]),jobj([('k',jarr([]))]),jnum('PosInt',Int(64,False,(1<<64)-1)),jnum('NegInt',Int(64,True,-(1<<63))),jnum('PosInt',Int(64,False,1<<63)),jnum('PosInt',Int(64,False,0))]),False
    def mk_args(self,run):
        v,has_float=self.shapes(run)
        return [Ref(Cell(v))],{'v':v,'float':has_float}
    # ---- comparison of the input value with the parsed node
    def same(self,v,node):
        t=v.vname
        if t=='Null': return z3.BoolVal(node==('null',))
        if t=='Bool':
            if node[0]!='bool': return z3.BoolVal(False)
            b=v.f[0]; return (b.z() if node[1] else z3.Not(b.z()))
        if t=='Number':
            n=v.f[0].f[0]
            if node[0]!='int': return z3.BoolVal(False)
            x=n.f[0]; W=72
            mag=z3.BitVecVal(0,W)
            for d in node[2]:
                dv=z3.BitVecVal(d-0x30,W) if isinstance(d,int) else z3.ZeroExt(W-8,d-0x30)
                mag=mag*10+dv
            if len(node[2])>20: return z3.BoolVal(False)
            if n.vname=='PosInt': return z3.And(z3.BoolVal(not node[1]),mag==z3.ZeroExt(W-64,x.z()))
            return z3.And(z3.BoolVal(node[1]),mag==z3.ZeroExt(W-64,0-x.z()))
        if t=='String':
            if node[0]!='str': return z3.BoolVal(False)
            return jp.bytes_eq_t(deref(v.f[0]).b,node[1])
        if t=='Array':
            items=deref(v.f[0]).items
            if node[0]!='arr' or len(node[1])!=len(items): return z3.BoolVal(False)
            return z3.And(*[self.same(x,y) for x,y in zip(items,node[1])]) if items else z3.BoolVal(True)
        if t=='Object':
            ents=deref(v.f[0]).e
            if node[0]!='obj' or len(node[1])!=len(ents): return z3.BoolVal(False)
            cs=[]
            for k,val in ents:
                cs.append(z3.Or(*[z3.And(jp.bytes_eq_t(deref(k).b,pk),self.same(val,pv)) for pk,pv in node[1]]))
            for (a,_),(b,_) in zip(node[1],node[1][1:]): cs.append(jp.bytes_lt(a,b))
            return z3.And(*cs) if cs else z3.BoolVal(True)
        return z3.BoolVal(False)
    def py(self,v,m):
        t=v.vname
        if t=='Null': return None
        if t=='Bool': return bool(model_value(m,v.f[0].z()))
        if t=='Number':
            n=v.f[0].f[0]
            if n.vname=='Float':
                o=deref(n.f[0]); return {'__float__':o.p} if isinstance(o.p,str) else 1.5
            x=model_value(m,n.f[0].z())
            return x-(1<<64) if n.vname=='NegInt' and x>>63 else x
        if t=='String': return bytes(model_value(m,x) for x in deref(v.f[0]).b).decode()
        if t=='Array': return [self.py(x,m) for x in deref(v.f[0]).items]
        if t=='Object': return {'__obj__':[[bytes(model_value(m,x) for x in deref(k).b).decode(),self.py(x,m)] for k,x in deref(v.f[0]).e]}
    def check(self,run,out,g):
        oc=outcome_of(out); rec={'outcome':oc.split(':')[0],'viol':None,'wit':[],'sample':None,'obl':1}
        scn=lambda m: {'kind':'cjson','value':self.py(g['v'],m)}
        def wit(name,cond=None):
            if name in self.seen: return
            if cond is not None:
                r,m=run.check_sat(cond)
                if r!=z3.sat: return
            self.seen.add(name); rec['wit'].append(name)
        if oc=='panic':
            r,m=run.check_sat(z3.BoolVal(True))
            rec['viol']={'kind':'panic','known_key':None,'scenario':scn(m),'predicted':'panic','what':'canonicalize panics: '+str(out[1])}; return rec
        if g['float']:
            if oc=='ok':
                r,m=run.check_sat(z3.BoolVal(True))
                ob=byte_list(deref(out[1]).f[0])
                rec['viol']={'kind':'float_accepted','known_key':None,'scenario':scn(m),'predicted':'bytes:'+bytes(model_value(m,x) for x in ob).hex(),'what':'a value containing a non-integer number is canonicalised instead of rejected'}
            else: wit('float_rejected')
            return rec
        if oc!='ok':
            r,m=run.check_sat(z3.BoolVal(True))
            rec['viol']={'kind':'integer_value_rejected','known_key':None,'scenario':scn(m),'predicted':'err','what':'canonicalize rejects a value without non-integer numbers'}; return rec
        outb=byte_list(deref(out[1]).f[0])
        res,node=jp.parse(run,outb)
        if res!='ok':
            r,m=run.check_sat(z3.BoolVal(True))
            rec['viol']={'kind':'output_not_valid_json','known_key':None,'scenario':scn(m),'predicted':'bytes:'+bytes(model_value(m,x) for x in outb).hex(),'what':'canonical output is not valid canonical JSON: '+str(node)}; return rec
        r,m=run.check_sat(z3.Not(self.same(g['v'],node)))
        if r==z3.sat:
            rec['viol']={'kind':'output_parses_to_other_value','known_key':None,'scenario':scn(m),'predicted':'bytes:'+bytes(model_value(m,x) for x in outb).hex(),'what':'canonical output does not parse back to the identical value (or members are not sorted by code point)'}; return rec
        t=g['v'].vname
        if t=='String': wit('string_roundtrip'); wit('escape_control',z3.Or(*[z3.ULT(x,0x20) for x in deref(g['v'].f[0]).b if not isinstance(x,int)]) if any(not isinstance(x,int) for x in deref(g['v'].f[0]).b) else z3.BoolVal(False))
        if t=='Number': wit('posint' if g['v'].f[0].f[0].vname=='PosInt' else 'negint')
        if t=='Object' and len(deref(g['v'].f[0]).e)==2: wit('object_sorted')
        if is_sample(run,self.seed,self.rate):
            r,m=run.check_sat(z3.BoolVal(True))
            if r==z3.sat: rec['sample']={'scenario':scn(m),'expect':'bytes:'+bytes(model_value(m,x) for x in outb).hex()}
        return rec
