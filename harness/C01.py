"""C01 - only a layout validly signed by every trusted owner key is enforced."""
import z3
from .pipeline import *

class LayoutGate(PipelineBase):
    name='C01.layout_signature_gate'
    def __init__(self,nown=2,nsig=2,with_step=False,**kw):
        PipelineBase.__init__(self,**kw)
        self.nown=nown; self.nsig=nsig; self.with_step=with_step
        self.bounds={'owner_pool':nown,'caller_key_map':'empty, any non-empty subset under own ids, one key under two ids (alias), one key under another key\'s id',
                     'layout_signatures':'0..%d, each labelled with any pool id or an unknown id; made_by / intact / over free'%nsig,
                     'layout_shape':'1 step with a valid link' if with_step else '0 steps (gate precedes all other stages)','hash_map_iteration':'every permutation'}
        self.witnesses=['ok_one_owner','ok_two_owners','err_missing_signature','err_empty_keyset','err_alias']
    def caller_shapes(self):
        n=self.nown; shapes=[('empty',[])]
        import itertools
        for r in range(1,n+1):
            for c in itertools.combinations(range(n),r): shapes.append(('subset',[(k,k) for k in c]))
        shapes.append(('alias',[(0,0),(0,1)]))           # key 0 stored under its own id and under key 1's id
        shapes.append(('mislabel',[(0,1)]))              # key 0 stored under key 1's id only
        return shapes
    def mk_args(self,run):
        n=self.nown
        shapes=self.caller_shapes()
        kind,caller=shapes[run.pick(len(shapes),'caller')]
        ns=run.pick(self.nsig+1,'nsigs')
        sigs=[]
        for j in range(ns):
            lab=run.pick(n+1,'lab%d'%j)
            mb=z3.BitVec('mb_%d'%j,8); run.add(z3.ULE(mb,n))
            sigs.append(SigD(lab if lab<n else UNKNOWN,mb,z3.Bool('in_%d'%j),z3.Bool('ov_%d'%j)))
        dirs={():[]}
        steps=[]
        F=n   # functionary key index
        if self.with_step:
            steps=[StepD('s0',1,[F])]
            dirs[()].append(FileD('s0',F,BlockD('link',LinkD('s0',{'a':1},{'b':2}),[SigD(F,F)])))
        ld=LayoutD([F] if self.with_step else [],steps)
        lb=BlockD('layout',ld,sigs)
        args=self.install(run,lb,caller,dirs)
        return args,{'kind':kind,'caller':caller,'lb':lb,'dirs':dirs,'sigs':sigs}
    def check(self,run,out,g):
        oc=outcome_of(out); rec=self.new_rec(oc)
        mk=lambda m: conc_scenario(m,g['lb'],g['caller'],g['dirs'],1700000000)
        if oc=='panic':
            r,m=run.check_sat(z3.BoolVal(True))
            rec['viol']={'kind':'panic','known_key':None,'scenario':mk(m),'predicted':'panic','what':'in_toto_verify panics: '+str(out[1])}
            return rec
        keys=sorted(set(k for k,l in g['caller']))
        aliased=len(keys)<len(g['caller'])
        every=z3.And(*[z3.Or(*[z3.And(tb(s.intact),tb(s.over),tbv(s.made_by)==k) for s in g['sigs']]) if g['sigs'] else z3.BoolVal(False) for k in keys]) if keys else z3.BoolVal(False)
        P=z3.And(z3.BoolVal(bool(keys)),z3.BoolVal(not aliased),every)
        if oc=='ok':
            if self.classify(run,rec,z3.Not(P),{},mk,'ok','verification succeeds although the caller key set is empty/aliased or some supplied key has no valid signature over exactly the enforced layout','layout_gate_bypassed'):
                return rec
            self.wit(run,rec,'ok_one_owner' if len(keys)==1 else 'ok_two_owners')
        elif oc.startswith('err'):
            if g['kind']=='empty': self.wit(run,rec,'err_empty_keyset')
            elif g['kind']=='alias': self.wit(run,rec,'err_alias')
            else: self.wit(run,rec,'err_missing_signature',z3.Not(every))
        if is_sample(run,self.seed,self.rate):
            r,m=run.check_sat(z3.BoolVal(True))
            if r==z3.sat: rec['sample']={'scenario':mk(m),'expect':'ok' if oc=='ok' else 'err'}
        return rec
