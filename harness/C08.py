"""C08 - inspections run only after a layout's steps verify, and their failure is fatal."""
import z3, itertools
from .pipeline import *
PAST=1000000000

class Inspections(PipelineBase):
    name='C08.inspections'
    def __init__(self,ninsp=1,two_steps=False,history=False,**kw):
        PipelineBase.__init__(self,**kw); self.ninsp=ninsp; self.two_steps=two_steps; self.history=history
        if two_steps: self.name='C08.inspections_after_two_steps'
        if history: self.name='C08.inspections_after_a_failed_verification'
        self.bounds={'layout':('2 steps (the second always in order)' if two_steps else '1 step')+' (threshold 1, one functionary), %d inspection(s)'%ninsp,
                     'failure_knobs':'owner signature validity free; layout expired or not; step link absent/present with free signature validity; step rules: none / DISALLOW * on products / REQUIRE of an absent material / MATCH against the not-yet-existing link of the inspection followed by DISALLOW *',
                     'inspection_run':'stub returns Err, or a link without exit status (what runlib records for an empty command; counts as not having exited successfully), or a link with any i32 exit status, products {} or {x}, under inspection rules none / DISALLOW * on products',
                     'hash_map_iteration':'every permutation'}
        self.witnesses=['ok_all_pass','err_before_inspection_no_events','err_inspection_rule','ran_inspection']
    def entry(self,eng):
        if not self.history: return self.entry_body
        body=self.entry_body
        def go(run,args):
            aA,aB=args
            # an earlier verification in the same process that fails INSIDE a sub-layout (the deepest point a failure can unwind from);
            # whatever it leaves behind (statics, thread-locals) is there when the verification under test starts
            try: eng.call_fn(run,body,aA)
            except Panic: pass
            run.ghost['events']=[]; run.ghost['stage']=[]
            return eng.call_fn(run,body,aB)
        return go
    def inspection_result(self,run,name,a):
        g=run.ghost['insp'][name]
        if g['fail']: return err(self.b.variant('Error','RunLibError',[mk_string('spawn failed',True)]))
        ld=LinkD(name,dict(g.get('materials',{})),dict(g['products']),None if g['none'] else Int(32,True,g['rv']))
        return ok(self.b.metablock(self.b.wrap_link(self.mk_link(run,ld)),[]))
    def mk_args(self,run):
        b=self.b; F0,OWN=0,1
        osig=SigD(OWN,z3.BitVec('omb',8),z3.Bool('oin'),z3.Bool('oov')); run.add(z3.ULE(tbv(osig.made_by),2))
        expired=bool(run.pick(2,'expired'))
        present=bool(run.pick(2,'link_present'))
        lsig=SigD(F0,z3.BitVec('lmb',8),z3.Bool('lin'),z3.Bool('lov')); run.add(z3.ULE(tbv(lsig.made_by),2))
        rk=run.pick(4,'step_rules')
        step=StepD('s0',1,[F0])
        if rk==1: step.exp_prod=[b.rule('Disallow','*')]; step.exp_prod_json=[['DISALLOW','*']]
        if rk==2: step.exp_mat=[b.rule('Require','missing')]; step.exp_mat_json=[['REQUIRE','missing']]
        if rk==3:
            step.exp_prod=[b.rule('Match','b',with_='Products',from_='i0'),b.rule('Disallow','*')]; step.exp_prod_json=[['MATCH','b','WITH','PRODUCTS','FROM','i0'],['DISALLOW','*']]
        rules_pass=(rk==0)
        dirs={():[]}
        if present: dirs[()].append(FileD('s0',F0,BlockD('link',LinkD('s0',{'a':[1]},{'b':[2]}),[lsig])))
        insps=[]; run.ghost['insp']={}; ig=[]
        left={}      # inspections share the working directory: what earlier ones left behind (their products, their link files) is recorded by later ones
        for i in range(self.ninsp):
            nm='i%d'%i
            fail=bool(run.pick(2,'insp_fail%d'%i))
            rv=z3.BitVec('rv_%d'%i,32)
            nostatus=bool(run.pick(2,'insp_nostatus%d'%i)) if not fail else False      # the link carries no exit status (runlib: empty command)
            prods={'x':[z3.BitVec('ix_%d'%i,8)]} if run.pick(2,'insp_prod%d'%i) else {}
            ir=run.pick(2,'insp_rules%d'%i)
            d=InspD(nm)
            if ir==1: d.exp_prod=[b.rule('Disallow','*')]; d.exp_prod_json=[['DISALLOW','*']]
            if nostatus and prods: raise Infeasible()       # natively an empty command cannot create products
            mats=dict(left); own_x='x' in prods
            if own_x and 'x' in left: prods['x']=left['x']       # `touch x` on an existing file leaves its content alone
            prods=dict(left,**prods)
            gi={'fail':fail,'rv':rv,'products':prods,'materials':mats,'own_x':own_x,'rules_fail':(ir==1 and bool(prods)),'name':nm,'none':nostatus}
            left=dict(prods); left[nm+'.link']=[z3.BitVec('linkfile_%d'%i,8)]
            d.dyn_run=(lambda gi: (lambda m: ['/nonexistent-command-for-replay'] if gi['fail'] else ([] if gi['none'] else ['sh','-c',('touch x; ' if gi['own_x'] else '')+'exit %d'%model_value(m,gi['rv'])])))(gi)
            run.ghost['insp'][nm]=gi; ig.append(gi); insps.append(d)
        steps=[step]
        if self.two_steps:
            # a second step that is in perfect order FOLLOWS the one under test: a failure of an earlier item must not be forgotten
            steps.append(StepD('s1',1,[F0])); dirs[()].append(FileD('s1',F0,BlockD('link',LinkD('s1',{'a':[1]},{'b':[2]}),[SigD(F0,F0)])))
        lay=LayoutD([F0],steps,insps,expires=PAST if expired else FAR_FUTURE)
        lb=BlockD('layout',lay,[osig]); caller=[(OWN,OWN)]
        prior=None
        if self.history:
            innerA=LayoutD([],[],expires=PAST)
            dirsA={():[FileD('d',F0,BlockD('layout',innerA,[SigD(F0,F0)]))],(('d',F0),):[]}
            lbA=BlockD('layout',LayoutD([F0],[StepD('d',1,[F0])]),[SigD(OWN,OWN)])
            self.link_dir='linksA'; aA=self.install(run,lbA,caller if False else [(OWN,OWN)],dirsA); dA=dict(run.ghost['dirs']); self.link_dir='links'
            prior=conc_scenario(None,lbA,[(OWN,OWN)],dirsA,1700000000,repeat=1) if False else (lbA,dirsA)
        args=self.install(run,lb,caller,dirs)
        if self.history: run.ghost['dirs'].update(dA); args=(aA,args)
        run.ghost['insp']={gi['name']:gi for gi in ig}
        return args,{'lb':lb,'caller':caller,'dirs':dirs,'osig':osig,'expired':expired,'present':present,'lsig':lsig,'rules_pass':rules_pass,'insp':ig,'prior':prior}
    def check(self,run,out,g):
        oc=outcome_of(out); rec=self.new_rec(oc)
        def mk(m):
            sc=conc_scenario(m,g['lb'],g['caller'],g['dirs'],1700000000,repeat=2)
            if g.get('prior'):
                first=conc_scenario(m,g['prior'][0],[(1,1)],g['prior'][1],1700000000,repeat=1)
                return {'kind':'verify_sequence','first':first,'second':sc,'sleep_ms':0}
            return sc
        if oc=='panic':
            r,m=run.check_sat(z3.BoolVal(True))
            rec['viol']={'kind':'panic','known_key':None,'scenario':mk(m),'predicted':'panic','what':'in_toto_verify panics: '+str(out[1])}; return rec
        events=run.ghost['events']
        stages_ok=z3.And(g['osig'].valid_for(1),z3.BoolVal(not g['expired']),z3.BoolVal(g['present']),g['lsig'].valid_for(0),z3.BoolVal(g['rules_pass']))
        small=z3.And(*[z3.And(gi['rv']>=0,gi['rv']<=255) for gi in g['insp']])
        if events:
            # (i) something was executed / written: every earlier stage must have passed
            # natively an inspection leaves a trace only if its command could be started (the stub's spawn-error variant leaves none)
            observable=any(e[0]=='write' or (e[0]=='run' and not run.ghost['insp'][e[1]]['fail']) for e in events)
            if self.classify(run,rec,z3.And(z3.Not(stages_ok),small),{},mk if observable else (lambda m: None),'ran-inspection','an inspection command was started (or its link file written) although an earlier verification stage fails','inspection_before_steps_verified'): return rec
            self.wit(run,rec,'ran_inspection')
            # events of inspection k must not precede completion of inspection k-1's rule-independent run (order = layout order)
            names=[e[1] for e in events if e[0]=='run']
            if names!=[gi['name'] for gi in g['insp']][:len(names)]:
                rec['viol']={'kind':'inspection_order','known_key':None,'scenario':None,'predicted':'ok','what':'inspections not executed in layout order'}; return rec
        if oc=='ok':
            ran_all=len([e for e in events if e[0]=='run'])==len(g['insp'])
            nonzero=z3.Or(*[z3.Or(gi['rv']!=0,z3.BoolVal(gi['none'])) for gi in g['insp']]) if g['insp'] else z3.BoolVal(False)
            bad=z3.Or(z3.Not(stages_ok),z3.BoolVal(not ran_all),z3.BoolVal(any(gi['fail'] or gi['rules_fail'] for gi in g['insp'])),nonzero)
            pats={'inspection_exit_status_ignored':z3.And(stages_ok,z3.BoolVal(ran_all and not any(gi['fail'] or gi['rules_fail'] for gi in g['insp'])),nonzero)}
            if self.classify(run,rec,z3.And(bad,small),pats,mk,'ok','verification succeeds although a stage failed, an inspection did not run, an inspection rule fails or an inspection command exited non-zero','inspection_failure_not_fatal'): return rec
            self.wit(run,rec,'ok_all_pass')
        elif oc.startswith('err'):
            if not events: self.wit(run,rec,'err_before_inspection_no_events',z3.Not(stages_ok))
            if any(gi['rules_fail'] for gi in g['insp']): self.wit(run,rec,'err_inspection_rule',stages_ok)
        if is_sample(run,self.seed,self.rate):
            r,m=run.check_sat(small)
            if r==z3.sat:
                rec['sample']={'scenario':mk(m),'expect':'ok' if oc=='ok' else 'err'}
                if not events: rec['sample']['expect_no_events']=True
        return rec

class SublayoutInspection(Inspections):
    """a delegated step that has more evidence than its threshold needs: one functionary files an ordinary link, another a
    sub-layout whose own inspection exits non-zero.  The inspection of the sub-layout did run; its failure is fatal."""
    name='C08.sublayout_inspection'
    def __init__(self,**kw):
        Inspections.__init__(self,ninsp=1,**kw); self.name='C08.sublayout_inspection'
        self.bounds={'outer_layout':'1 step (threshold 1, functionaries F0 and F1), 1 inspection that succeeds','evidence':'F0: an ordinary link with free signature validity; F1: a sub-layout (0 steps, 1 inspection) signed by F1',
                     'inner_inspection':'stub returns Err, a link without exit status, or a link with any i32 exit status','hash_map_iteration':'every permutation'}
        self.witnesses=['ok_inner_inspection_passed','err_inner_inspection_failed']
    def mk_args(self,run):
        b=self.b; F0,F1,OWN=0,1,2
        lsig=SigD(F0,z3.BitVec('lmb',8),z3.Bool('lin'),z3.Bool('lov')); run.add(z3.ULE(tbv(lsig.made_by),2))
        fail=bool(run.pick(2,'inner_fail')); rv=z3.BitVec('rv_inner',32)
        nostatus=bool(run.pick(2,'inner_nostatus')) if not fail else False
        gi={'fail':fail,'rv':rv,'products':{},'rules_fail':False,'name':'ii','none':nostatus}
        go={'fail':False,'rv':z3.BitVecVal(0,32),'products':{},'rules_fail':False,'name':'i0','none':False}
        ii=InspD('ii'); ii.dyn_run=(lambda m: ['/nonexistent-command-for-replay'] if fail else ([] if nostatus else ['sh','-c','exit %d'%model_value(m,rv)]))
        i0=InspD('i0'); i0.dyn_run=(lambda m: ['true'])
        inner=LayoutD([],[],[ii])
        dirs={():[FileD('d',F0,BlockD('link',LinkD('d',{'a':[1]},{'b':[2]}),[lsig])),FileD('d',F1,BlockD('layout',inner,[SigD(F1,F1)]))],(('d',F1),):[]}
        lay=LayoutD([F0,F1],[StepD('d',1,[F0,F1])],[i0])
        lb=BlockD('layout',lay,[SigD(OWN,OWN)]); caller=[(OWN,OWN)]
        args=self.install(run,lb,caller,dirs)
        run.ghost['insp']={'ii':gi,'i0':go}
        return args,{'lb':lb,'caller':caller,'dirs':dirs,'gi':gi,'lsig':lsig}
    def check(self,run,out,g):
        oc=outcome_of(out); rec=self.new_rec(oc)
        mk=lambda m: conc_scenario(m,g['lb'],g['caller'],g['dirs'],1700000000,repeat=2)
        if oc=='panic':
            r,m=run.check_sat(z3.BoolVal(True))
            rec['viol']={'kind':'panic','known_key':None,'scenario':mk(m),'predicted':'panic','what':'in_toto_verify panics: '+str(out[1])}; return rec
        gi=g['gi']; ran_inner=any(e[0]=='run' and e[1]=='ii' for e in run.ghost['events'])
        small=z3.And(gi['rv']>=0,gi['rv']<=255)
        inner_bad=z3.Or(z3.BoolVal(gi['fail'] or gi['none']),gi['rv']!=0)
        if oc=='ok':
            if ran_inner or True:
                # the sub-layout filed by an authorized functionary is part of the evidence that was verified: its inspection failing must fail verification
                if self.classify(run,rec,z3.And(inner_bad,small),{},mk,'ok','verification succeeds although the inspection of a sub-layout among the verified evidence failed (non-zero exit status, no status, or could not be started)','sublayout_inspection_failure_not_fatal'): return rec
            self.wit(run,rec,'ok_inner_inspection_passed')
        elif oc.startswith('err'):
            self.wit(run,rec,'err_inner_inspection_failed',z3.And(inner_bad,small))
        if is_sample(run,self.seed,4):
            r,m=run.check_sat(small)
            if r==z3.sat: rec['sample']={'scenario':mk(m),'expect':'ok' if oc=='ok' else 'err'}
        return rec

class InspectionsSharingAName(Inspections):
    """two inspections with ONE name: whatever the implementation does with their link files (the later one replaces the earlier
    one in a table keyed by name), the first one's failing rules must not be lost: the layout is never accepted"""
    def __init__(self,**kw):
        Inspections.__init__(self,ninsp=2,**kw); self.name='C08.inspections_sharing_a_name'
        self.bounds={'layout':'validly signed, unexpired, one step with a valid link','inspections':'two, both named q, both with DISALLOW * on products: the first creates a product (its rules fail), the second removes everything the first left (its rules pass); free exit status 0',
                     'hash_map_iteration':'every permutation'}
        self.witnesses=['rejected']
    def inspection_result(self,run,name,a):
        k=run.ghost['insp_calls']; run.ghost['insp_calls']+=1
        g=run.ghost['insp_seq'][min(k,1)]
        ld=LinkD(name,dict(g['materials']),dict(g['products']),Int(32,True,0))
        return ok(self.b.metablock(self.b.wrap_link(self.mk_link(run,ld)),[]))
    def mk_args(self,run):
        b=self.b; F0,OWN=0,1
        step=StepD('s0',1,[F0])
        dirs={():[FileD('s0',F0,BlockD('link',LinkD('s0',{'a':[1]},{'b':[2]}),[SigD(F0,F0)]))]}
        x=[z3.BitVec('ix',8)]; lf=[z3.BitVec('linkfile',8)]
        seq=[{'materials':{},'products':{'x':x}},{'materials':{'x':x,'q.link':lf},'products':{}}]
        insps=[]
        for k in range(2):
            d=InspD('q'); d.exp_prod=[b.rule('Disallow','*')]; d.exp_prod_json=[['DISALLOW','*']]
            d.dyn_run=(lambda k: (lambda m: ['sh','-c','touch x'] if k==0 else ['sh','-c','rm -f x q.link']))(k)
            insps.append(d)
        run.ghost['insp_seq']=seq; run.ghost['insp_calls']=0; run.ghost['insp']={}
        lay=LayoutD([F0],[step],insps)
        lb=BlockD('layout',lay,[SigD(OWN,OWN)]); caller=[(OWN,OWN)]
        args=self.install(run,lb,caller,dirs)
        return args,{'lb':lb,'caller':caller,'dirs':dirs}
    def check(self,run,out,g):
        oc=outcome_of(out); rec=self.new_rec(oc); rec['obl']=1
        mk=lambda m: conc_scenario(m,g['lb'],g['caller'],g['dirs'],1700000000,repeat=2)
        r,m=run.check_sat(z3.BoolVal(True))
        if oc=='panic':
            rec['viol']={'kind':'panic','known_key':None,'scenario':mk(m),'predicted':'panic','what':'in_toto_verify panics: '+str(out[1])}; return rec
        if oc=='ok':
            rec['viol']={'kind':'failing_inspection_lost_behind_its_namesake','known_key':None,'scenario':mk(m),'predicted':'ok','what':'a layout with two inspections of one name is accepted although the first one\'s product rules fail on what it recorded'}; return rec
        self.wit(run,rec,'rejected')
        rec['sample']={'scenario':mk(m),'expect':'err'}
        return rec
