"""C20 - envelope pre-authentication encoding is injective and round-trips; decoding never panics."""
import z3
from mirsym.values import *
from mirsym.runner import Obligation
from mirsym.build import B, model_value
from mirsym.models import bytes_eq, b_and, val_eq
from .common import outcome_of, is_sample

def sym_bytes(name,n,ascii_only=False,run=None):
    bs=[z3.BitVec('%s_%d'%(name,i),8) for i in range(n)]
    if ascii_only and run is not None:
        for b in bs: run.add(z3.ULT(b,0x80))
    return bs
def mv_bytes(m,bs): return [model_value(m,x) for x in bs]

class RoundTrip(Obligation):
    """unpack(pack(t,p)) == (p,t) for every type string and payload within the size bound"""
    name='C20.pae_roundtrip'
    def __init__(self,max_t=3,max_p=4,seed=0,known=(),lens=None,**kw):
        self.max_t=max_t; self.max_p=max_p; self.seed=seed; self.lens=list(lens) if lens else None
        self.bounds={'payload_type':'0..%d bytes: any ASCII bytes (space, digits included) or the 2-byte char U+00E9 at the front'%max_t,'payload':'0..%d arbitrary bytes'%max_p}
        if self.lens:
            self.name='C20.pae_roundtrip_long'
            self.bounds={'lengths':'type and payload lengths each from %s (around the points where the decimal length field gains a digit)'%self.lens,'content':'the first two bytes of each free (type: ASCII), the rest a fixed filler byte'}
        self.witnesses=['roundtrip_ok']+([] if self.lens else ['type_with_space','payload_with_digit_and_space']); self.seen=set()
    def setup(self,eng,tier):
        self.eng=eng
        self.pack=eng.find_method('DSSEParser','PaeV1','pae_pack'); self.unpack=eng.find_method('DSSEParser','PaeV1','pae_unpack')
        def rt(run,args):
            t,p=args
            packed=eng.call_fn(run,self.pack,[StringO(list(t)),Ref(Cell(Str(list(p),False)))])
            run.ghost['packed']=byte_list(packed)
            return eng.call_fn(run,self.unpack,[Ref(Cell(Str(byte_list(packed),False)))])
        self.rt=rt
    def entry(self,eng): return self.rt
    def mk_args(self,run):
        if self.lens:
            nt=self.lens[run.pick(len(self.lens),'len_t')]; np_=self.lens[run.pick(len(self.lens),'len_p')]
            t=sym_bytes('t',min(nt,2),True,run)+[0x78]*max(0,nt-2); p=sym_bytes('p',min(np_,2))+[0x79]*max(0,np_-2)
            return (t,p),{'t':t,'p':p}
        nt=run.pick(self.max_t+1,'len_t'); np_=run.pick(self.max_p+1,'len_p')
        nonascii=nt>=2 and run.pick(2,'nonascii')
        t=sym_bytes('t',nt,True,run)
        if nonascii: t=[0xc3,0xa9]+t[2:]
        p=sym_bytes('p',np_)
        return (t,p),{'t':t,'p':p}
    def scn(self,g,m): return {'kind':'pae','mode':'roundtrip','type':mv_bytes(m,g['t']),'payload':mv_bytes(m,g['p'])}
    def check(self,run,out,g):
        oc=outcome_of(out); rec={'outcome':oc,'viol':None,'wit':[],'sample':None,'obl':1}
        def wit(name,cond):
            if name in self.seen: return
            r,m=run.check_sat(cond)
            if r==z3.sat: self.seen.add(name); rec['wit'].append(name)
        if oc!='ok':
            r,m=run.check_sat(z3.BoolVal(True))
            rec['viol']={'kind':'roundtrip_fails:'+oc.split(':')[0],'known_key':None,'scenario':self.scn(g,m),'predicted':'panic' if oc=='panic' else 'err','what':'unpack(pack(type,payload)) does not return a pair: '+oc}; return rec
        tup=deref(out[1]).f[0]
        same=b_and(bytes_eq(byte_list(tup.f[0]),g['p']),bytes_eq(byte_list(tup.f[1]),g['t']))
        r,m=run.check_sat(z3.Not(same.z()))
        if r==z3.sat:
            rec['viol']={'kind':'roundtrip_changes_pair','known_key':None,'scenario':self.scn(g,m),'predicted':'ok-different','what':'unpack(pack(type,payload)) returns a different pair'}; return rec
        wit('roundtrip_ok',z3.BoolVal(True))
        if g['t'] and not self.lens: wit('type_with_space',z3.Or(*[x==0x20 for x in g['t'] if not isinstance(x,int)]) if any(not isinstance(x,int) for x in g['t']) else z3.BoolVal(False))
        if len(g['p'])>=2 and not self.lens: wit('payload_with_digit_and_space',z3.And(g['p'][0]==0x31,g['p'][1]==0x20))
        if is_sample(run,self.seed,3):
            r,m=run.check_sat(z3.BoolVal(True))
            if r==z3.sat: rec['sample']={'scenario':self.scn(g,m),'expect':'ok'}
        return rec

class Injective(Obligation):
    """two pairs with equal packings are equal (self-composition over pack)"""
    name='C20.pae_injective'
    def __init__(self,max_t=2,max_p=3,seed=0,known=(),**kw):
        self.max_t=max_t; self.max_p=max_p; self.seed=seed
        self.bounds={'payload_type':'0..%d ASCII bytes each'%max_t,'payload':'0..%d arbitrary bytes each'%max_p,'pairs':'two independent symbolic pairs, all length combinations'}
        self.witnesses=['equal_packings_exist']; self.seen=set()
    def setup(self,eng,tier):
        self.eng=eng; self.pack=eng.find_method('DSSEParser','PaeV1','pae_pack')
        def two(run,args):
            outs=[]
            for t,p in args:
                outs.append(byte_list(eng.call_fn(run,self.pack,[StringO(list(t)),Ref(Cell(Str(list(p),False)))])))
            return outs
        self.two=two
    def entry(self,eng): return self.two
    def mk_args(self,run):
        pairs=[]
        for k in (1,2):
            nt=run.pick(self.max_t+1,'len_t%d'%k); np_=run.pick(self.max_p+1,'len_p%d'%k)
            pairs.append((sym_bytes('t%d'%k,nt,True,run),sym_bytes('p%d'%k,np_)))
        return pairs,{'pairs':pairs}
    def check(self,run,out,g):
        rec={'outcome':'packed' if out[0]=='ret' else out[0],'viol':None,'wit':[],'sample':None,'obl':1}
        if out[0]!='ret':
            rec['viol']={'kind':'pack_panics','known_key':None,'scenario':None,'predicted':'panic','what':str(out[1])}; return rec
        a,b=out[1]; (t1,p1),(t2,p2)=g['pairs']
        eqpack=bytes_eq(a,b)
        if eqpack.conc() and not eqpack.v: return rec
        samepair=b_and(bytes_eq(t1,t2),bytes_eq(p1,p2))
        r,m=run.check_sat(z3.And(eqpack.z(),z3.Not(samepair.z())))
        if r==z3.sat:
            rec['viol']={'kind':'collision','known_key':None,'scenario':{'kind':'pae','mode':'collision','type':mv_bytes(m,t1),'payload':mv_bytes(m,p1),'type2':mv_bytes(m,t2),'payload2':mv_bytes(m,p2)},'predicted':'collision','what':'two different (type,payload) pairs pack to the same bytes'}; return rec
        if 'equal_packings_exist' not in self.seen:
            r,m=run.check_sat(eqpack.z())
            if r==z3.sat: self.seen.add('equal_packings_exist'); rec['wit'].append('equal_packings_exist')
        return rec

class UnpackTotal(Obligation):
    """unpack(arbitrary bytes) returns a pair or an error - never panics; a returned pair re-packs to a prefix-consistent encoding"""
    name='C20.pae_unpack_total'
    def __init__(self,n=8,shape='prefix',seed=0,known=(),**kw):
        self.n=n; self.shape=shape; self.seed=seed; self.known=set(known)
        self.bounds={'input':{'prefix':'"DSSEv1 " followed by 0..%d arbitrary bytes'%n,'free':'0..%d arbitrary bytes (no fixed prefix)'%n,'maxlen':'"DSSEv1 18446744073709551615" followed by 0..%d arbitrary bytes (length field = usize::MAX)'%n,
                              'maxlen2':'"DSSEv1 1 a 18446744073709551615" followed by 0..%d arbitrary bytes'%n}[shape]}
        self.witnesses={'prefix':['decodes','error'],'free':['error'],'maxlen':['error_or_panic'],'maxlen2':['error_or_panic']}[shape]; self.seen=set()
    def setup(self,eng,tier):
        self.eng=eng; self.unpack=eng.find_method('DSSEParser','PaeV1','pae_unpack')
    def entry(self,eng): return self.unpack
    def mk_args(self,run):
        k=run.pick(self.n+1,'len')
        tail=sym_bytes('x',k)
        head={'prefix':list(b'DSSEv1 '),'free':[],'maxlen':list(b'DSSEv1 18446744073709551615'),'maxlen2':list(b'DSSEv1 1 a 18446744073709551615')}[self.shape]
        bs=head+tail
        return [Ref(Cell(Str(bs,False)))],{'bs':bs}
    def check(self,run,out,g):
        oc=outcome_of(out); rec={'outcome':oc,'viol':None,'wit':[],'sample':None,'obl':1}
        scn=lambda m: {'kind':'pae','mode':'unpack','bytes':mv_bytes(m,g['bs'])}
        if oc=='panic':
            site=str(out[1])
            key='pae_unpack_slice_panic'
            r,m=run.check_sat(z3.BoolVal(True))
            rec['viol']={'kind':'unpack_panics','known_key':key,'scenario':scn(m),'predicted':'panic','what':'pae_unpack panics on crafted bytes: '+site}; return rec
        if oc=='ok' and 'decodes' not in self.seen and 'decodes' in self.witnesses: self.seen.add('decodes'); rec['wit'].append('decodes')
        if oc.startswith('err'):
            for w in ('error','error_or_panic'):
                if w in self.witnesses and w not in self.seen: self.seen.add(w); rec['wit'].append(w)
        if is_sample(run,self.seed,40):
            r,m=run.check_sat(z3.BoolVal(True))
            if r==z3.sat: rec['sample']={'scenario':scn(m),'expect':'ok' if oc=='ok' else 'err'}
        return rec
