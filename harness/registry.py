"""Which obligations decide which property, with their bounds per tier."""
PROPS={}

PROPS['C04']={
 'bounds_statement':'Metablock::verify executed from MIR for every threshold (u32), every authorized-key multiset and signature list within the shape bound, every hash-map iteration order; cryptography idealised (EUF-CMA oracle); canonical bytes stubbed (decided under C05/C09).',
 'assumptions':['PublicKey::verify replaced by the ideal-signature oracle (a signature verifies only under the key that made it, over exactly the bytes it was made over)',
                'MetadataWrapper::to_bytes stubbed to constant bytes in this obligation (its injectivity is C05, its agreement between signer and verifier is C09)',
                'std/dependency calls replaced by the listed models (coverage.trusted_base); models validated on every run by native replay of sampled paths',
                'HashMap keyed by KeyId: key equality modelled structurally (derived PartialEq/Hash)'],
 'obligations':[
   {'name':'verify_vec','module':'harness.C04','cls':'VerifyThreshold','quick':{'nk':2,'ns':3,'iter_kind':'vec'},'thorough':{'nk':3,'ns':4,'iter_kind':'vec'}},
   {'name':'verify_mapvalues','module':'harness.C04','cls':'VerifyThreshold','quick':{'nk':2,'ns':2,'iter_kind':'values'},'thorough':{'nk':3,'ns':3,'iter_kind':'values'}},
 ]}
