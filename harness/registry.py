"""Which obligations decide which property, with their bounds per tier."""
PROPS={}

PROPS['C04']={
 'bounds_statement':'Metablock::verify executed from MIR for every threshold (u32), every authorized-key multiset and signature list within the shape bound, every hash-map iteration order; cryptography idealised (EUF-CMA oracle); canonical bytes stubbed (decided under C05/C09).',
 'assumptions':['ring::signature::UnparsedPublicKey::{new,verify} replaced by the ideal-signature oracle (a signature verifies only under the key material and algorithm that made it, over exactly the bytes it was made over); PublicKey::verify itself (scheme dispatch, error mapping) runs from MIR',
                'MetadataWrapper::to_bytes stubbed to constant bytes in this obligation (its injectivity is C05, its agreement between signer and verifier is C09)',
                'std/dependency calls replaced by the listed models (coverage.trusted_base); models validated on every run by native replay of sampled paths',
                'HashMap keyed by KeyId: key equality structural where PartialEq/Hash are derived; a hand-written PartialEq / Ord of a key type is executed from MIR by the map models'],
 'obligations':[
   {'name':'verify_vec','module':'harness.C04','cls':'VerifyThreshold','quick':{'nk':2,'ns':3,'iter_kind':'vec'},'thorough':{'nk':3,'ns':3,'iter_kind':'vec'}},
   {'name':'verify_mapvalues','module':'harness.C04','cls':'VerifyThreshold','quick':{'nk':2,'ns':2,'iter_kind':'values'},'thorough':{'nk':2,'ns':3,'iter_kind':'values'}},
   {'name':'signatures_replayed_on_other_content','module':'harness.C04','cls':'ReplayAcrossCalls','quick':{},'thorough':{}},
   {'name':'genuine_signature_of_every_scheme_and_length','module':'harness.C04','cls':'GenuineSignature','quick':{},'thorough':{}},
 ]}

PIPE_ASSUME=['ring::signature::UnparsedPublicKey::{new,verify} replaced by the ideal-signature oracle (PublicKey::verify itself runs from MIR); MetadataWrapper::to_bytes stubbed to constant bytes (C05/C09 decide the encoding)',
 'link directory = ghost directory behind stubs of glob::glob and load_linkfile (file enumeration, reading and JSON parsing of link files are outside the claim); everything else in load_links_for_layout runs from MIR',
 'chrono::Utc::now = symbolic instant; chrono ordering modelled as (secs,nanos) lexicographic',
 'inspection execution (runlib::in_toto_run) and std::fs::write replaced by ghost-logging stubs',
 'std/dependency calls replaced by the listed models (coverage.trusted_base), validated on every run by native replay of sampled paths against the real crate (real ring signatures, real files, real clock)']

PROPS['C02']={
 'bounds_statement':'in_toto_verify executed from MIR end-to-end over a ghost link directory: every subset of layout keys and step pubkeys, every u32 threshold, every population of link files (per key absent/present), every signature validity assignment, every hash-map order, within the shape bound.',
 'assumptions':PIPE_ASSUME,
 'obligations':[
   {'name':'step_authorization','module':'harness.C02','cls':'StepAuthorization','quick':{'nfun':2,'nsig':2},'thorough':{'nfun':3,'nsig':1,'unknown_pubkey':True}},
   {'name':'step_authorization_two_signatures','module':'harness.C02','cls':'StepAuthorization','tier_only':'thorough','quick':{},'thorough':{'nfun':2,'nsig':2,'unknown_pubkey':True}},
   {'name':'two_steps','module':'harness.C02','cls':'StepAuthorization','tier_only':'thorough','quick':{},'thorough':{'nfun':2,'nsig':1,'two_steps':True}},
   {'name':'two_steps_small','module':'harness.C02','cls':'StepAuthorization','quick':{'nfun':2,'nsig':1,'two_steps':True,'small':True},'thorough':{'nfun':3,'nsig':1,'two_steps':True,'small':True}},
   {'name':'duplicate_step_names','module':'harness.C02','cls':'StepAuthorization','quick':{'nfun':2,'nsig':1,'same_name':True},'thorough':{'nfun':2,'nsig':2,'same_name':True}},
 ]}

PROPS['C01']={
 'bounds_statement':'in_toto_verify from MIR: every caller key-map shape (empty, subsets, alias, mislabel) x every list of <= N layout signatures with free label/made_by/intact/over x every hash-map order; Ok implies a non-empty, un-aliased key set each of whose keys has an intact signature over exactly the enforced content.',
 'assumptions':PIPE_ASSUME+['"content changed after signing" is the ghost bit `over` of the ideal-signature oracle (the signed bytes are an injective function of the content: C05)'],
 'obligations':[
   {'name':'gate','module':'harness.C01','cls':'LayoutGate','quick':{'nown':2,'nsig':3},'thorough':{'nown':3,'nsig':4}},
   {'name':'gate_with_step','module':'harness.C01','cls':'LayoutGate','quick':{'nown':2,'nsig':2,'with_step':True},'thorough':{'nown':2,'nsig':3,'with_step':True}},
 ]}

PROPS['C06']={
 'bounds_statement':'in_toto_verify from MIR with the clock as a symbolic instant: expiry and verification instants are unconstrained 64+32-bit vectors; top level and one level of delegation; and a second verification in the same process at a later instant (state that outlives a call, e.g. a cached clock reading, is visible to it); and layouts produced by the crate\'s own construction paths (LayoutMetadata::new, LayoutMetadataBuilder, the decoder on a document whose expiry text has a free offset and free fractional seconds), where the expiry that counts is the one the caller / the document states.',
 'assumptions':PIPE_ASSUME+['chrono::DateTime<Utc> ordering = lexicographic (seconds, nanoseconds)','chrono text parsing/printing modelled on ghost strings: parse_from_rfc3339(text(local,offset)) = (local - offset, offset); with_timezone(Utc) keeps the instant; naive_local = instant + offset; to_rfc3339_opts(Secs) truncates to whole seconds; validated natively on sampled instants/offsets'],
 'obligations':[
   {'name':'expiry_top','module':'harness.C06','cls':'Expiry','quick':{},'thorough':{},'validate':{'quick':2,'thorough':2}},
   {'name':'expiry_sub','module':'harness.C06','cls':'Expiry','quick':{'sub':True},'thorough':{'sub':True},'validate':{'quick':3,'thorough':3}},
   {'name':'expiry_second_call','module':'harness.C06','cls':'ExpirySecondCall','quick':{},'thorough':{},'validate':{'quick':2,'thorough':2}},
   {'name':'expiry_through_constructors','module':'harness.C06','cls':'ExpiryThroughConstructors','quick':{},'thorough':{},'validate':{'quick':6,'thorough':6}},
   {'name':'parse_datetime','module':'harness.C06','cls':'ParseInstant','quick':{},'thorough':{},'validate':{'quick':2,'thorough':2}},
 ]}

PROPS['C07']={
 'bounds_statement':'in_toto_verify from MIR: one step, any u32 threshold, 2 (quick) / 3 (thorough) authorized links whose materials/products are arbitrary subsets of a small path universe with free digest bytes, free signature validity, every hash-map order; plus 3 (quick) / 4 (thorough) links over a one-path universe (more links than the threshold needs, the dissenter anywhere in key-id order).',
 'assumptions':PIPE_ASSUME,
 'obligations':[{'name':'agreement','module':'harness.C07','cls':'Agreement','quick':{'nlinks':2},'thorough':{'nlinks':2}},
                {'name':'agreement_3links_plain','module':'harness.C07','cls':'Agreement','tier_only':'thorough','quick':{},'thorough':{'nlinks':3,'plain':True}},
                {'name':'agreement_3links_small','module':'harness.C07','cls':'Agreement','quick':{'nlinks':3,'small':True},'thorough':{'nlinks':4,'small':True}}]}

PROPS['C13']={
 'bounds_statement':'self-composition of in_toto_verify from MIR (reference run in insertion order vs. every permutation of every hash map) over 1-2 steps with 2-3 links per step that may differ, any u32 thresholds, free signature validity; plus the rule engine on two-algorithm digest tables under every HashMap iteration order (its verdict must equal the order-free reference model); links that report different artifact SETS; one key material known under two identifiers; and histories: the verdict on B after another verification, and after 1..40 (thorough 150) failed verifications of four kinds, equals the verdict in a fresh process.',
 'assumptions':PIPE_ASSUME+['directory enumeration order is not varied (glob returns paths sorted; stated, not checked)'],
 'obligations':[{'name':'determinism','module':'harness.C13','cls':'Determinism','quick':{'nlinks':2},'thorough':{'nlinks':3}},
                {'name':'determinism_3links','module':'harness.C13','cls':'Determinism','quick':{'nlinks':3,'all_valid':True,'rate':400},'thorough':{'nlinks':3,'all_valid':True,'rate':400}},
                {'name':'determinism_two_steps','module':'harness.C13','cls':'Determinism','tier_only':'thorough','quick':{},'thorough':{'nlinks':2,'two_steps':True}},
                {'name':'determinism_one_key_under_two_ids','module':'harness.C13','cls':'Determinism','quick':{'nlinks':2,'alias':True},'thorough':{'nlinks':2,'alias':True}},
                {'name':'history_independence','module':'harness.C13','cls':'HistoryIndependence','quick':{},'thorough':{}},
                {'name':'verdict_after_many_failed_verifications','module':'harness.C13','cls':'RepeatedFailures','quick':{'ns':[1,10,40]},'thorough':{'ns':[1,10,40,150]}},
                {'name':'determinism_duplicate_signatures','module':'harness.C13','cls':'Determinism','quick':{'nlinks':1,'nsig':2},'thorough':{'nlinks':2,'nsig':2}},
                {'name':'rule_engine_digest_tables','module':'harness.C03','cls':'Rules','quick':{'group':'algs','rate':4},'thorough':{'group':'algs','rate':2}}]}

PROPS['C15']={
 'bounds_statement':'in_toto_verify from MIR with the recursive call executed for real (depth 2): sub-layout filed under an authorized / unauthorized key, 1-2 sub-layout signatures with free validity, expired or not, inner links present/absent in the dedicated sub-directory with free validity, decoys in the parent directory; summary compared field by field; and a step with two functionaries filing the same sub-layout, each copy checked against its own sub-directory; decoy links in the parent directory, in a sibling-looking directory and in a directory whose name extends the dedicated one; and one layout document verified both as a top-level layout and as a sub-layout (sound, or with one of 7 defects): the verdicts agree.',
 'assumptions':PIPE_ASSUME,
 'obligations':[{'name':'sublayout','module':'harness.C15','cls':'Sublayout','quick':{'inner_steps':3},'thorough':{'inner_steps':3}},
                {'name':'two_functionaries','module':'harness.C15','cls':'SublayoutTwoFunctionaries','quick':{},'thorough':{}},
                {'name':'as_strict_as_top_level','module':'harness.C15','cls':'SublayoutAsStrictAsTopLevel','quick':{},'thorough':{}}]}

PROPS['C08']={
 'bounds_statement':'in_toto_verify from MIR with a ghost event log behind the two side-effecting calls (in_toto_run, fs::write): every combination of stage failures (owner signature, expiry, missing / badly signed link, failing step rule) x inspection outcomes (spawn error, any i32 exit status, products, inspection rules) within the shape bound; also after an earlier verification of the same process failed inside a sub-layout, and with two inspections sharing one name.',
 'assumptions':PIPE_ASSUME+['the inspection subprocess and the files it touches are outside the claim; the stub returns what runlib documents: Err or a link with Some(exit status)'],
 'obligations':[{'name':'inspections','module':'harness.C08','cls':'Inspections','quick':{'ninsp':1},'thorough':{'ninsp':2}},
                {'name':'inspections_after_two_steps','module':'harness.C08','cls':'Inspections','quick':{'ninsp':1,'two_steps':True},'thorough':{'ninsp':2,'two_steps':True}},
                {'name':'inspections_after_a_failed_verification','module':'harness.C08','cls':'Inspections','quick':{'ninsp':1,'history':True},'thorough':{'ninsp':1,'history':True}},
                {'name':'inspections_sharing_a_name','module':'harness.C08','cls':'InspectionsSharingAName','quick':{},'thorough':{}},
                {'name':'sublayout_inspection','module':'harness.C08','cls':'SublayoutInspection','quick':{},'thorough':{}}]}

UNIT_ASSUME=['std/dependency calls replaced by the listed models (coverage.trusted_base); every run replays sampled paths natively against the real crate and compares outcomes',
             'dev-profile arithmetic (overflow checks on): an overflow is a panic; the release profile wraps instead']
PROPS['C20']={
 'bounds_statement':'PaeV1::pae_pack / pae_unpack / consume_load_len from MIR: every type string (<= 3 bytes) and payload (<= 4 bytes) for the round trip, plus lengths 9, 10, 11, 99, 100, 101 (thorough: up to 10000) with two free bytes each; two independent pairs for injectivity; every input of "DSSEv1 " + <= 8 bytes, every <= 8-byte input without the prefix, and inputs whose length field is usize::MAX, for totality of decoding.',
 'assumptions':UNIT_ASSUME+['format!/Display of usize and str modelled precisely from the format_args! byte-code; str::parse::<usize> modelled (optional +, digits, overflow)'],
 'obligations':[
  {'name':'roundtrip','module':'harness.C20','cls':'RoundTrip','quick':{'max_t':3,'max_p':4},'thorough':{'max_t':5,'max_p':6}},
  {'name':'roundtrip_long','module':'harness.C20','cls':'RoundTrip','quick':{'lens':[9,10,11,99,100,101]},'thorough':{'lens':[9,10,11,99,100,101,999,1000,1001,9999,10000]}},
  {'name':'injective','module':'harness.C20','cls':'Injective','quick':{'max_t':2,'max_p':3},'thorough':{'max_t':3,'max_p':4}},
  {'name':'unpack_prefix','module':'harness.C20','cls':'UnpackTotal','quick':{'n':6,'shape':'prefix'},'thorough':{'n':9,'shape':'prefix'}},
  {'name':'unpack_free','module':'harness.C20','cls':'UnpackTotal','quick':{'n':7,'shape':'free'},'thorough':{'n':8,'shape':'free'}},
  {'name':'unpack_maxlen','module':'harness.C20','cls':'UnpackTotal','quick':{'n':2,'shape':'maxlen'},'thorough':{'n':3,'shape':'maxlen'}},
  {'name':'unpack_maxlen2','module':'harness.C20','cls':'UnpackTotal','quick':{'n':2,'shape':'maxlen2'},'thorough':{'n':3,'shape':'maxlen2'}},
 ]}

HOOK_COMMITS=['5414ff1','7156184']

PROPS['C03']={
 'bounds_statement':'rulelib::apply_rules_on_link from MIR vs. an independent reference model of the specification\'s queue algorithm (oracles/rules.py): every rule of a catalog (all seven kinds; literal, *, directory, ?, class and uninterpretable patterns; source/destination prefixes with and without trailing slash; missing referenced step) followed by a revealing tail rule, over every presence pattern of a 3-path universe with free digest bytes; sequences of two catalog rules in the thorough tier (on a 2-path universe).',
 'assumptions':UNIT_ASSUME+['glob::Pattern::{new,matches} modelled for the portable subset (*, **, ?, classes; * and ? match "/", as with the crate\'s default MatchOptions); path_clean::clean modelled (Plan 9 cleanname)',
                            'reference model = in-toto specification v0.9 section 4.3.3 / reference implementation verify_item_rules, fnmatch-style matching'],
 'obligations':[
  {'name':'basic','module':'harness.C03','cls':'Rules','quick':{'group':'basic','seq':1},'thorough':{'group':'basic','seq':1,'algs':True}},
  {'name':'match','module':'harness.C03','cls':'Rules','quick':{'group':'match','seq':1},'thorough':{'group':'match','seq':1}},
  {'name':'match_pairs','module':'harness.C03','cls':'Rules','quick':{'group':'pairs'},'thorough':{'group':'pairs'}},
  {'name':'both_sides','module':'harness.C03','cls':'Rules','quick':{'group':'both','rate':20},'thorough':{'group':'both','rate':10}},
  {'name':'match_algorithms','module':'harness.C03','cls':'Rules','quick':{'group':'algs','rate':4},'thorough':{'group':'algs','rate':2}},
  {'name':'inspection_item','module':'harness.C03','cls':'Rules','quick':{'group':'match','seq':1,'item':'inspection','rate':200},'thorough':{'group':'basic','seq':1,'item':'inspection'}},
  {'name':'basic_seq2','module':'harness.C03','cls':'Rules','tier_only':'thorough','quick':{},'thorough':{'group':'basic','seq':2,'rate':2000,'small':True}},
  {'name':'match_seq2','module':'harness.C03','cls':'Rules','tier_only':'thorough','quick':{},'thorough':{'group':'match','seq':2,'rate':2000,'small':True}},
 ]}

PROPS['C10']={
 'bounds_statement':'cjson::canonicalize / convert / Value::write from MIR on serde_json::Value trees of bounded shape with symbolic leaves (string/key bytes, u64/i64 numbers, booleans); the output is parsed by an independent strict RFC 8259 reader and compared with the input; any Float must be rejected.',
 'assumptions':UNIT_ASSUME+['serde_json::to_string on a string modelled from serde_json\'s documented escaping (short escapes, \\u00XX for other controls, everything else verbatim)','itoa modelled relationally (digits d_i with sum d_i*10^i = n, no leading zero); serde_json::Number::{as_i64,as_u64} and Map iteration (BTreeMap order) modelled',
                            'text -> Value (serde_json parser: whitespace, escape spellings, duplicate members) is outside the claim'],
 'obligations':[{'name':'canonicalize','module':'harness.C10','cls':'Canon','quick':{'maxlen':2},'thorough':{'maxlen':3}}]}

SIGNED_ASSUME=UNIT_ASSUME+['serde Serializer data model: the crate\'s Serialize impls (hand-written and derived) run from MIR against a Python model of serde_json::value::Serializer; serde_json::to_string (string escaping), itoa and data_encoding::HEXLOWER are modelled',
  'PublicKey::verify / PrivateKey::sign are stubs that capture the bytes they are given (the primitives are outside the claim)',
  'native validation: ed25519 is deterministic, so the library signature equals a direct ring signature over the interpreter\'s bytes iff the library signed exactly those bytes']
PROPS['C05']={
 'bounds_statement':'the bytes handed to the signature primitive by Metablock::verify, for a link and a layout of fixed small shape with one free string field at a time (0..2 ASCII bytes incl. all controls, quote, backslash; non-ASCII samples), free digests, free u32 threshold / i32 return value: reading them back (undo newline substitution, independent RFC 8259 reader) yields exactly the reference wire tree of the metadata, i.e. every observable field is recoverable, hence distinct metadata have distinct signed bytes. Injectivity of canonical JSON on arbitrary values is C10.',
 'assumptions':SIGNED_ASSUME+['expiry text is produced by chrono (dependency); C06 relates text and instant'],
 'obligations':[{'name':'link','module':'harness.signed','cls':'SignedBytes','quick':{'what':'link','prop':'C05','nbytes':2},'thorough':{'what':'link','prop':'C05','nbytes':3}},
                {'name':'layout','module':'harness.signed','cls':'SignedBytes','quick':{'what':'layout','prop':'C05','nbytes':2},'thorough':{'what':'layout','prop':'C05','nbytes':3}}]}
PROPS['C11']={
 'bounds_statement':'same captured bytes as C05, read by an OLPC canonical JSON reader (only \\" and \\\\ are escapes) and compared with the reference wire tree; plus the bytes hashed into key identifiers: every construction path of ed25519 / ECDSA / RSA keys with six hash-algorithm lists (default, absent, single, unsorted, repeated, empty) hashes exactly the reference canonical description of the key.',
 'assumptions':SIGNED_ASSUME,
 'obligations':[{'name':'link','module':'harness.signed','cls':'SignedBytes','quick':{'what':'link','prop':'C11','nbytes':2},'thorough':{'what':'link','prop':'C11','nbytes':3}},
                {'name':'layout','module':'harness.signed','cls':'SignedBytes','quick':{'what':'layout','prop':'C11','nbytes':2},'thorough':{'what':'layout','prop':'C11','nbytes':3}},
                {'name':'key_id_preimage','module':'harness.C12','cls':'KeyIds','quick':{},'thorough':{},'validate':{'quick':30,'thorough':30}}]}
PROPS['C09']={
 'bounds_statement':'decided part: (a) Metablock::new, MetablockBuilder::sign and Metablock::verify hand byte-identical strings to the sign / verify primitives for the same link or layout (free string field incl. newline, backslash, quote, controls; free numbers); (b) the signed block produced by Metablock::new, serialised (Serializer model), decoded again on the borrowed-text and tree channels (Deserializer model) and verified, hands the verify primitive exactly the bytes that were signed; (c) Metablock::verify with threshold 1 accepts a signature of every length the signer of each supported scheme can emit, made by the one authorized key over exactly these bytes (key and signature bytes free; the verifier of ring idealised); together with C04 (threshold counting under the ideal-signature oracle) this gives: what the library signs verifies again after the wire trip. NOT decided here: the JSON tokenizer (serde_json text layer, compact vs pretty - exercised by the native replay only) and the behaviour of the real primitives under bit flips / cross-scheme use (ring, FFI) - these are exercised only by the native replay samples.',
 'assumptions':SIGNED_ASSUME,
 'obligations':[{'name':'link','module':'harness.signed','cls':'SignedBytes','quick':{'what':'link','prop':'C09','nbytes':2},'thorough':{'what':'link','prop':'C09','nbytes':3}},
                {'name':'layout','module':'harness.signed','cls':'SignedBytes','quick':{'what':'layout','prop':'C09','nbytes':1},'thorough':{'what':'layout','prop':'C09','nbytes':2}},
                {'name':'wire_trip_link','module':'harness.signed','cls':'SignedBytes','quick':{'what':'link','prop':'C09','nbytes':1,'wire':True},'thorough':{'what':'link','prop':'C09','nbytes':2,'wire':True}},
                {'name':'wire_trip_layout','module':'harness.signed','cls':'SignedBytes','quick':{'what':'layout','prop':'C09','nbytes':1,'wire':True},'thorough':{'what':'layout','prop':'C09','nbytes':1,'wire':True}},
                {'name':'genuine_signature_of_every_scheme_and_length','module':'harness.C04','cls':'GenuineSignature','quick':{'prop':'C09'},'thorough':{'prop':'C09'}}]}

ADV_TYPES=['rule','rule_short','step','inspection','pubkey','signature','byproducts','link','layout','metablock_link','metablock_layout','predicate_slsa1','predicate_slsa2','predicate_link','statement_link','statement_slsa1','statement_naive']
PROPS['C14']={
 'bounds_statement':'panic-freedom obligations, each on the real MIR: link files with arbitrary 64-byte UTF-8 signature key ids through the directory scan (match_signatures / KeyId::prefix); the rule engine on non-normalised paths; PAE decoding of arbitrary short inputs and of inputs whose length field is usize::MAX; key importers on non-keys with pem / ring constructors stubbed as "may fail"; the whole verification pipeline on adversarial but well-typed metadata is covered by the panic checks inside C01/C02/C07/C08/C13/C15 (every panic path there is reported as a violation).',
 'assumptions':PIPE_ASSUME+UNIT_ASSUME+['out of reach: the JSON text parsers (serde_json) on arbitrary bytes, derive-generated visitors, stack exhaustion, allocation failure; non-termination is excluded structurally (all loops run over finite collections), not solved'],
 'obligations':[
  {'name':'keyid_prefix','module':'harness.C14','cls':'KeyIdPrefix','quick':{},'thorough':{},'validate':{'quick':4,'thorough':8}},
  {'name':'link_file_names','module':'harness.C14','cls':'LinkFileNames','quick':{},'thorough':{},'validate':{'quick':8,'thorough':24}},
  {'name':'rules_non_normal','module':'harness.C14','cls':'RulesNonNormal','quick':{},'thorough':{}},
  {'name':'rules_match_prefix_edges','module':'harness.C14','cls':'RulesMatchPrefixEdges','quick':{},'thorough':{},'validate':{'quick':8,'thorough':24}},
  {'name':'rules_long_paths','module':'harness.C14','cls':'RulesLongPaths','quick':{'lens':[255,4097]},'thorough':{'lens':[255,4000,4097,70000]},'validate':{'quick':6,'thorough':16}},
  {'name':'rules_many_patterns','module':'harness.C14','cls':'RulesManyPatterns','quick':{'counts':[200]},'thorough':{'counts':[200,1100]},'validate':{'quick':6,'thorough':12}},
  {'name':'importers','module':'harness.C14','cls':'Importers','quick':{},'thorough':{}},
  {'name':'pae_prefix','module':'harness.C20','cls':'UnpackTotal','quick':{'n':6,'shape':'prefix'},'thorough':{'n':9,'shape':'prefix'}},
  {'name':'pae_free','module':'harness.C20','cls':'UnpackTotal','quick':{'n':7,'shape':'free'},'thorough':{'n':8,'shape':'free'}},
  {'name':'pae_maxlen','module':'harness.C20','cls':'UnpackTotal','quick':{'n':2,'shape':'maxlen'},'thorough':{'n':3,'shape':'maxlen'}},
  {'name':'pae_maxlen2','module':'harness.C20','cls':'UnpackTotal','quick':{'n':2,'shape':'maxlen2'},'thorough':{'n':3,'shape':'maxlen2'}},
 ]+[{'name':'decode_'+w,'module':'harness.C14','cls':'DecodeAdversarial','quick':{'what':w,'nbytes':1},'thorough':{'what':w,'nbytes':2},'validate':{'quick':8,'thorough':40},**({'tier_only':'thorough'} if w in ('layout','statement_naive') else {})} for w in ADV_TYPES]}

WIRE_ASSUME=UNIT_ASSUME+['serde data models: Serializer (Python model of serde_json::value::Serializer) and Deserializer (one model of serde_json\'s from_str/from_slice/from_reader/from_value over a Value tree plus a channel tag; a borrowed &str request succeeds only for an unescaped string of from_str/from_slice; owned String requests always succeed); the crate\'s Serialize/Deserialize impls and derive-generated visitors (incl. flatten, untagged, deserialize_with) run from MIR against them',
  'the JSON text layer itself (tokenizer, whitespace, number syntax, recursion limit) is serde_json\'s and outside the claim; native replay runs every sample through the real from_str / escaped text / from_reader / from_value / from_slice / pretty text']
WIRE_RATE={'keyid':1,'keytype':1,'pubkey':1,'signature':1,'hashvalue':1,'command':2,'vpath':2,'metablock':2,'wrapper':2}
WIRE_TYPES_Q=['rule','command','vpath','keyid','keytype','hashvalue','byproducts','step','inspection','signature','pubkey','link','layout','metablock','wrapper']
PROPS['C17']={
 'bounds_statement':'for every wire type of the crate (rule, command, path, key id/type, hash value, byproducts incl. the flattened map, step, inspection, signature, public key, link, layout, signed block, untagged wrapper): the serialised form of a value with free string/number leaves is decoded on four channels (borrowed text, escaped text, reader, tree); acceptance and value must coincide.',
 'assumptions':WIRE_ASSUME,
 'obligations':[{'name':w,'module':'harness.wire','cls':'RoundTrip','quick':{'what':w,'prop':'C17','nbytes':1,'rate':WIRE_RATE.get(w,10)},'thorough':{'what':w,'prop':'C17','nbytes':2,'rate':WIRE_RATE.get(w,10)},'validate':{'quick':6,'thorough':24}} for w in WIRE_TYPES_Q]}
PROPS['C17']['obligations']+=[{'name':'adversarial_'+w,'module':'harness.C14','cls':'DecodeAdversarial','quick':{'what':w,'nbytes':1,'prop':'C17'},'thorough':{'what':w,'nbytes':2,'prop':'C17'},'validate':{'quick':6,'thorough':24},
   **({'tier_only':'thorough'} if w in ('layout','statement_naive','metablock_layout','statement_slsa1','predicate_slsa2') else {})} for w in ADV_TYPES]
PROPS['C17']['obligations']+=[{'name':'text_whitespace','module':'harness.wire','cls':'TextWhitespace','quick':{},'thorough':{},'validate':{'quick':4,'thorough':4}}]
PROPS['C17']['obligations']+=[{'name':'interchange_entry_points','module':'harness.wire','cls':'EntryPoints','quick':{},'thorough':{},'validate':{'quick':8,'thorough':8}}]
MO_TYPES=['link','metablock_link','layout','pubkey','byproducts','statement_link','statement_slsa1','predicate_slsa1','step']
PROPS['C17']['obligations']+=[{'name':'member_order_'+w,'module':'harness.C14','cls':'MemberOrder','quick':{'what':w},'thorough':{'what':w},'validate':{'quick':8,'thorough':24},
   **({'tier_only':'thorough'} if w in ('layout','statement_slsa1','predicate_slsa1','step') else {})} for w in MO_TYPES]
PROPS['C17']['bounds_statement']+='  Member order: one object of a valid document written with its members reversed / rotated / with one member doubled into two members whose keys differ in one free byte; the text channels see the document order, the tree channel the key order of serde_json::Map; they must agree.'
PROPS['C17']['bounds_statement']+='  White space: MetadataWrapper::try_from_bytes from MIR on eight white-space spellings of one document (through the serde_json text-layer model).  The crate-level entry points (Json::from_reader / from_slice / deserialize) on valid documents, documents with a member missing, with trailing bytes, and with a member written twice.'
PROPS['C17']['bounds_statement']+='  Also documents that are NOT the output of the serialiser: every single-node mutation of a valid document of each type (see C14 decode obligations) must be accepted or rejected alike on all four channels and decode to equal values.'
PROPS['C16']={
 'bounds_statement':'same pipeline as C17, asserting serialise -> parse = identity (value equality through the crate\'s own PartialEq-equivalent structure) for every wire type incl. every rule form with keyword-like operands (IN, WITH, FROM, MATCH, trailing-slash prefixes), optional fields present/absent, empty collections, key table self-consistency; byte-identical re-serialisation follows from value equality because serialisation is a function of the value.',
 'assumptions':WIRE_ASSUME+['Unicode beyond ASCII in free strings is covered by fixed samples only; the text writers (to_writer / to_writer_pretty / to_vec) are models: a Value argument is a key-ordered tree, any other value is written in the order its Serialize impl emits'],
 'obligations':[{'name':w,'module':'harness.wire','cls':'RoundTrip','quick':{'what':w,'prop':'C16','nbytes':1,'rate':WIRE_RATE.get(w,10)},'thorough':{'what':w,'prop':'C16','nbytes':2,'rate':WIRE_RATE.get(w,10)},'validate':{'quick':6,'thorough':24}} for w in WIRE_TYPES_Q]}

PROPS['C16']['obligations']+=[{'name':'writers_deterministic','module':'harness.wire','cls':'WritersDeterministic','quick':{},'thorough':{},'validate':{'quick':2,'thorough':2}}]
PROPS['C16']['bounds_statement']+='  Also: Json::to_writer and JsonPretty::to_writer write the same bytes for one link under every hash-map iteration order.'
PROPS['C19']={
 'bounds_statement':'(1) Statement v0.1 documents declaring each known / an unknown predicate type around predicate documents of each format, hybrids and the empty object (free leaves), parsed by the version-detecting StatementWrapper from MIR: acceptance implies the declared type names the recognised format, and no predicate document is accepted by two formats; (2) every predicate / statement value of bounded shape (LinkV02, SLSA v0.1 with timestamps in Z and +01:00 notation, SLSA v0.2; Naive and v0.1 statements) serialises to a form that parses back to an equal value on every channel; (3) from_meta / merge carry all link fields over.',
 'assumptions':WIRE_ASSUME+['chrono text <-> instant through the ghost-string model (C06); strum\'s EnumIter-generated iterators run from MIR'],
 'obligations':[
   {'name':'statement_consistency','module':'harness.C19','cls':'StatementConsistency','quick':{},'thorough':{},'validate':{'quick':8,'thorough':24}},
   {'name':'statement_hybrids','module':'harness.C19','cls':'StatementHybrids','quick':{},'thorough':{},'validate':{'quick':18,'thorough':18}},
   {'name':'roundtrip_predicate','module':'harness.C19','cls':'WireC19','quick':{'what':'predicate','nbytes':1},'thorough':{'what':'predicate','nbytes':2},'validate':{'quick':8,'thorough':24}},
   {'name':'roundtrip_statement','module':'harness.C19','cls':'WireC19','quick':{'what':'statement','nbytes':1},'thorough':{'what':'statement','nbytes':2},'validate':{'quick':8,'thorough':24}},
   {'name':'from_meta','module':'harness.C19','cls':'FromMeta','quick':{},'thorough':{}},
 ]}

PROPS['C18']={
 'bounds_statement':'decidable part only: record_artifacts / record_artifact / dir_entry_to_path / apply_left_strip / calculate_hashes / in_toto_run from MIR over a ghost file system (2-3 regular files with free contents, optionally a symbolic link to a file with a relative / absolute / dot-dot target or a chain of two links; in a second obligation links to DIRECTORIES (relative, through .., absolute, cycles, dangling) with non-normalised path arguments over a ghost model of walkdir; in_toto_run on a tree that the (ghost) command changes, with free modification times; 1-2 path arguments, four strip-prefix lists, four algorithm lists, every chunking of every read, one optional read failure): exactly one entry per regular file keyed by the path minus the longest strip prefix, digests computed over exactly the file bytes once and in order, duplicate keys and unknown algorithms are errors; in_toto_run records materials before and products after the command and builds the link from exactly those results.',
 'assumptions':UNIT_ASSUME+['NOT decided (system calls / FFI, no encoding within reach): the real directory walk (walkdir is replaced by a ghost model: entries in name order, loop and I/O errors as documented; validated natively on every run), the real directory order, true SHA-2 digests (ring), the subprocess; the ghost walker yields directories before their entries and entries in name order',
                            'ring::digest modelled as an injective function of exactly the bytes fed (concrete inputs use the real SHA-2)'],
 'obligations':[
   {'name':'apply_left_strip','module':'harness.C18','cls':'LeftStrip','quick':{'plen':3,'nprefix':2},'thorough':{'plen':4,'nprefix':3}},
   {'name':'record_artifacts','module':'harness.C18','cls':'Record','quick':{'flen':2,'nlinks':3},'thorough':{'flen':2,'nlinks':6},'validate':{'quick':12,'thorough':48}},
   {'name':'record_artifacts_linked_directories','module':'harness.C18','cls':'RecordLinkedDirectories','quick':{},'thorough':{},'validate':{'quick':64,'thorough':400}},
   {'name':'in_toto_run_sequencing','module':'harness.C18','cls':'RunSequencing','quick':{},'thorough':{}},
   {'name':'in_toto_run_on_a_changing_tree','module':'harness.C18','cls':'RunOnGhostFS','quick':{},'thorough':{}},
 ]}

PROPS['C12']={
 'bounds_statement':'(a,b) PublicKey::new / from_ed25519 / from_spki / from_pem_spki from MIR (incl. shim_public_key, the Serialize impls, canonical JSON, write_spki through the DER writer model, PEM) for ed25519 (3 free key bytes), ECDSA P-256 (2 free bytes) and the RSA fixture, three hash-algorithm lists: every path hashes exactly the reference canonical description; (c) from_spki / as_spki on the RFC 8410, RFC 3279 and RFC 5480 SubjectPublicKeyInfo templates with free key bytes, plus an ed25519 template with 6 free DER header bytes (panic-freedom); (d) Layout::try_into on every way of filing two keys under own / other / unrelated identifiers; (e) key documents and layout key tables decoded from JSON with every kind of caller-chosen `keyid` member: the identifier of a decoded key is its intrinsic one, a table never aliases; (f) the RSA public key derived from a PKCS#8 private-key document (3-byte modulus, 1..4-byte exponent, with and without DER sign octets) is RSAPublicKey{n,e} with the integers of the document.',
 'assumptions':UNIT_ASSUME+SIGNED_ASSUME[:1]+['untrusted / derp (DER reader and writer) modelled from derp 0.0.15\'s source; pem encode/parse modelled for concrete bytes (base64 of symbolic bytes is out of reach, hence RSA is decided on the fixture key only); SHA-256 is an injective function of its input (concrete inputs use the real SHA-256)',
                 'JSON text round trip of keys is C16/C17 (wire_pubkey)'],
 'obligations':[
   {'name':'key_id','module':'harness.C12','cls':'KeyIds','quick':{},'thorough':{},'validate':{'quick':30,'thorough':30}},
   {'name':'spki','module':'harness.C12','cls':'Spki','quick':{},'thorough':{},'validate':{'quick':4,'thorough':4}},
   {'name':'key_table','module':'harness.C12','cls':'KeyTable','quick':{},'thorough':{},'validate':{'quick':6,'thorough':6}},
   {'name':'key_json','module':'harness.C12','cls':'KeyJson','quick':{},'thorough':{},'validate':{'quick':12,'thorough':40}},
   {'name':'rsa_pkcs8','module':'harness.C12','cls':'RsaPkcs8','quick':{},'thorough':{},'validate':{'quick':8,'thorough':16}},
 ]}
