"""C19 - attestation statements and predicates are self-consistent and round-trip."""
import z3
from mirsym.values import *
from mirsym.runner import Obligation
from mirsym.build import B, model_value
from mirsym.models import val_eq, b_and, clone_val
from mirsym import models_serde as ms, models_de as md
from mirsym.models_json import jnull,jbool,jnum,jstr,jarr,jobj
from .common import outcome_of, is_sample
from .wire import RoundTrip, json_py, CHANNELS

VERS=['LinkV0_2','SLSAProvenanceV0_1','SLSAProvenanceV0_2']
URIS={'LinkV0_2':'https://in-toto.io/Link/v0.2','SLSAProvenanceV0_1':'https://slsa.dev/provenance/v0.1','SLSAProvenanceV0_2':'https://slsa.dev/provenance/v0.2'}

class WireC19(RoundTrip):
    def __init__(self,**kw):
        kw['prop']='C16'          # round-trip semantics (serialise -> parse = identity), reported under C19
        RoundTrip.__init__(self,**kw); self.name='C19.roundtrip_'+self.what

class StatementConsistency(Obligation):
    """a Statement v0.1 document that declares predicate type P and carries a predicate document of format X (all 3x3
    combinations, free leaves, hybrid predicate documents): acceptance implies that P names the format the predicate was
    recognised as, and every accepted predicate document is accepted by exactly one format."""
    name='C19.statement_consistency'
    hash_order='fixed'
    def __init__(self,seed=0,known=(),rate=6,**kw):
        self.seed=seed; self.rate=rate
        self.bounds={'statement':'_type fixed to the v0.1 URI, subject with one product (free digest)','declared predicateType':'each of the three known URIs, and one unknown URI',
                     'predicate document':'minimal and non-minimal documents of each of the three formats with free string leaves, plus hybrids (union of members of two formats, empty object)','history':'nothing / a valid v0.1 statement / a valid naive statement parsed earlier in the same process'}
        self.witnesses=['accepted_consistent','rejected']; self.seen=set()
    def setup(self,eng,tier):
        self.eng=eng; self.b=B(eng); self.from_value=eng.find_method(None,'PredicateWrapper','from_value')
    def entry(self,eng):
        def go(run,args):
            doc,pdoc=args
            # history: another (valid) statement may have been parsed earlier in the process; nothing remembered from it may change the verdict
            h=run.ghost.get('stmt_history')
            if h is not None:
                try: md.de_type(eng,run,'StatementWrapper',clone_val(h),'tree')
                except md.DeFail: pass
            try: st=('ok',md.de_type(eng,run,'StatementWrapper',clone_val(doc),'tree'))
            except md.DeFail as d: st=('err',None)
            acc=[]
            for v in VERS:
                r=eng.call_fn(run,self.from_value,[clone_val(pdoc),self.b.variant('PredicateVer',v)])
                acc.append(r.vname=='Ok')
            return st,acc
        return go
    def pdocs(self,run):
        s=lambda n,d: jstr(StringO([z3.BitVec('%s_%d'%(n,0),8)])) if run.pick(2,'sym_'+n) else jstr(d)
        bp=jobj([('return-value',jnum('PosInt',Int(64,False,0))),('stderr',jstr('')),('stdout',jstr(''))])
        link=[('name',s('name','n')),('materials',jobj([])),('env',jnull()),('command',jarr([])),('byproducts',bp)]
        s1=[('builder',jobj([('id',s('bid','b'))]))]
        s2=[('builder',jobj([('id',jstr('b'))])),('buildType',s('bt','t'))]
        k=run.pick(8,'pdoc')
        docs=[('LinkV0_2',link),('SLSAProvenanceV0_1',s1),('SLSAProvenanceV0_2',s2),('SLSAProvenanceV0_1',s1+[('materials',jarr([]))]),
              (None,link+s1),(None,s1+s2[1:]+[('name',jstr('n'))]),(None,[]),('SLSAProvenanceV0_2',s2+[('metadata',jobj([('reproducible',jbool(Bool(z3.Bool('rep'))))]))])]
        fmt,members=docs[k]
        for kk,vv in members:
            pass
        return fmt,jobj(members)
    def mk_args(self,run):
        fmt,pdoc=self.pdocs(run)
        pk=run.pick(4,'ptype')
        puri=URIS[VERS[pk]] if pk<3 else 'https://example.com/unknown'
        doc=jobj([('_type',jstr('https://in-toto.io/Statement/v0.1')),('subject',jobj([('p',jobj([('sha256',jstr('0a'))]))])),('predicateType',jstr(puri)),('predicate',clone_val(pdoc))])
        hk=run.pick(3,'history')
        bp=jobj([('return-value',jnum('PosInt',Int(64,False,0))),('stderr',jstr('')),('stdout',jstr(''))])
        linkp=jobj([('name',jstr('n')),('materials',jobj([])),('env',jnull()),('command',jarr([])),('byproducts',bp)])
        valid_v01=jobj([('_type',jstr('https://in-toto.io/Statement/v0.1')),('subject',jobj([])),('predicateType',jstr(URIS['LinkV0_2'])),('predicate',linkp)])
        valid_naive=jobj([('_type',jstr('link')),('name',jstr('n')),('materials',jobj([])),('products',jobj([])),('env',jnull()),('command',jarr([])),('byproducts',bp)])
        run.ghost['stmt_history']=[None,valid_v01,valid_naive][hk]
        return (doc,pdoc),{'doc':doc,'pdoc':pdoc,'fmt':fmt,'declared':VERS[pk] if pk<3 else None,'history':[None,valid_v01,valid_naive][hk]}
    def check(self,run,out,g):
        rec={'outcome':'?','viol':None,'wit':[],'sample':None,'obl':1}
        if out[0]!='ret':
            rec['outcome']='panic'; rec['viol']={'kind':'panic','known_key':None,'scenario':None,'predicted':'panic','what':'statement parsing panics: '+str(out[1])}; return rec
        (st,val),acc=out[1]
        rec['outcome']=st
        r,m=run.check_sat(z3.BoolVal(True))
        scn={'kind':'statement','doc':json_py(g['doc'],m),'pdoc':json_py(g['pdoc'],m)}
        if g.get('history') is not None: scn['parsed_before']=json_py(g['history'],m)
        nacc=sum(acc)
        if nacc>1:
            rec['viol']={'kind':'predicate_matches_several_formats','known_key':None,'scenario':scn,'predicted':'accepted_by:%d'%nacc,'what':'a predicate document is accepted by %d format versions'%nacc}; return rec
        if st=='ok':
            state=val.f[0]
            declared=deref(self.b.get(state,'predicate_type')).vname
            actual=deref(self.b.get(state,'predicate')).vname
            if declared!=actual:
                rec['viol']={'kind':'declared_predicate_type_differs_from_content','known_key':None,'scenario':scn,'predicted':'ok:declared=%s,actual=%s'%(declared,actual),'what':'a statement is accepted whose predicateType (%s) does not name the format of the predicate it contains (%s)'%(declared,actual)}; return rec
            if 'accepted_consistent' not in self.seen: self.seen.add('accepted_consistent'); rec['wit'].append('accepted_consistent')
            rec['sample']={'scenario':scn,'expect':'ok:declared=%s,actual=%s'%(declared,actual)}
        else:
            if 'rejected' not in self.seen: self.seen.add('rejected'); rec['wit'].append('rejected')
            if is_sample(run,self.seed,self.rate): rec['sample']={'scenario':scn,'expect':'err'}
        return rec

class FromMeta(Obligation):
    """StatementWrapper::from_meta / StateNaive::merge / StateV01::merge carry the link's fields over unchanged"""
    name='C19.from_meta'
    hash_order='fixed'
    def __init__(self,seed=0,known=(),**kw):
        self.seed=seed
        self.bounds={'link':'free name (<=2 bytes), one material and one product with free digests, environment absent/empty/one entry, one command argument, byproducts with free return value','statement version':'Naive (no predicate) and v0.1 (with a LinkV02 predicate)'}
        self.witnesses=['naive','v01']; self.seen=set()
    def setup(self,eng,tier):
        self.eng=eng; self.b=B(eng); self.fn=eng.find_method(None,'StatementWrapper','from_meta')
    def entry(self,eng): return self.fn
    def mk_args(self,run):
        b=self.b
        n=run.pick(3,'nlen'); name=StringO([z3.BitVec('n_%d'%i,8) for i in range(n)])
        env=[none(),some(b.btreemap([])),some(b.btreemap([(mk_string('K'),mk_string('V'))]))][run.pick(3,'env')]
        link=b.struct('LinkMetadata',name=name,materials=b.btreemap([(b.vpath('m'),b.target_description([z3.BitVec('dm',8)]))]),products=b.btreemap([(b.vpath('p'),b.target_description([z3.BitVec('dp',8)]))]),
                      env=env,byproducts=b.byproducts(Int(32,True,z3.BitVec('rv',32)),'o','e',[('x','y')]),command=b.command(['c']))
        ver=run.pick(2,'ver')
        keep=clone_val(link)
        if ver==0: return [link,none(),b.variant('StatementVer','Naive')],{'link':keep,'ver':'Naive','pred':None}
        pred=b.struct('LinkV02',name=mk_string('p'),materials=b.btreemap([]),env=none(),command=b.command([]),byproducts=b.byproducts(Int(32,True,0),'',''))
        return [link,some(Ref(Cell(pred))),b.variant('StatementVer','V0_1')],{'link':keep,'ver':'V0_1','pred':clone_val(pred)}
    def check(self,run,out,g):
        rec={'outcome':out[0],'viol':None,'wit':[],'sample':None,'obl':1}
        if out[0]!='ret':
            rec['viol']={'kind':'panic','known_key':None,'scenario':None,'predicted':'panic','what':'from_meta panics on a well-formed combination: '+str(out[1])}; return rec
        w=deref(out[1]); st=w.f[0]; b=self.b; L=g['link']
        if g['ver']=='Naive':
            conds=[w.vname=='Naive',val_eq(b.get(st,'typ'),mk_string('link'))]+[val_eq(b.get(st,f),b.get(L,f)) for f in ('name','materials','products','env','command','byproducts')]
        else:
            conds=[w.vname=='V0_1',val_eq(b.get(st,'typ'),mk_string('https://in-toto.io/Statement/v0.1')),val_eq(b.get(st,'subject'),b.get(L,'products')),
                   deref(b.get(st,'predicate_type')).vname=='LinkV0_2',deref(b.get(st,'predicate')).vname=='LinkV0_2',val_eq(deref(b.get(st,'predicate')).f[0],g['pred'])]
        cz=[z3.BoolVal(c) if isinstance(c,bool) else c.z() for c in conds]
        r,m=run.check_sat(z3.Not(z3.And(*cz)))
        if r==z3.sat:
            rec['viol']={'kind':'from_meta_alters_fields','known_key':None,'scenario':None,'predicted':'ok','what':'building a statement from link metadata does not carry the link\'s fields over unchanged'}; return rec
        k='naive' if g['ver']=='Naive' else 'v01'
        if k not in self.seen: self.seen.add(k); rec['wit'].append(k)
        return rec

class StatementHybrids(Obligation):
    """statement documents that mix the members of the two statement formats, or carry an unknown member, under each `_type`:
    a document is recognised as at most one statement version,
    and nothing of an accepted document is dropped on the way back out"""
    name='C19.statement_hybrids'
    hash_order='fixed'
    V01='https://in-toto.io/Statement/v0.1'
    def __init__(self,seed=0,known=(),**kw):
        self.seed=seed
        self.bounds={'documents':'pure Naive, pure v0.1 (Link v0.2 predicate), the union of both member sets, each pure form plus one unknown member, the empty object, and digest tables naming foreign hash algorithms (sha1, sha384, md5)','_type':['link',self.V01,'https://example.com/other'],
                     'leaves':'concrete (the free-leaf variants are in statement_consistency and the round-trip obligations)'}
        self.witnesses=['accepted_naive','accepted_v01','rejected_hybrid']; self.seen=set()
    def setup(self,eng,tier):
        self.eng=eng; self.b=B(eng); self.from_value=eng.find_method(None,'StatementWrapper','from_value')
    def docs(self):
        bp={'return-value':0,'stderr':'','stdout':''}
        naive={'name':'n','materials':{},'products':{'p':{'sha256':'0a'}},'env':None,'command':[],'byproducts':bp}
        pred={'name':'n','materials':{},'env':None,'command':[],'byproducts':bp}
        v01={'subject':{'p':{'sha256':'0a'}},'predicateType':'https://in-toto.io/Link/v0.2','predicate':pred}
        # digest tables naming an algorithm the crate does not know: if such a document is accepted it must also come back out
        naive_alg=dict(naive,materials={'m':{'sha1':'ab'}}); v01_alg=dict(v01,subject={'p':{'sha384':'0a','sha256':'0b'}})
        pred_alg=dict(v01,predicate=dict(pred,materials={'m':{'md5':'ab'}}))
        return [('naive',naive),('v01',v01),('hybrid',dict(naive,**v01)),('naive_plus_unknown',dict(naive,zz=1)),('v01_plus_unknown',dict(v01,zz=1)),('empty',{}),
                ('naive_foreign_digest_algorithm',naive_alg),('v01_foreign_digest_algorithm',v01_alg),('predicate_foreign_digest_algorithm',pred_alg)]
    def entry(self,eng):
        from .C14 import py_to_value
        def go(run,args):
            doc=args[0]; v=py_to_value(doc)
            try: st=('ok',md.de_type(eng,run,'StatementWrapper',clone_val(v),'tree'))
            except md.DeFail: st=('err',None)
            acc=[]
            for ver in ('Naive','V0_1'):
                r=eng.call_fn(run,self.from_value,[clone_val(v),self.b.variant('StatementVer',ver)])
                acc.append(deref(r).vname=='Ok')
            back=None
            if st[0]=='ok':
                from mirsym import models_serde as ms
                try: back=ms.ser_value(eng,run,st[1])
                except ms.SerError: back='ser_err'
            return st,acc,back,v
        return go
    def mk_args(self,run):
        docs=self.docs(); name,body=docs[run.pick(len(docs),'doc')]
        ty=['link',self.V01,'https://example.com/other'][run.pick(3,'type')]
        doc=dict(body); doc['_type']=ty
        return [doc],{'doc':doc,'name':name,'type':ty}
    def check(self,run,out,g):
        rec={'outcome':'?','viol':None,'wit':[],'sample':None,'obl':1}
        scn={'kind':'statement_doc','doc':g['doc']}
        if out[0]!='ret':
            rec['outcome']='panic'; rec['viol']={'kind':'panic','known_key':None,'scenario':scn,'predicted':'panic','what':'statement parsing panics: '+str(out[1])[:200]}; return rec
        (st,val),acc,back,v=out[1]
        rec['outcome']=st
        if st=='ok':
            variant=deref(val).vname
            pred='ok:'+variant
            if back=='ser_err':
                rec['viol']={'kind':'accepted_statement_cannot_be_serialised','known_key':None,'scenario':scn,'predicted':pred,'confirm':{'serialises':False},'what':'a statement document (%s) is accepted by the parser but the accepted value cannot be serialised again'%g['name']}; return rec
            same=back is not None and val_eq(back,v)
            same_b=bool(same.v) if (same is not False and same is not True and same.conc()) else bool(same) if isinstance(same,bool) else None
            if sum(acc)>1:
                rec['viol']={'kind':'statement_matches_several_versions','known_key':None,'scenario':scn,'predicted':pred,'confirm':{'reserialised_equal':False},'what':'a statement document (%s members, _type %s) is accepted under both statement versions'%(g['name'],g['type'])}; return rec
            # (the `_type` text itself is not compared with the recognised version: the crate keeps it as an opaque string, and the
            #  property speaks of the version a document is recognised as and of the declared *predicate* type - see DESIGN 10.5)
            if same_b is False:
                rec['viol']={'kind':'accepted_statement_loses_members','known_key':None,'scenario':scn,'predicted':pred,'confirm':{'reserialised_equal':False},'what':'an accepted statement document (%s members) does not serialise back to itself: members were silently dropped or altered'%g['name']}; return rec
            w='accepted_naive' if variant=='Naive' else 'accepted_v01'
            if w not in self.seen: self.seen.add(w); rec['wit'].append(w)
            rec['sample']={'scenario':scn,'expect':pred,'confirm':{'reserialised_equal':True}}
        else:
            if g['name']=='hybrid' and 'rejected_hybrid' not in self.seen: self.seen.add('rejected_hybrid'); rec['wit'].append('rejected_hybrid')
            rec['sample']={'scenario':scn,'expect':'err'}
        return rec
