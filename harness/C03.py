"""C03 - artifact rules are enforced exactly as the in-toto specification prescribes.

`rulelib::apply_rules_on_link` (with verify_match_rule, canonicalize_path, VirtualTargetPath::matches,
ArtifactRule::pattern and the dyn SupplyChainItem accessors) runs from MIR; its verdict is compared with
the independent reference model oracles/rules.py on the same symbolic digests."""
import z3, itertools
from mirsym.values import *
from mirsym.runner import Obligation
from mirsym.build import B, model_value
from .common import outcome_of, is_sample
from oracles import rules as oracle

U_SRC=['a','d/b','d/c']
U_SRC_MATCH=['a','d/b','d/c','db']      # db: starts with the letters of the prefix `d` without being under the directory d/
U_DST=['b','e/b','d/b','a']
BASIC=[{'kind':k,'pattern':p} for k in ('CREATE','DELETE','MODIFY','ALLOW','DISALLOW') for p in ('a','*','d/*')]+\
      [{'kind':'ALLOW','pattern':'?'},{'kind':'ALLOW','pattern':'d/?'},{'kind':'DISALLOW','pattern':'['},{'kind':'ALLOW','pattern':'['},
       {'kind':'REQUIRE','pattern':'a'},{'kind':'REQUIRE','pattern':'zz'},{'kind':'REQUIRE','pattern':'*'},{'kind':'DISALLOW','pattern':'d/[bc]'},{'kind':'MODIFY','pattern':'d/[!b]'},
       # patterns that COMBINE features (class / ? / inner star with a trailing star), and a malformed class before a star
       {'kind':'ALLOW','pattern':'[ad]*'},{'kind':'DISALLOW','pattern':'d/[bc]*'},{'kind':'ALLOW','pattern':'?*'},{'kind':'DISALLOW','pattern':'d*b'},{'kind':'DISALLOW','pattern':'d[/*'}]
def M(pattern,in_src=None,with_='Products',in_dst=None,from_='t'): return {'kind':'MATCH','pattern':pattern,'in_src':in_src,'with':with_,'in_dst':in_dst,'from':from_}
MATCHES=[M('*'),M('a'),M('b',in_src='d'),M('*',in_src='d'),M('*',in_src='d/'),M('b',in_dst='e'),M('b',in_dst='e/'),M('*',in_src='d',in_dst='e'),
         M('*',with_='Materials'),M('b',in_src='d',with_='Materials',in_dst='e'),M('*',from_='zz'),M('[',in_src='d'),M('d/*'),M('?',in_src='d',in_dst='d')]
PAIRS=[[M('a',with_='Materials'),M('b',with_='Products')],[M('b',with_='Products'),M('a',with_='Materials')],[M('*',in_src='d',with_='Products'),M('a',with_='Materials')],[M('a'),M('*',in_src='d',in_dst='e')],[M('*',from_='zz'),M('*')]]
TAILS=[[{'kind':'DISALLOW','pattern':'*'}],[{'kind':'REQUIRE','pattern':'a'}],[{'kind':'REQUIRE','pattern':'d/b'}],[]]

class Rules(Obligation):
    name='C03.rules'
    hash_order='fixed'
    def __init__(self,group='basic',seq=1,item='step',algs=False,seed=0,known=(),rate=60,small=False,**kw):
        self.group=group; self.seq=seq; self.item=item; self.algs=algs; self.seed=seed; self.rate=rate; self.known=set(known)
        self.u_src=U_SRC[:2] if small else (U_SRC_MATCH if group=='match' else U_SRC); self.u_dst=U_DST[:3] if small else U_DST
        self.name='C03.rules_'+group+('_seq%d'%seq if seq>1 else '')+('_insp' if item!='step' else '')
        self.bounds={'path_universe':self.u_src,'referenced_step_universe':self.u_dst,'item':item,
                     'rule_list':('%d rule(s) from the %s catalog (%d entries)'%(seq,group,len(BASIC) if group=='basic' else len(MATCHES)) if group!='pairs' else 'a pair of MATCH rules from the pair catalog (%d entries: same FROM step with different WITH kinds / prefixes)'%len(PAIRS))+' followed by one of: DISALLOW *, REQUIRE a, REQUIRE d/b, nothing; applied to materials or to products',
                     'artifacts':'per path: absent / material only / product only / both, one free digest byte each (equal or different)' if group=='basic' else 'per path present/absent on the rule side; referenced step: per path present/absent with a free digest byte',
                     'hash_map_iteration':'insertion order (the rule engine iterates BTree collections only; HashMap is used for lookup by name)','normalisation':'all paths already normal (no ./ .. //); non-normal paths are C14\'s'}
        self.witnesses=['accept','reject']; self.seen=set()
        if group=='both':
            self.bounds.update({'rule_list':'one of 6 material rule lists and one of 6 product rule lists on the same item (ALLOW / DELETE / MODIFY / REQUIRE / CREATE / DISALLOW)','artifacts':'paths a and d/b, each absent / material / product / both, free digest bytes'})
        if group=='algs':
            self.hash_order='all'      # digest tables are HashMaps: every iteration order of a two-algorithm table is explored
            self.bounds.update({'rule_list':'MATCH a WITH PRODUCTS FROM t (or WITH MATERIALS), followed by DISALLOW * / REQUIRE a / nothing','artifacts':'a recorded under sha256 and sha512 on the rule side (free digest bytes); on the side of t under both, only sha256 or only sha512 (free bytes): the descriptions must be equal as a whole','hash_map_iteration':'every permutation'})
    def setup(self,eng,tier):
        self.eng=eng; self.b=B(eng); self.fn=eng.find_fn('apply_rules_on_link')
    def entry(self,eng): return self.fn
    def mk_rule(self,r):
        if r['kind']=='MATCH': return self.b.rule('Match',r['pattern'],in_src=r['in_src'],with_=r['with'],in_dst=r['in_dst'],from_=r['from'])
        return self.b.rule(r['kind'].capitalize(),r['pattern'])
    def desc(self,dg,alg='sha256'): return {alg:[dg]}
    def mk_args(self,run):
        b=self.b
        side=['materials','products'][run.pick(2,'side')]
        cat=BASIC if self.group=='basic' else MATCHES
        if self.group=='algs':
            w=['Products','Materials'][run.pick(2,'with')]
            rules=[M('a',with_=w)]+[TAILS[0],TAILS[1],TAILS[3]][run.pick(3,'tail')]
            own={'a':{'sha256':[z3.BitVec('s256',8)],'sha512':[z3.BitVec('s512',8)]}}
            k=run.pick(4,'t_algs')
            td={}
            if k!=3: td={'a':[{'sha256':[z3.BitVec('t256',8)],'sha512':[z3.BitVec('t512',8)]},{'sha256':[z3.BitVec('t256',8)]},{'sha512':[z3.BitVec('t512',8)]}][k]}
            links={'it':{'materials':own if side=='materials' else {},'products':own if side=='products' else {}},'t':{'materials':td if w=='Materials' else {},'products':td if w=='Products' else {}}}
            def mk_art(d):
                return [(b.vpath(p),b.hashmap([(b.variant('HashAlgorithm','Sha256' if alg=='sha256' else 'Sha512'),Agg('HashValue',[u8vec(bs)])) for alg,bs in dd.items()])) for p,dd in sorted(d.items())]
            lm=b.hashmap([(mk_string(n),b.link(n,mk_art(l['materials']),mk_art(l['products']))) for n,l in links.items()])
            rl=[self.mk_rule(r) for r in rules]
            it=b.step('it',1,[],rl if side=='materials' else [],rl if side=='products' else [])
            return [Ref(Cell(Ref(Cell(it)))),Ref(Cell(lm))],{'side':side,'rules':rules,'links':links}
        if self.group=='both':
            # one item with material rules AND product rules; a path may be material and product at once: the two passes are independent
            MR=[[],[{'kind':'ALLOW','pattern':'a'}],[{'kind':'ALLOW','pattern':'*'}],[{'kind':'DELETE','pattern':'a'},{'kind':'DISALLOW','pattern':'*'}],[{'kind':'MODIFY','pattern':'a'}],[{'kind':'REQUIRE','pattern':'a'},{'kind':'ALLOW','pattern':'a'}]]
            PR=[[{'kind':'DISALLOW','pattern':'*'}],[{'kind':'CREATE','pattern':'d/b'},{'kind':'DISALLOW','pattern':'*'}],[{'kind':'ALLOW','pattern':'d/*'},{'kind':'REQUIRE','pattern':'a'}],[{'kind':'MODIFY','pattern':'a'},{'kind':'DISALLOW','pattern':'*'}],[{'kind':'CREATE','pattern':'zz'},{'kind':'REQUIRE','pattern':'a'}],[]]
            mr=MR[run.pick(len(MR),'mrules')]; pr=PR[run.pick(len(PR),'prules')]
            mats={}; prods={}
            for p in ('a','d/b'):
                st=run.pick(4,'state_'+p)
                if st in (1,3): mats[p]=self.desc(z3.BitVec('m_'+p,8))
                if st in (2,3): prods[p]=self.desc(z3.BitVec('p_'+p,8))
            links={'it':{'materials':mats,'products':prods}}
            def mk_art(d):
                return [(b.vpath(p),b.hashmap([(b.variant('HashAlgorithm','Sha256'),Agg('HashValue',[u8vec(bs)])) for alg,bs in dd.items()])) for p,dd in sorted(d.items())]
            lm=b.hashmap([(mk_string(n),b.link(n,mk_art(l['materials']),mk_art(l['products']))) for n,l in links.items()])
            it=b.step('it',1,[],[self.mk_rule(r) for r in mr],[self.mk_rule(r) for r in pr])
            return [Ref(Cell(Ref(Cell(it)))),Ref(Cell(lm))],{'side':'both','rules':mr+pr,'mrules':mr,'prules':pr,'links':links}
        if self.group=='pairs': rules=list(PAIRS[run.pick(len(PAIRS),'pair')])
        else: rules=[cat[run.pick(len(cat),'rule%d'%i)] for i in range(self.seq)]
        rules=rules+TAILS[run.pick(len(TAILS),'tail')]
        mats={}; prods={}
        if self.group=='basic':
            for p in self.u_src:
                st=run.pick(4,'state_'+p)
                if st in (1,3): mats[p]=self.desc(z3.BitVec('m_'+p,8))
                if st in (2,3): prods[p]=self.desc(z3.BitVec('p_'+p,8),'sha512' if (self.algs and st==3 and run.pick(2,'alg_'+p)) else 'sha256')
        else:
            own=mats if side=='materials' else prods
            for p in (self.u_src if self.group!='pairs' else ['a','b','d/b']):
                if run.pick(2,'state_'+p): own[p]=self.desc(z3.BitVec('s_'+p,8))
        links={'it':{'materials':mats,'products':prods}}
        if self.group in ('match','pairs'):
            tm={}; tp={}
            for p in (self.u_dst if self.group!='pairs' else U_DST):
                if self.group=='pairs':
                    st=run.pick(4,'t_'+p) if p in ('a','b') else (1 if p=='e/b' and run.pick(2,'t_'+p) else 0)
                    if st in (1,3): tp[p]=self.desc(z3.BitVec('tp_'+p,8))
                    if st in (2,3): tm[p]=self.desc(z3.BitVec('tm_'+p,8))
                elif run.pick(2,'t_'+p):
                    (tp if any(r.get('with')=='Products' for r in rules if r['kind']=='MATCH') else tm)[p]=self.desc(z3.BitVec('t_'+p,8))
            links['t']={'materials':tm,'products':tp}
        def mk_art(d):
            return [(b.vpath(p),b.hashmap([(b.variant('HashAlgorithm','Sha256' if alg=='sha256' else 'Sha512'),Agg('HashValue',[u8vec(bs)])) for alg,bs in dd.items()])) for p,dd in sorted(d.items())]
        lm=b.hashmap([(mk_string(n),b.link(n,mk_art(l['materials']),mk_art(l['products']))) for n,l in links.items()])
        rl=[self.mk_rule(r) for r in rules]
        if self.item=='step': it=b.step('it',1,[],rl if side=='materials' else [],rl if side=='products' else [])
        else: it=b.inspection('it',['true'],rl if side=='materials' else [],rl if side=='products' else [])
        item=Ref(Cell(Ref(Cell(it))))      # &Box<dyn SupplyChainItem>
        return [item,Ref(Cell(lm))],{'side':side,'rules':rules,'links':links}
    def scn(self,g,m):
        def conc(d): return {p:{alg:[model_value(m,x) for x in bs] for alg,bs in dd.items()} for p,dd in d.items()}
        if g['side']=='both':
            return {'kind':'rules','item':self.item,'side':'both','mrules':[rule_json(r) for r in g['mrules']],'prules':[rule_json(r) for r in g['prules']],
                    'links':{n:{'materials':conc(l['materials']),'products':conc(l['products'])} for n,l in g['links'].items()}}
        return {'kind':'rules','item':self.item,'side':g['side'],'rules':[rule_json(r) for r in g['rules']],
                'links':{n:{'materials':conc(l['materials']),'products':conc(l['products'])} for n,l in g['links'].items()}}
    def check(self,run,out,g):
        oc=outcome_of(out); rec={'outcome':oc,'viol':None,'wit':[],'sample':None,'obl':1}
        if oc=='panic':
            r,m=run.check_sat(z3.BoolVal(True))
            rec['viol']={'kind':'panic','known_key':None,'scenario':self.scn(g,m),'predicted':'panic','what':'apply_rules_on_link panics: '+str(out[1])}; return rec
        own=g['links']['it']
        if g['side']=='both':
            acc=z3.And(oracle.verify_item_rules(g['mrules'],own['materials'],own['products'],'materials',g['links']),oracle.verify_item_rules(g['prules'],own['materials'],own['products'],'products',g['links']))
        else:
            acc=oracle.verify_item_rules(g['rules'],own['materials'],own['products'],g['side'],g['links'])
        tag=shape_tag(g['rules'])
        if oc=='ok':
            r,m=run.check_sat(z3.Not(acc))
            if r==z3.sat:
                rec['viol']={'kind':'accepts_what_the_specification_rejects'+tag,'known_key':None,'scenario':self.scn(g,m),'predicted':'ok','what':'rule engine accepts although the reference rule algorithm rejects'+tag}; return rec
            if 'accept' not in self.seen: self.seen.add('accept'); rec['wit'].append('accept')
        else:
            r,m=run.check_sat(acc)
            if r==z3.sat:
                rec['viol']={'kind':'rejects_what_the_specification_accepts'+tag,'known_key':None,'scenario':self.scn(g,m),'predicted':'err','what':'rule engine rejects although the reference rule algorithm accepts'+tag}; return rec
            if 'reject' not in self.seen: self.seen.add('reject'); rec['wit'].append('reject')
        if is_sample(run,self.seed,self.rate):
            r,m=run.check_sat(z3.BoolVal(True))
            if r==z3.sat: rec['sample']={'scenario':self.scn(g,m),'expect':'ok' if oc=='ok' else 'err'}
        return rec
def rule_json(r):
    if r['kind']!='MATCH': return [r['kind'],r['pattern']]
    out=['MATCH',r['pattern']]
    if r['in_src'] is not None: out+=['IN',r['in_src']]
    out+=['WITH',r['with'].upper()]
    if r['in_dst'] is not None: out+=['IN',r['in_dst']]
    return out+['FROM',r['from']]
def shape_tag(rules):
    t=[]
    for r in rules:
        if r['kind']=='MATCH':
            if (r['in_src'] or '').endswith('/') or (r['in_dst'] or '').endswith('/'): t.append('match-prefix-with-trailing-slash')
            elif r['in_src']: t.append('match-with-source-prefix')
            else: t.append('match')
        elif r['kind']=='DISALLOW' and oracle.compile_pattern(r['pattern']) is None: t.append('disallow-with-uninterpretable-pattern')
    return (' ['+','.join(sorted(set(t)))+']') if t else ''
