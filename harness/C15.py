"""C15 - delegated sub-layouts are verified as strictly as the top-level layout."""
import z3, itertools
from .pipeline import *
from mirsym.models import val_eq
PAST=1000000000

class Sublayout(PipelineBase):
    name='C15.sublayout'
    outer_name='b.r'
    def __init__(self,inner_steps=2,**kw):
        PipelineBase.__init__(self,**kw); self.inner_steps=inner_steps
        self.bounds={'outer_layout':'1 step (threshold 1) delegated to a sub-layout filed under F0 (authorized) or F1 (in the key table, not authorized for the step)',
                     'sub_layout':'%d inner step(s), 1 inner functionary; 1-2 signatures labelled F0/F1 with free made_by/intact/over; expiry in the future or the past'%inner_steps,
                     'inner_links':'per inner step: absent / present in the dedicated sub-directory with free signature validity; decoy links for the inner steps may sit in the parent directory, in a sibling-looking directory or in a directory whose name extends that of the dedicated one (<step>.<prefix>.orig); the delegated step is named "b.r" (dotted)',
                     'summary':'requested name "final"; inner links carry distinct materials/products/commands/return values','hash_map_iteration':'every permutation'}
        self.witnesses=['ok_delegated','err_inner_unsigned','err_inner_expired','err_inner_link_missing','err_only_decoys']
    def mk_args(self,run):
        F0,F1,G,OWN=0,1,2,3
        filed=[F0,F1][run.pick(2,'filed_under')]
        ns=1+run.pick(2,'n_inner_sigs')
        isigs=[]
        for j in range(ns):
            lab=[F0,F1][run.pick(2,'ilab%d'%j)]
            mb=z3.BitVec('imb_%d'%j,8); run.add(z3.ULE(mb,3))
            isigs.append(SigD(lab,mb,z3.Bool('iin_%d'%j),z3.Bool('iov_%d'%j)))
        inner_expired=bool(run.pick(2,'inner_expired'))
        OUT=self.outer_name
        isteps=[]; sub=((OUT,filed),); dirs={():[],sub:[]}; ilinks=[]
        decoys=run.pick(4,'decoys')        # 0 none, 1 in the parent directory, 2 in a sibling-looking directory <stem>.<prefix>, 3 in a directory whose name EXTENDS the dedicated one (<step>.<prefix>.orig)
        sib=((OUT.split('.')[0],filed),) if decoys!=3 else ((OUT,filed,'.orig'),)
        if decoys in (2,3): dirs[sib]=[]
        for i in range(self.inner_steps):
            nm='i%d'%i
            isteps.append(StepD(nm,1,[G]))
            ld=LinkD(nm,{'m%d'%i:[z3.BitVec('im_%d'%i,8)]},{'p%d'%i:[z3.BitVec('ip_%d'%i,8)]},return_value=i+3,command=['cmd%d'%i])
            present=bool(run.pick(2,'ilink%d'%i))
            sd=SigD(G,z3.BitVec('lmb_%d'%i,8),z3.Bool('lin_%d'%i),z3.Bool('lov_%d'%i)); run.add(z3.ULE(tbv(sd.made_by),3))
            if present: dirs[sub].append(FileD(nm,G,BlockD('link',ld,[sd])))
            if decoys: dirs[() if decoys==1 else sib].append(FileD(nm,G,BlockD('link',LinkD(nm,{'decoy':[9]},{'decoy':[9]}),[SigD(G,G)])))
            ilinks.append((ld,sd,present))
        inner=LayoutD([G],isteps,expires=PAST if inner_expired else FAR_FUTURE)
        dirs[()].append(FileD(OUT,filed,BlockD('layout',inner,isigs)))
        outer=LayoutD([F0,F1],[StepD(OUT,1,[F0])])
        lb=BlockD('layout',outer,[SigD(OWN,OWN)]); caller=[(OWN,OWN)]
        args=self.install(run,lb,caller,dirs,step_name='final')
        return args,{'lb':lb,'caller':caller,'dirs':dirs,'filed':filed,'isigs':isigs,'inner_expired':inner_expired,'ilinks':ilinks,'decoys':decoys}
    def check(self,run,out,g):
        oc=outcome_of(out); rec=self.new_rec(oc)
        mk=lambda m: conc_scenario(m,g['lb'],g['caller'],g['dirs'],1700000000,step_name='final')
        if oc=='panic':
            r,m=run.check_sat(z3.BoolVal(True))
            rec['viol']={'kind':'panic','known_key':None,'scenario':mk(m),'predicted':'panic','what':'in_toto_verify panics: '+str(out[1])}; return rec
        F0=0
        inner_signed=z3.Or(*[s.valid_for(g['filed']) for s in g['isigs']])
        links_ok=z3.And(*[z3.And(z3.BoolVal(p),sd.valid_for(2)) for ld,sd,p in g['ilinks']])
        P=z3.And(z3.BoolVal(g['filed']==F0),inner_signed,z3.BoolVal(not g['inner_expired']),links_ok)
        if oc=='ok':
            if self.classify(run,rec,z3.Not(P),{},mk,'ok','verification succeeds although the sub-layout is not validly signed by the authorized functionary it was filed under, is expired, or its own steps are not satisfied from its dedicated sub-directory','sublayout_not_fully_verified'): return rec
            # summary: first inner step's materials, last inner step's products / command / byproducts, requested name
            link=deref(self.b.get(deref(out[1]).f[0],'metadata')).f[0]
            first=g['ilinks'][0][0]; last=g['ilinks'][-1][0]
            b=self.b
            exp_m=b.btreemap(self.mk_artifacts(first.materials)); exp_p=b.btreemap(self.mk_artifacts(last.products))
            okt=b_and(val_eq(b.get(link,'materials'),exp_m),val_eq(b.get(link,'products'),exp_p),
                      val_eq(b.get(link,'name'),mk_string('final')),val_eq(b.get(link,'command'),b.command(last.command)),
                      val_eq(b.get(deref(b.get(link,'byproducts')),'return_value'),some(Int(32,True,last.return_value))))
            rec['obl']+=1
            r,m=run.check_sat(z3.Not(okt.z()))
            if r==z3.sat:
                rec['viol']={'kind':'wrong_summary','known_key':None,'scenario':mk(m),'predicted':'ok','what':'the summary link is not (first step materials, last step products/command/byproducts, requested name)','expect_summary':True}
                return rec
            self.wit(run,rec,'ok_delegated')
        elif oc.startswith('err'):
            self.wit(run,rec,'err_inner_unsigned',z3.Not(inner_signed))
            if g['inner_expired']: self.wit(run,rec,'err_inner_expired',inner_signed)
            if not all(p for _,_,p in g['ilinks']):
                self.wit(run,rec,'err_inner_link_missing',inner_signed)
                if g['decoys'] and not g['inner_expired'] and g['filed']==F0: self.wit(run,rec,'err_only_decoys',inner_signed)
        if is_sample(run,self.seed,self.rate):
            r,m=run.check_sat(z3.BoolVal(True))
            if r==z3.sat:
                rec['sample']={'scenario':mk(m),'expect':'ok' if oc=='ok' else 'err'}
                if oc=='ok':
                    first=g['ilinks'][0][0]; last=g['ilinks'][-1][0]
                    rec['sample']['expect_summary']={'materials':conc_art(first.materials,m),'products':conc_art(last.products,m),'name':'final','command':last.command}
        return rec

class SublayoutTwoFunctionaries(PipelineBase):
    """a delegated step with two authorized functionaries who file the *same* sub-layout: each copy must be verified against
    its own dedicated sub-directory; a copy whose sub-directory does not satisfy it never counts"""
    name='C15.sublayout_two_functionaries'
    outer_name='b.r'
    def __init__(self,**kw):
        PipelineBase.__init__(self,**kw)
        self.bounds={'outer_layout':'1 step delegated to sub-layouts, threshold 1 or 2, functionaries F0 and F1 both authorized; each files a sub-layout with identical content (1 inner step, inner functionary G), signed by its filer with free validity',
                     'inner_links':'sub-directory of F0 and sub-directory of F1: inner link absent / present with free signature validity; materials/products of the two inner links equal or different (free digest bytes)','hash_map_iteration':'every permutation'}
        self.witnesses=['ok_both','err_second_dir_unsatisfied']
    def mk_args(self,run):
        F0,F1,G,OWN=0,1,2,3
        OUT=self.outer_name
        thr=[1,2][run.pick(2,'thr')]
        inner=LayoutD([G],[StepD('i0',1,[G])])
        dirs={():[]}; info=[]
        for f in (F0,F1):
            sub=((OUT,f),); dirs[sub]=[]
            ssig=SigD(f,z3.BitVec('smb_%d'%f,8),z3.Bool('sin_%d'%f),z3.Bool('sov_%d'%f)); run.add(z3.ULE(tbv(ssig.made_by),3))
            dirs[()].append(FileD(OUT,f,BlockD('layout',inner,[ssig])))
            present=bool(run.pick(2,'ilink_%d'%f))
            ld=LinkD('i0',{'m':[z3.BitVec('im_%d'%f,8)]},{'p':[z3.BitVec('ip_%d'%f,8)]},return_value=0,command=['c'])
            lsd=SigD(G,z3.BitVec('lmb_%d'%f,8),z3.Bool('lin_%d'%f),z3.Bool('lov_%d'%f)); run.add(z3.ULE(tbv(lsd.made_by),3))
            if present: dirs[sub].append(FileD('i0',G,BlockD('link',ld,[lsd])))
            info.append({'f':f,'ssig':ssig,'present':present,'ld':ld,'lsd':lsd})
        outer=LayoutD([F0,F1],[StepD(OUT,thr,[F0,F1])])
        lb=BlockD('layout',outer,[SigD(OWN,OWN)]); caller=[(OWN,OWN)]
        args=self.install(run,lb,caller,dirs)
        return args,{'lb':lb,'caller':caller,'dirs':dirs,'thr':thr,'info':info}
    def check(self,run,out,g):
        oc=outcome_of(out); rec=self.new_rec(oc)
        mk=lambda m: conc_scenario(m,g['lb'],g['caller'],g['dirs'],1700000000)
        if oc=='panic':
            r,m=run.check_sat(z3.BoolVal(True))
            rec['viol']={'kind':'panic','known_key':None,'scenario':mk(m),'predicted':'panic','what':'in_toto_verify panics: '+str(out[1])}; return rec
        sat=[z3.And(i['ssig'].valid_for(i['f']),z3.BoolVal(i['present']),i['lsd'].valid_for(2)) for i in g['info']]
        nsat=z3.If(sat[0],1,0)+z3.If(sat[1],1,0)
        if oc=='ok':
            if self.classify(run,rec,nsat<g['thr'],{},mk,'ok','a delegated step with threshold %d is accepted although fewer sub-layout copies are validly signed by their filer and satisfied from their own dedicated sub-directory'%g['thr'],'sublayout_copy_not_verified_in_its_own_directory'): return rec
            self.wit(run,rec,'ok_both',z3.And(sat[0],sat[1]))
        elif oc.startswith('err'):
            if g['thr']==2: self.wit(run,rec,'err_second_dir_unsatisfied',z3.And(sat[0],z3.Not(sat[1])))
        if is_sample(run,self.seed,self.rate):
            r,m=run.check_sat(z3.BoolVal(True))
            if r==z3.sat: rec['sample']={'scenario':mk(m),'expect':'ok' if oc=='ok' else 'err'}
        return rec

class SublayoutAsStrictAsTopLevel(PipelineBase):
    """the same (defective or sound) layout document is verified twice in one path: as a top-level layout with its signer as
    the owner, and as the sub-layout of a delegated step.  Whenever the top-level verification rejects it, the delegating
    verification must fail as well (and the sound control is accepted both ways)."""
    name='C15.sublayout_as_strict_as_top_level'
    KINDS=['sound','duplicate_step_names','step_and_inspection_share_a_name','step_rule_fails','threshold_unmet','link_signed_by_unlisted_key','inspection_fails','inspection_rule_fails']
    def __init__(self,**kw):
        PipelineBase.__init__(self,**kw)
        self.bounds={'document':'one layout with 2 steps (+ optionally an inspection), inner functionary G, signed by F0; defect kinds: '+', '.join(self.KINDS),'roles':'(a) top level: caller key F0, links in the root directory; (b) sub-layout of step "d" of an outer layout signed by OWN, links in the dedicated sub-directory',
                     'hash_map_iteration':'insertion order','free':'one digest byte per inner link'}
        self.hash_order='fixed'
        self.witnesses=['both_accept','both_reject']
    def setup(self,eng,tier):
        PipelineBase.setup(self,eng,tier)
        body=self.entry_body
        def go(run,args):
            aTop,aSub=args
            def call(a):
                try: return ('ret',eng.call_fn(run,body,a))
                except Panic as p: return ('panic',p.site)
            r1=call(aTop); run.ghost['events']=[]; r2=call(aSub)
            return (r1,r2)
        self.go=go
    def entry(self,eng): return self.go
    def inspection_result(self,run,name,a):
        ld=LinkD(name,{},{},1 if run.ghost.get('insp_fails') else 0)
        return ok(self.b.metablock(self.b.wrap_link(self.mk_link(run,ld)),[]))
    def build(self,run,kind):
        F0,G,OWN,H=0,2,3,1
        b=self.b
        names=['i0','i0'] if kind=='duplicate_step_names' else ['i0','i1']
        steps=[]; files=[]
        for k,nm in enumerate(names):
            st=StepD(nm,2 if (kind=='threshold_unmet' and k==1) else 1,[G])
            if kind=='step_rule_fails' and k==1: st.exp_prod=[b.rule('Disallow','*')]; st.exp_prod_json=[['DISALLOW','*']]
            steps.append(st)
            signer=H if (kind=='link_signed_by_unlisted_key' and k==1) else G
            if not (kind=='duplicate_step_names' and k==1):
                files.append(FileD(nm,signer,BlockD('link',LinkD(nm,{'m%d'%k:[z3.BitVec('dm_%d'%k,8)]},{'p%d'%k:[z3.BitVec('dp_%d'%k,8)]},return_value=0,command=['c']),[SigD(signer,signer)])))
        insp=[]
        if kind in ('step_and_inspection_share_a_name','inspection_fails','inspection_rule_fails'):
            d=InspD('i1' if kind=='step_and_inspection_share_a_name' else 'q',run=(('false',) if kind=='inspection_fails' else ('true',)))
            if kind=='inspection_rule_fails': d.exp_prod=[b.rule('Require','missing')]; d.exp_prod_json=[['REQUIRE','missing']]
            insp=[d]
        return LayoutD([G,H],steps,insp),files
    def mk_args(self,run):
        F0,G,OWN=0,2,3
        kind=self.KINDS[run.pick(len(self.KINDS),'kind')]
        inner,files=self.build(run,kind)
        run.ghost['insp_fails']=(kind=='inspection_fails')
        # (a) as a top-level layout
        self.link_dir='linksTop'; aTop=self.install(run,BlockD('layout',inner,[SigD(F0,F0)]),[(F0,F0)],{():files}); dTop=dict(run.ghost['dirs'])
        # (b) as the sub-layout of a delegated step
        sub=(('d',F0),)
        dirs={():[FileD('d',F0,BlockD('layout',inner,[SigD(F0,F0)]))],sub:files}
        outer=LayoutD([F0],[StepD('d',1,[F0])])
        self.link_dir='links'; lb=BlockD('layout',outer,[SigD(OWN,OWN)])
        aSub=self.install(run,lb,[(OWN,OWN)],dirs); run.ghost['dirs'].update(dTop)
        return (aTop,aSub),{'kind':kind,'lb':lb,'caller':[(OWN,OWN)],'dirs':dirs}
    def check(self,run,out,g):
        r1,r2=out[1]; o1=outcome_of(r1); o2=outcome_of(r2); rec=self.new_rec(o1+'|'+o2); rec['obl']=1
        mk=lambda m: conc_scenario(m,g['lb'],g['caller'],g['dirs'],1700000000)
        r,m=run.check_sat(z3.BoolVal(True))
        if 'panic' in (o1,o2):
            rec['viol']={'kind':'panic','known_key':None,'scenario':mk(m),'predicted':'panic','what':'in_toto_verify panics (%s)'%g['kind']}; return rec
        if o1!='ok' and o2=='ok':
            rec['viol']={'kind':'sublayout_checked_less_strictly_than_top_level','known_key':None,'scenario':mk(m),'predicted':'ok','what':'a layout document that is rejected as a top-level layout (%s: %s) satisfies a delegated step as a sub-layout'%(g['kind'],o1)}; return rec
        if o1=='ok' and o2!='ok':
            rec['viol']={'kind':'sound_sublayout_rejected','known_key':None,'scenario':mk(m),'predicted':{'not':'ok'},'what':'a layout document that verifies as a top-level layout is rejected as a sub-layout (%s)'%o2}; return rec
        self.wit(run,rec,'both_accept' if o1=='ok' else 'both_reject')
        rec['sample']={'scenario':mk(m),'expect':'ok' if o2=='ok' else 'err'}
        return rec
