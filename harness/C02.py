"""C02 - links count for a step only if signed by a functionary authorized for it.

End-to-end obligation on `in_toto_verify` (every stage from MIR, ghost link directory)."""
import z3
from .pipeline import *

class StepAuthorization(PipelineBase):
    name='C02.step_authorization'
    def __init__(self,nfun=2,nsig=1,unknown_pubkey=False,two_steps=False,same_name=False,small=False,**kw):
        PipelineBase.__init__(self,**kw)
        self.nfun=nfun; self.nsig=nsig; self.unknown_pubkey=unknown_pubkey; self.two_steps=two_steps or same_name; self.same_name=same_name; self.small=small
        if same_name: self.name='C02.step_authorization_duplicate_step_names'
        if small:
            self.name='C02.two_steps_small'; self.hash_order='fixed'
        self.bounds={'steps':('2 with the same name (sharing their link files), adjacent or separated by a third step' if same_name else (2 if two_steps else 1)),'functionary_pool':nfun,'threshold':'any u32 per step','layout_key_table':'any subset of the pool',
                     'step_pubkeys':'any subset of the pool'+(' + an id absent from the table' if unknown_pubkey else ''),
                     'files_per_step':'per pool key: absent or one link filed under that key-id prefix','signatures_per_link':'1..%d, each labelled with any pool key, free made_by/intact/over'%nsig,
                     'hash_map_iteration':'every permutation','owner_signature':'valid (C01 varies it)','clock':'unexpired (C06 varies it)'}
        if small: self.bounds.update({'layout_key_table':'the whole pool','files_per_step':'per pool key absent or one link, filed under and labelled with that key','hash_map_iteration':'insertion order (the other C02 obligations vary it)'})
        self.witnesses=['ok_thr1','ok_thr2','err_threshold_unmet','err_missing_links'] if not same_name else ['err_threshold_unmet']
        if small: self.witnesses=['ok_thr1','err_threshold_unmet']
    def mk_args(self,run):
        nfun=self.nfun; OWNER=nfun
        steps=[]; dirs={():[]}; info=[]
        for si in range(2 if self.two_steps else 1):
            sname='s0' if self.same_name else 's%d'%si
            thr=Int(32,False,z3.BitVec('thr_%s'%sname,32))
            pub=[k for k in range(nfun) if run.pick(2,'pub%d_%d'%(si,k))]
            if self.unknown_pubkey and run.pick(2,'pubunk%d'%si): pub.append(UNKNOWN)
            files={}
            if self.same_name and si==1:
                files=info[0][2]           # both steps share the name, hence the link files
            for k in ([] if (self.same_name and si==1) else range(nfun)):
                if not run.pick(2,'file%d_%d'%(si,k)): continue
                ns=1+run.pick(self.nsig,'nsig%d_%d'%(si,k))
                sigs=[]
                for j in range(ns):
                    lab=k if self.small else run.pick(nfun,'lab%d_%d_%d'%(si,k,j))
                    mb=z3.BitVec('mb_%d_%d_%d'%(si,k,j),8); run.add(z3.ULE(mb,nfun))
                    sigs.append(SigD(lab,mb,z3.Bool('in_%d_%d_%d'%(si,k,j)),z3.Bool('ov_%d_%d_%d'%(si,k,j))))
                fd=FileD(sname,k,BlockD('link',LinkD(sname,{'a':1},{'b':2}),sigs))
                files[k]=fd; dirs[()].append(fd)
            steps.append(StepD(sname,thr,pub)); info.append((thr,pub,files))
        if self.same_name and run.pick(2,'separated'):
            # the two namesakes need not be neighbours in the list
            steps=[steps[0],StepD('mid',1,[0]),steps[1]]
            dirs[()].append(FileD('mid',0,BlockD('link',LinkD('mid',{'a':1},{'b':2}),[SigD(0,0)])))      # the step in between is satisfied whenever key 0 is in the table
        keys=list(range(nfun)) if self.small else [k for k in range(nfun) if run.pick(2,'key%d'%k)]
        ld=LayoutD(keys,steps)
        lb=BlockD('layout',ld,[SigD(OWNER,OWNER)])
        caller=[(OWNER,OWNER)]
        args=self.install(run,lb,caller,dirs)
        return args,{'keys':keys,'info':info,'lb':lb,'caller':caller,'dirs':dirs}
    def counts(self,g,restrict_pubkeys=True):
        out=[]
        for thr,pub,files in g['info']:
            terms=[]
            for k,fd in files.items():
                if k not in g['keys']: continue
                if restrict_pubkeys and k not in pub: continue
                terms.append(z3.If(z3.Or(*[s.valid_for(k) for s in fd.block.sigs]),1,0))
            cnt=z3.Sum(*terms) if terms else z3.IntVal(0)
            t=z3.BV2Int(thr.v)
            out.append((t,cnt))
        return out
    def check(self,run,out,g):
        oc=outcome_of(out); rec=self.new_rec(oc)
        mk=lambda m: conc_scenario(m,g['lb'],g['caller'],g['dirs'],1700000000)
        if oc=='panic':
            r,m=run.check_sat(z3.BoolVal(True))
            rec['viol']={'kind':'panic','known_key':None,'scenario':mk(m),'predicted':'panic','what':'in_toto_verify panics: '+str(out[1])}
            return rec
        strict=self.counts(g,True); loose=self.counts(g,False)
        P=z3.And(*[z3.And(c>=t,c>=1) for t,c in strict])
        Ploose=z3.And(*[z3.And(c>=t,c>=1) for t,c in loose])
        if oc=='ok':
            pats={'pubkeys_ignored':Ploose}
            if self.classify(run,rec,z3.Not(P),pats,mk,'ok','verification succeeds although fewer than max(threshold,1) distinct keys that are BOTH in the step\'s pubkeys and in the layout key table validly signed the evidence filed under them','unauthorized_link_counted'):
                return rec
            self.wit(run,rec,'ok_thr1',z3.And(*[t==1 for t,c in strict]))
            self.wit(run,rec,'ok_thr2',z3.And(*[t==2 for t,c in strict]))
        elif oc.startswith('err'):
            self.wit(run,rec,'err_threshold_unmet',z3.Not(P))
            if not g['dirs'][()]: self.wit(run,rec,'err_missing_links')
        else:
            rec['viol']={'kind':'unexpected:'+oc,'known_key':None,'scenario':None,'predicted':oc,'what':oc}
        if is_sample(run,self.seed,self.rate):
            r,m=run.check_sat(z3.BoolVal(True))
            if r==z3.sat: rec['sample']={'scenario':mk(m),'expect':'ok' if oc=='ok' else 'err'}
        return rec
