"""Shared harness for the final-product verification pipeline (`verifylib::in_toto_verify`).

Every stage of `in_toto_verify` runs from MIR.  Only the environment is stubbed (DESIGN.md §3.5):
  * `glob::glob` + `load_linkfile`  -> a ghost link directory (dict dir -> files) built by the harness;
    the rest of `load_links_for_layout` (pattern building, file-name trimming, `match_signatures`,
    `KeyId::prefix`, the per-step count check) is the repository's code;
  * `chrono::Utc::now`              -> a symbolic instant;
  * `runlib::in_toto_run`, `std::fs::write`, `serde_json::to_string_pretty` -> ghost event log;
  * `PublicKey::verify`             -> ideal-signature oracle;  `MetadataWrapper::to_bytes` -> constant.
"""
import z3, itertools
from mirsym.values import *
from mirsym.runner import Obligation
from mirsym.build import B, concretize, model_value
from mirsym.models import val_eq, glob_compile, glob_match, need_conc, byte_list, pb_bytes, clone_val, b_and
from .common import *

UNKNOWN='unknown'
FAR_FUTURE=4102444800

class SigD:
    def __init__(self,label,made_by,intact=True,over=True):
        self.label=label; self.made_by=made_by; self.intact=intact; self.over=over; self.tag=None
    def valid_for(self,k):
        """z3 term: this signature counts as a valid signature by pool key k"""
        if self.label!=k: return z3.BoolVal(False)
        return z3.And(tb(self.intact),tb(self.over),tbv(self.made_by)==k)
def tb(x): return z3.BoolVal(x) if isinstance(x,bool) else x
def tbv(x,w=8): return z3.BitVecVal(x,w) if isinstance(x,int) else x

class StepD:
    def __init__(self,name,threshold,pubkeys,exp_mat=(),exp_prod=()):
        self.name=name; self.threshold=threshold; self.pubkeys=list(pubkeys); self.exp_mat=list(exp_mat); self.exp_prod=list(exp_prod)
class InspD:
    def __init__(self,name,run=('true',),exp_mat=(),exp_prod=()):
        self.name=name; self.run=list(run); self.exp_mat=list(exp_mat); self.exp_prod=list(exp_prod)
class LayoutD:
    def __init__(self,keys,steps,inspect=(),expires=FAR_FUTURE,readme='',key_alias=None,same_material=None):
        self.keys=list(keys); self.steps=list(steps); self.inspect=list(inspect); self.expires=expires; self.readme=readme
        self.same_material=same_material or {}      # id -> pool key whose MATERIAL this id also names (a key with its own identifier but the bytes of another)
        self.key_alias=key_alias or {}     # table id -> pool key actually stored there (aliasing; normally identity)
class LinkD:
    def __init__(self,name,materials=None,products=None,return_value=0,command=()):
        self.name=name; self.materials=materials or {}; self.products=products or {}; self.return_value=return_value; self.command=list(command)
class BlockD:
    def __init__(self,kind,body,sigs): self.kind=kind; self.body=body; self.sigs=list(sigs)
class FileD:
    def __init__(self,step,prefix_of,block,parsable=True,short_raw=None): self.step=step; self.prefix_of=prefix_of; self.block=block; self.parsable=parsable; self.short_raw=short_raw
    def fname(self): return '%s.%s.link'%(self.step,self.short_raw if self.short_raw is not None else keyid_str(self.prefix_of)[:8])

def keyid_str(k): return UNKNOWN_KEYID if k==UNKNOWN else pool_keyid(k)

class PipelineBase(Obligation):
    """builds the Rust values for a scenario description and installs the environment stubs"""
    link_dir='links'
    hash_order='all'
    def __init__(self,seed=0,rate=30,known=(),**kw):
        self.seed=seed; self.rate=rate; self.known=set(known); self.seen=set(); self.params=kw
    # ------------------------------------------------------------------ engine setup
    def setup(self,eng,tier):
        self.eng=eng; self.b=B(eng); self.tier=tier
        self.oracle=SigOracle(eng)
        eng.stub(r'MetadataWrapper::to_bytes$',lambda e,run,a,f: ok(u8vec(list(b'M'))),'MetadataWrapper::to_bytes [constant bytes; injectivity is C05]')
        eng.stub(r'^(glob::)?glob$',self.s_glob,'glob::glob [ghost link directory]')
        eng.stub(r'^load_linkfile$',self.s_load_linkfile,'verifylib::load_linkfile [ghost link directory]')
        eng.stub(r'^(chrono::)?Utc::now$',self.s_now,'chrono::Utc::now [symbolic instant]')
        def s_systime_now(e,run,a,f):
            d=deref(self.s_now(e,run,a,f)); return Agg('SystemTime',[d.f[0],d.f[1]])
        eng.stub(r'^(std::time::)?SystemTime::now$',s_systime_now,'std::time::SystemTime::now [the same symbolic clock]')
        eng.stub(r'(^|::)in_toto_run$',self.s_in_toto_run,'runlib::in_toto_run [ghost inspection run]')
        eng.stub(r'^std::fs::write$',self.s_fs_write,'std::fs::write [ghost event log]')
        eng.stub(r'^(serde_json::)?to_string_pretty$',lambda e,run,a,f: ok(mk_string('<json>',True)),'serde_json::to_string_pretty [opaque text]')
        self.entry_body=eng.find_fn('in_toto_verify')
    def entry(self,eng): return self.entry_body
    # ------------------------------------------------------------------ value construction
    def new_sig(self,run,sd):
        tag=len(run.ghost['sigs']); sd.tag=tag
        run.ghost['sigs'][tag]={'made_by':tbv(sd.made_by),'intact':tb(sd.intact),'over':tb(sd.over)}
        return self.b.signature(keyid_str(sd.label),value=bytes([tag]))
    def mk_pubkey(self,k):
        return self.b.pubkey(pool_keyid(k),value=bytes([k]))
    def mk_layout(self,run,ld):
        b=self.b
        steps=[b.step(s.name,s.threshold,[b.keyid(keyid_str(k)) for k in s.pubkeys],s.exp_mat,s.exp_prod) for s in ld.steps]
        insp=[b.inspection(i.name,i.run,i.exp_mat,i.exp_prod) for i in ld.inspect]
        def pk(k):
            if k in ld.same_material: return b.pubkey(pool_keyid(k),value=bytes([ld.same_material[k]]))
            return self.mk_pubkey(ld.key_alias.get(k,k))
        keys=[(b.keyid(keyid_str(k)),pk(k)) for k in ld.keys]
        exp=ld.expires if isinstance(ld.expires,Agg) else b.datetime(ld.expires)
        return b.layout(steps,insp,keys,exp,ld.readme)
    def mk_artifacts(self,d):
        b=self.b
        def td(dg):
            if isinstance(dg,dict):      # {algorithm: digest bytes}
                return b.hashmap([(b.variant('HashAlgorithm',{'sha256':'Sha256','sha512':'Sha512'}[a]),Agg('HashValue',[u8vec(x if isinstance(x,list) else [x])])) for a,x in sorted(dg.items())])
            return b.target_description(dg if isinstance(dg,list) else [dg])
        return [(b.vpath(p),td(dg)) for p,dg in sorted(d.items())]
    def mk_link(self,run,ld):
        b=self.b
        rv=ld.return_value
        bp=b.byproducts(return_value=(rv if isinstance(rv,Int) else Int(32,True,rv)) if rv is not None else None,stdout='',stderr='')
        return b.link(ld.name,self.mk_artifacts(ld.materials),self.mk_artifacts(ld.products),byproducts=bp,command=ld.command)
    def mk_block(self,run,bd):
        sigs=[self.new_sig(run,s) for s in bd.sigs]
        if bd.kind=='link': meta=self.b.wrap_link(self.mk_link(run,bd.body))
        else: meta=self.b.wrap_layout(self.mk_layout(run,bd.body))
        return self.b.metablock(meta,sigs)
    def install(self,run,layout_block,caller_keys,dirs,now=None,step_name=None):
        """returns the argument list for in_toto_verify and records the ghost environment"""
        b=self.b
        run.ghost.setdefault('sigs',{})
        run.ghost['events']=[]; run.ghost['dirs']={}; run.ghost['stage']=[]
        for dt,files in dirs.items():
            d=self.dir_str(dt)
            ent={}
            for fd in files:
                ent[fd.fname()]=(self.mk_block(run,fd.block) if fd.parsable else None)
            run.ghost['dirs'][d]=ent
        mb=self.mk_block(run,layout_block)
        km=b.hashmap([(b.keyid(keyid_str(lab)),self.mk_pubkey(k)) for k,lab in caller_keys],tag='caller_keys')
        run.ghost['now']=b.datetime(now if now is not None else Int(64,True,1700000000))
        sn=none() if step_name is None else some(mk_str(step_name))
        return [Ref(Cell(mb)),km,mk_str(self.link_dir),sn]
    def dir_str(self,comps):
        return self.link_dir+''.join('/%s.%s%s'%(c[0],keyid_str(c[1])[:8],c[2] if len(c)>2 else '') for c in comps)      # optional third element: a suffix after the prefix (a backup copy of a sub-layout directory, say)
    # ------------------------------------------------------------------ environment stubs
    def s_now(self,e,run,a,f): return copy_val(run.ghost['now'])
    def s_glob(self,e,run,a,f):
        pat=need_conc(byte_list(a[0]),'glob pattern').decode()
        d,_,namepat=pat.rpartition('/')
        toks=glob_compile(namepat)
        if toks is None: return err(Opaque('PatternError'))
        if any(c in d for c in '*?['):
            # metacharacters in the directory part: every ghost directory whose components match (glob matches component-wise;
            # results come back in alphabetical order of the whole path)
            pats=[glob_compile(c) for c in d.split('/')]
            if any(p is None for p in pats): return err(Opaque('PatternError'))
            dirs=[]
            for gd in run.ghost['dirs']:
                comps=gd.split('/')
                if len(comps)==len(pats) and all(glob_match(p,c) for p,c in zip(pats,comps)): dirs.append(gd)
            paths=sorted(gd+'/'+n for gd in dirs for n in run.ghost['dirs'][gd] if glob_match(toks,n))
            run.ghost['stage'].append(('glob',d,namepat))
            return ok(Iter([ok(Agg('PathBuf',[mk_string(p)])) for p in paths]))
        files=run.ghost['dirs'].get(d,{})
        names=sorted(n for n in files if glob_match(toks,n))
        run.ghost['stage'].append(('glob',d,namepat))
        return ok(Iter([ok(Agg('PathBuf',[mk_string(d+'/'+n)])) for n in names]))
    def s_load_linkfile(self,e,run,a,f):
        p=need_conc(pb_bytes(a[0]),'link path').decode()
        d,_,n=p.rpartition('/')
        blk=run.ghost['dirs'].get(d,{}).get(n,'missing')
        if blk=='missing': raise Unsupported('load_linkfile of a file that glob did not return: '+p)
        if blk is None: return err(self.b.variant('Error','Opaque',[mk_string('unparsable',True)]))
        if isinstance(blk,tuple) and blk[0]=='json':
            # the file content is a JSON document (attacker-controlled): what the crate's own decoders make of it is what gets loaded
            from mirsym import models_de as md
            run.ghost['stage'].append(('load',p))
            try: return ok(md.de_type(e,run,'Metablock',clone_val(blk[1]),'reader'))
            except md.DeFail: return err(self.b.variant('Error','Opaque',[mk_string('unparsable',True)]))
        run.ghost['stage'].append(('load',p))
        return ok(e.clone(run,Ref(Cell(blk))))
    def s_in_toto_run(self,e,run,a,f):
        name=need_conc(byte_list(a[0]),'inspection name').decode()
        run.ghost['events'].append(('run',name,len(run.ghost['stage'])))
        r=self.inspection_result(run,name,a)
        return r
    def inspection_result(self,run,name,a):
        """default: the inspection command succeeds and records nothing"""
        ld=LinkD(name,{},{},0)
        return ok(self.b.metablock(self.b.wrap_link(self.mk_link(run,ld)),[]))
    def s_fs_write(self,e,run,a,f):
        run.ghost['events'].append(('write',need_conc(byte_list(a[0]),'file name').decode(),len(run.ghost['stage'])))
        return ok(UNIT)
    # ------------------------------------------------------------------ helpers for specs
    def wit(self,run,rec,name,cond=None):
        if name in self.seen: return
        if cond is None: self.seen.add(name); rec['wit'].append(name); return
        r,m=run.check_sat(cond)
        if r==z3.sat: self.seen.add(name); rec['wit'].append(name)
    def new_rec(self,oc): return {'outcome':oc,'viol':None,'wit':[],'sample':None,'obl':0}
    def classify(self,run,rec,negprop,patterns,mk_scn,predicted,what,kind):
        """negprop: z3 term ¬P.  patterns: {key: term} known/anticipated violation shapes.
        First looks for a violation outside every pattern, then for each pattern."""
        rec['obl']+=1
        outside=z3.And(negprop,*[z3.Not(t) for t in patterns.values()]) if patterns else negprop
        r,m=run.check_sat(outside)
        if r==z3.sat:
            rec['viol']={'kind':kind,'known_key':None,'scenario':mk_scn(m),'predicted':predicted,'what':what}
            return True
        for key,t in patterns.items():
            r,m=run.check_sat(z3.And(negprop,t))
            if r==z3.sat:
                rec['viol']={'kind':kind+':'+key,'known_key':key,'scenario':mk_scn(m),'predicted':predicted,'what':what+' ['+key+']'}
                return True
        return False

# ---------------------------------------------------------------------------------------------------
def conc_sig(sd,m):
    return {'label':sd.label,'made_by':model_value(m,tbv(sd.made_by)),'intact':bool(model_value(m,tb(sd.intact))),'over':bool(model_value(m,tb(sd.over)))}
def conc_art(d,m):
    cv=lambda dg: [model_value(m,x) for x in (dg if isinstance(dg,list) else [dg])]
    return {p:({a:cv(x) for a,x in dg.items()} if isinstance(dg,dict) else cv(dg)) for p,dg in d.items()}
def conc_rules(rs): return [r if isinstance(r,list) else r for r in rs]
def conc_layout(ld,m,now_secs=None):
    exp=ld.expires
    if isinstance(exp,Agg): exp_s=model_value(m,exp.f[0].z()); exp_s=exp_s-(1<<64) if exp_s>>63 else exp_s; exp_n=model_value(m,exp.f[1].z())
    else: exp_s=exp; exp_n=0
    return {'readme':ld.readme,'keys':list(ld.keys),'key_alias':{str(k):v for k,v in ld.key_alias.items()},'same_material':{str(k):v for k,v in getattr(ld,'same_material',{}).items()},'expires_secs':exp_s,'expires_nanos':exp_n,
            'steps':[{'name':s.name,'threshold':model_value(m,s.threshold.z()) if isinstance(s.threshold,Int) else s.threshold,'pubkeys':list(s.pubkeys),
                      'expected_materials':getattr(s,'exp_mat_json',[]),'expected_products':getattr(s,'exp_prod_json',[])} for s in ld.steps],
            'inspect':[{'name':i.name,'run':(i.dyn_run(m) if hasattr(i,'dyn_run') else i.run),'expected_materials':getattr(i,'exp_mat_json',[]),'expected_products':getattr(i,'exp_prod_json',[])} for i in ld.inspect]}
def conc_block(bd,m):
    d={'type':bd.kind,'sigs':[conc_sig(s,m) for s in bd.sigs]}
    if bd.kind=='link':
        l=bd.body; rv=l.return_value
        d.update({'name':l.name,'materials':conc_art(l.materials,m),'products':conc_art(l.products,m),'command':l.command,
                  'return_value':(model_value(m,rv.z()) if isinstance(rv,Int) else rv)})
    else: d['layout']=conc_layout(bd.body,m)
    return d
def conc_scenario(m,layout_block,caller_keys,dirs,now,step_name=None,repeat=12):
    if isinstance(now,Int):
        ns=model_value(m,now.z()); ns=ns-(1<<64) if ns>>63 else ns
    else: ns=now
    return {'kind':'verify','now_secs':ns,'caller_keys':[{'key':k,'label':l} for k,l in caller_keys],'step_name':step_name,
            'layout':conc_block(layout_block,m),
            'dirs':[{'path':[list(c) for c in d],'files':[dict({'step':f.step,'prefix_of':f.prefix_of,'parsable':f.parsable,'block':conc_block(f.block,m)},**({'short_raw':f.short_raw} if f.short_raw is not None else {})) for f in files]} for d,files in dirs.items()],
            'repeat':repeat}
