"""C13 - the verification verdict is a deterministic function of its inputs.

Self-composition: `in_toto_verify` runs twice on identical inputs inside one path; the first run iterates
every hash map in insertion order, the second in every possible order.  Verdict and (on success) summary
materials/products must coincide; since the reference run is one of the possible orders, agreement of
every order with it is equivalent to agreement of every pair of orders."""
import z3, itertools
from .pipeline import *
from mirsym.models import val_eq
PAST=1000000000

class Determinism(PipelineBase):
    name='C13.determinism'
    def __init__(self,nlinks=2,two_steps=False,all_valid=False,nsig=1,alias=False,**kw):
        PipelineBase.__init__(self,**kw); self.nlinks=nlinks; self.two_steps=two_steps; self.all_valid=all_valid; self.nsig=nsig; self.alias=alias
        if alias: self.name='C13.determinism_one_key_under_two_ids'
        if all_valid: self.name='C13.determinism_%dlinks_all_valid'%nlinks
        if nsig>1: self.name='C13.determinism_%dlinks_%dsignatures_per_link'%(nlinks,nsig)
        self.bounds={'steps':2 if two_steps else 1,'links_per_step':nlinks,'threshold':'any u32','materials/products':'one path each, free digest byte per link (links may differ); in the all-valid variant every link but the first may report one more product of its own',
                     'signature_validity':'free per link','signatures_per_link':'%d, all labelled with the link\'s key id'%nsig,'hash_map_iteration':'run 1 insertion order, run 2 every permutation (all maps)' if not all_valid else 'run 1 insertion order, run 2 every rotation and the reversal of every map (each entry is first and last in some order)','directory_enumeration':'glob returns sorted paths (as the glob crate documents); not varied'}
        self.witnesses=['both_ok','both_err']
    def setup(self,eng,tier):
        PipelineBase.setup(self,eng,tier)
        body=self.entry_body
        def twice(run,args):
            a1,a2=args
            run.hash_order='fixed'
            try: r1=('ret',eng.call_fn(run,body,a1))
            except Panic as p: r1=('panic',p.site)
            run.hash_order='rot' if self.all_valid else 'all'
            try: r2=('ret',eng.call_fn(run,body,a2))
            except Panic as p: r2=('panic',p.site)
            return (r1,r2)
        self.twice=twice
    def entry(self,eng): return self.twice
    def build(self,run,first):
        n=self.nlinks; OWN=n
        dirs={():[]}; steps=[]
        for si in range(2 if self.two_steps else 1):
            sname='s%d'%si
            thr=Int(32,False,z3.BitVec('thr%d'%si,32))
            for i in range(n):
                mats={'a':[1] if self.all_valid else [z3.BitVec('dm_%d_%d'%(si,i),8)]}; prods={'p':[z3.BitVec('dp_%d_%d'%(si,i),8)]}
                # links may also differ in WHICH artifacts they report (one being a subset of another, or overlapping)
                if self.all_valid and i>0 and (run.pick(2,'extra_%d_%d'%(si,i)) if first else self._extra[(si,i)]):
                    prods['q%d'%i]=[7]
                    if first: self._extra[(si,i)]=True
                elif self.all_valid and i>0 and first: self._extra[(si,i)]=False
                mb=z3.BitVec('mb_%d_%d'%(si,i),8)
                if first: run.add(z3.ULE(mb,n))
                sd=SigD(i,i) if self.all_valid else SigD(i,mb,z3.Bool('in_%d_%d'%(si,i)),z3.Bool('ov_%d_%d'%(si,i)))
                sds=[sd]
                for j in range(1,self.nsig):      # further signatures under the SAME key id (a stale and a fresh one, say), each with free validity
                    mbj=z3.BitVec('mb_%d_%d_%d'%(si,i,j),8)
                    if first: run.add(z3.ULE(mbj,n))
                    sds.append(SigD(i,mbj,z3.Bool('in_%d_%d_%d'%(si,i,j)),z3.Bool('ov_%d_%d_%d'%(si,i,j))))
                dirs[()].append(FileD(sname,i,BlockD('link',LinkD(sname,mats,prods),sds)))
            steps.append(StepD(sname,thr,list(range(n))))
        # alias: key 1 of the table has its own identifier but the MATERIAL of key 0 (one functionary known under two ids)
        lay=LayoutD(list(range(n)),steps,same_material=({1:0} if self.alias else None))
        lb=BlockD('layout',lay,[SigD(OWN,OWN)]); caller=[(OWN,OWN)]
        return lb,caller,dirs
    def mk_args(self,run):
        self._extra={}
        lb,caller,dirs=self.build(run,True)
        a1=self.install(run,lb,caller,dirs)
        g1=dict(run.ghost['dirs'])
        lb2,caller2,dirs2=self.build(run,False)
        sigs=run.ghost['sigs']
        a2=self.install(run,lb2,caller2,dirs2)
        return (a1,a2),{'lb':lb,'caller':caller,'dirs':dirs}
    def check(self,run,out,g):
        kind,res=out
        r1,r2=res
        o1=outcome_of(r1); o2=outcome_of(r2)
        rec=self.new_rec(o1+'|'+o2)
        mk=lambda m: conc_scenario(m,g['lb'],g['caller'],g['dirs'],1700000000,repeat=60)
        v1='ok' if o1=='ok' else ('panic' if o1=='panic' else 'err'); v2='ok' if o2=='ok' else ('panic' if o2=='panic' else 'err')
        pats={}
        rec['obl']+=1
        if 'panic' in (v1,v2):
            r,m=run.check_sat(z3.BoolVal(True))
            rec['viol']={'kind':'panic','known_key':None,'scenario':mk(m),'predicted':'panic','what':'in_toto_verify panics'}; return rec
        if v1!=v2:
            r,m=run.check_sat(z3.BoolVal(True))
            rec['viol']={'kind':'verdict_depends_on_order','known_key':None,'scenario':mk(m),'predicted':['ok','err:VerificationFailure','err:ArtifactRuleError'],'what':'identical inputs give Ok under one hash-map iteration order and Err under another'}
            return rec
        if v1=='ok':
            l1=deref(self.b.get(deref(r1[1]).f[0],'metadata')).f[0]; l2=deref(self.b.get(deref(r2[1]).f[0],'metadata')).f[0]
            same=b_and(val_eq(self.b.get(l1,'materials'),self.b.get(l2,'materials')),val_eq(self.b.get(l1,'products'),self.b.get(l2,'products')))
            r,m=run.check_sat(z3.Not(same.z()))
            if r==z3.sat:
                rec['viol']={'kind':'summary_depends_on_order','known_key':None,'scenario':mk(m),'predicted':'nondeterministic-summary','what':'identical inputs give different summary materials/products under different hash-map iteration orders'}
                return rec
            self.wit(run,rec,'both_ok')
        else: self.wit(run,rec,'both_err')
        if is_sample(run,self.seed,self.rate):
            r,m=run.check_sat(z3.BoolVal(True))
            if r==z3.sat: rec['sample']={'scenario':mk(m),'expect':'ok' if v1=='ok' else 'err'}
        return rec

class HistoryIndependence(PipelineBase):
    """the verdict on inputs B is a function of B alone: verifying some other inputs A earlier in the same process (statics and
    any other state that outlives a call are shared within a run) must not change the verdict or the summary for B"""
    name='C13.history_independence'
    def __init__(self,**kw):
        PipelineBase.__init__(self,**kw)
        self.bounds={'sequence':'run 1: in_toto_verify(B) in a fresh process; run 2: in_toto_verify(A) then in_toto_verify(B) in one process','A and B':'one step, two functionaries, threshold any u32, per functionary a link present/absent with free signature validity and free digests; A and B use different link directories and share the keys',
                     'hash_map_iteration':'insertion order (order dependence is decided by the other obligations)'}
        self.hash_order='fixed'
        self.witnesses=['both_ok','both_err']
    def setup(self,eng,tier):
        PipelineBase.setup(self,eng,tier)
        body=self.entry_body
        def seq(run,args):
            aA,aB1,aB2=args
            def call(a):
                try: return ('ret',eng.call_fn(run,body,a))
                except Panic as p: return ('panic',p.site)
            run.ghost.pop('statics',None)
            r_alone=call(aB1)
            run.ghost.pop('statics',None)           # a new process
            call(aA)
            r_after=call(aB2)
            return (r_alone,r_after)
        self.seq=seq
    def entry(self,eng): return self.seq
    def scenario(self,run,tag,first=True):
        n=2; OWN=n
        thr=Int(32,False,z3.BitVec('thr_'+tag,32)); files=[]
        for i in range(n):
            if run.pick(2,'file_%s_%d'%(tag,i)) if first else self._picks[(tag,i)]:
                if first: self._picks[(tag,i)]=True
                mb=z3.BitVec('mb_%s_%d'%(tag,i),8)
                if first: run.add(z3.ULE(mb,n))
                sd=SigD(i,mb,z3.Bool('in_%s_%d'%(tag,i)),z3.Bool('ov_%s_%d'%(tag,i)))
                files.append(FileD('s0',i,BlockD('link',LinkD('s0',{'a':[z3.BitVec('dm_%s_%d'%(tag,i),8)]},{'p':[z3.BitVec('dp_%s_%d'%(tag,i),8)]}),[sd])))
            elif first: self._picks[(tag,i)]=False
        lay=LayoutD(list(range(n)),[StepD('s0',thr,list(range(n)))],readme=tag)
        return BlockD('layout',lay,[SigD(OWN,OWN)]),[(OWN,OWN)],{():files}
    def mk_args(self,run):
        self._picks={}
        A=self.scenario(run,'A'); B=self.scenario(run,'B')
        self.link_dir='linksA'; aA=self.install(run,*A); dA=dict(run.ghost['dirs'])
        self.link_dir='linksB'; aB1=self.install(run,*B); dB=dict(run.ghost['dirs'])
        B2=self.scenario(run,'B',first=False); aB2=self.install(run,*B2)
        run.ghost['dirs'].update(dA); run.ghost['dirs'].update(dB)
        self.link_dir='links'
        return (aA,aB1,aB2),{'A':A,'B':B}
    def check(self,run,out,g):
        r1,r2=out[1]
        o1=outcome_of(r1); o2=outcome_of(r2); rec=self.new_rec(o1+'|'+o2); rec['obl']=1
        v=lambda o: 'ok' if o=='ok' else ('panic' if o=='panic' else 'err')
        def mk(m):
            self.link_dir='links'
            first=conc_scenario(m,g['A'][0],g['A'][1],g['A'][2],1700000000,repeat=1); second=conc_scenario(m,g['B'][0],g['B'][1],g['B'][2],1700000000,repeat=1)
            return {'kind':'verify_sequence','first':first,'second':second,'sleep_ms':0,'also_alone':True}
        if v(o1)!=v(o2):
            r,m=run.check_sat(z3.BoolVal(True))
            rec['viol']={'kind':'verdict_depends_on_earlier_verifications','known_key':None,'scenario':mk(m),'predicted':v(o2) if v(o2)!='err' else 'err','confirm':{'alone_differs':True},'what':'the same inputs are %s when verified in a fresh process and %s after another verification ran in the same process'%(v(o1),v(o2))}; return rec
        if v(o1)=='ok':
            l1=deref(self.b.get(deref(r1[1]).f[0],'metadata')).f[0]; l2=deref(self.b.get(deref(r2[1]).f[0],'metadata')).f[0]
            same=b_and(val_eq(self.b.get(l1,'materials'),self.b.get(l2,'materials')),val_eq(self.b.get(l1,'products'),self.b.get(l2,'products')))
            r,m=run.check_sat(z3.Not(same.z()))
            if r==z3.sat:
                rec['viol']={'kind':'summary_depends_on_earlier_verifications','known_key':None,'scenario':mk(m),'predicted':'ok','confirm':{'alone_differs':True},'what':'the summary for the same inputs differs after another verification ran in the same process'}; return rec
            self.wit(run,rec,'both_ok')
        else: self.wit(run,rec,'both_err')
        if is_sample(run,self.seed,8):
            r,m=run.check_sat(z3.BoolVal(True))
            if r==z3.sat: rec['sample']={'scenario':mk(m),'expect':'ok' if v(o2)=='ok' else 'err','confirm':{'alone_differs':False}}
        return rec

class RepeatedFailures(PipelineBase):
    """a long history: n verifications that FAIL (inside a sub-layout, at the owner signature, at a rule) in one process, then a
    valid layout B - with and without a sub-layout - must get the verdict it gets in a fresh process.  Whatever a failing call
    leaves behind (counters, caches, guards that an early return skipped) accumulates over the n calls."""
    name='C13.verdict_after_many_failed_verifications'
    KINDS=['sublayout_expired','sublayout_link_missing','owner_signature_bad','rule_fails']
    def __init__(self,ns=(1,10),**kw):
        PipelineBase.__init__(self,**kw); self.ns=list(ns)
        self.bounds={'history':'n in %s failing calls of in_toto_verify, all of one kind: %s'%(self.ns,', '.join(self.KINDS)),'then':'a valid layout: one step answered by a link, or one step answered by a validly signed sub-layout; free digest byte',
                     'statics':'shared by all calls of a run (thread-locals, statics, OnceLock ...)','hash_map_iteration':'insertion order'}
        self.hash_order='fixed'
        self.witnesses=['ok_after_history']
    def setup(self,eng,tier):
        PipelineBase.setup(self,eng,tier)
        body=self.entry_body
        def seq(run,args):
            aAs,aB=args
            run.ghost.pop('statics',None)
            for aA in aAs:
                try: eng.call_fn(run,body,aA)
                except Panic as p: return ('history_panic',p.site)
            try: return ('ret',eng.call_fn(run,body,aB))
            except Panic as p: return ('panic',p.site)
        self.seq=seq
    def entry(self,eng): return self.seq
    def scen_A(self,kind):
        F0=0; OWN=2
        if kind in ('sublayout_expired','sublayout_link_missing'):
            inner=LayoutD([F0],[StepD('i0',1,[F0])]) if kind=='sublayout_link_missing' else LayoutD([],[],expires=PAST)
            dirs={():[FileD('d',F0,BlockD('layout',inner,[SigD(F0,F0)]))],(('d',F0),):[]}
            return BlockD('layout',LayoutD([F0],[StepD('d',1,[F0])],readme='A'),[SigD(OWN,OWN)]),[(OWN,OWN)],dirs
        if kind=='owner_signature_bad':
            return BlockD('layout',LayoutD([],[],readme='A'),[SigD(OWN,OWN,False,True)]),[(OWN,OWN)],{():[]}
        st=StepD('s0',1,[F0]); st.exp_prod=[self.b.rule('Disallow','*')]; st.exp_prod_json=[['DISALLOW','*']]
        return BlockD('layout',LayoutD([F0],[st],readme='A'),[SigD(OWN,OWN)]),[(OWN,OWN)],{():[FileD('s0',F0,BlockD('link',LinkD('s0',{},{'p':[1]}),[SigD(F0,F0)]))]}
    def scen_B(self,sub):
        F0=0; OWN=2; d=z3.BitVec('dB',8)
        if sub:
            inner=LayoutD([F0],[StepD('i0',1,[F0])])
            dirs={():[FileD('d',F0,BlockD('layout',inner,[SigD(F0,F0)]))],(('d',F0),):[FileD('i0',F0,BlockD('link',LinkD('i0',{},{'p':[d]}),[SigD(F0,F0)]))]}
            return BlockD('layout',LayoutD([F0],[StepD('d',1,[F0])],readme='B'),[SigD(OWN,OWN)]),[(OWN,OWN)],dirs
        return BlockD('layout',LayoutD([F0],[StepD('s0',1,[F0])],readme='B'),[SigD(OWN,OWN)]),[(OWN,OWN)],{():[FileD('s0',F0,BlockD('link',LinkD('s0',{},{'p':[d]}),[SigD(F0,F0)]))]}
    def mk_args(self,run):
        kind=self.KINDS[run.pick(len(self.KINDS),'history_kind')]; n=self.ns[run.pick(len(self.ns),'history_length')] if len(self.ns)>1 else self.ns[0]
        sub=bool(run.pick(2,'B_has_sublayout'))
        A=self.scen_A(kind); B=self.scen_B(sub)
        # the failing call is the same every time: installed once (signature tags are one byte), its arguments copied per call
        from mirsym.models import clone_val
        self.link_dir='linksA'; a0=self.install(run,*A); dA=dict(run.ghost['dirs'])
        aAs=[[Ref(Cell(clone_val(deref(a0[0])))),clone_val(a0[1]),a0[2],a0[3]] for _ in range(n)]
        self.link_dir='linksB'; aB=self.install(run,*B); run.ghost['dirs'].update(dA)
        self.link_dir='links'
        return (aAs,aB),{'A':A,'B':B,'n':n,'kind':kind,'sub':sub}
    def check(self,run,out,g):
        kind=out[1][0] if out[0]=='ret' else 'panic'
        rec=self.new_rec(kind); rec['obl']=1
        def mk(m):
            self.link_dir='links'
            first=conc_scenario(m,g['A'][0],g['A'][1],g['A'][2],1700000000,repeat=1); second=conc_scenario(m,g['B'][0],g['B'][1],g['B'][2],1700000000,repeat=1)
            return {'kind':'verify_sequence','first':first,'second':second,'sleep_ms':0,'also_alone':True,'repeat_first':g['n']}
        r,m=run.check_sat(z3.BoolVal(True))
        where='%d failed verifications (%s) then a valid layout %s a sub-layout'%(g['n'],g['kind'],'with' if g['sub'] else 'without')
        if out[0]!='ret' or kind in ('history_panic','panic'):
            rec['viol']={'kind':'panic','known_key':None,'scenario':mk(m),'predicted':'panic','what':'in_toto_verify panics (%s)'%where}; return rec
        oc=outcome_of(out[1])
        rec['outcome']=oc
        if oc!='ok':
            rec['viol']={'kind':'verdict_depends_on_earlier_verifications','known_key':None,'scenario':mk(m),'predicted':{'not':'ok'},'confirm':{'alone_differs':True},'what':'a valid layout is rejected after %s'%where}; return rec
        self.wit(run,rec,'ok_after_history')
        rec['sample']={'scenario':mk(m),'expect':'ok','confirm':{'alone_differs':False}}
        return rec
