"""C18 - recorded artifacts are exactly the files present, with their true digests (decidable part).

The file system, the directory walker and the subprocess are system calls; they are replaced by a *ghost file
system* (dict path -> bytes) behind stubs of WalkDir, symlink_metadata, File::open / BufReader and Read::read (the
last with a nondeterministic chunking schedule).  Everything else - `record_artifacts`, `record_artifact`,
`dir_entry_to_path`, `apply_left_strip`, `calculate_hashes`, the hash-algorithm table, duplicate-key detection,
`in_toto_run`'s sequencing - runs from MIR."""
import z3, hashlib
from mirsym.values import *
from mirsym.runner import Obligation
from mirsym.build import B, model_value
from mirsym.models import bytes_eq, val_eq, b_and, path_clean, need_conc, pb_bytes
from .common import outcome_of, is_sample

class LeftStrip(Obligation):
    """apply_left_strip(path, prefixes) = path minus the longest listed prefix that it starts with"""
    name='C18.apply_left_strip'
    def __init__(self,plen=3,nprefix=2,seed=0,known=(),**kw):
        self.plen=plen; self.nprefix=nprefix; self.seed=seed
        self.bounds={'path':'0..%d free ASCII bytes'%plen,'prefix list':'absent, or 0..%d prefixes of 0..2 free ASCII bytes each, in any order'%nprefix}
        self.witnesses=['stripped','unchanged']; self.seen=set()
    def setup(self,eng,tier): self.eng=eng; self.fn=eng.find_fn('apply_left_strip')
    def entry(self,eng): return self.fn
    def mk_args(self,run):
        def sb(name,n):
            bs=[z3.BitVec('%s_%d'%(name,i),8) for i in range(n)]
            for x in bs: run.add(z3.ULT(x,0x80),x!=0)
            return bs
        path=sb('p',run.pick(self.plen+1,'plen'))
        k=run.pick(self.nprefix+2,'npre')
        if k==self.nprefix+1: return [Ref(Cell(Str(path))),none()],{'path':path,'pre':None}
        pres=[sb('q%d'%i,run.pick(3,'qlen%d'%i)) for i in range(k)]
        lst=VecO([Ref(Cell(Str(q))) for q in pres])
        return [Ref(Cell(Str(path))),some(Ref(Cell(lst)))],{'path':path,'pre':pres}
    def check(self,run,out,g):
        oc=outcome_of(out); rec={'outcome':oc,'viol':None,'wit':[],'sample':None,'obl':1}
        path=g['path']; pres=g['pre']
        def scn(m): return {'kind':'left_strip','path':[model_value(m,x) for x in path],'prefixes':None if pres is None else [[model_value(m,x) for x in q] for q in pres]}
        if oc!='ok':
            r,m=run.check_sat(z3.BoolVal(True))
            rec['viol']={'kind':'left_strip_fails','known_key':None,'scenario':scn(m),'predicted':'panic' if oc=='panic' else 'err','what':'apply_left_strip does not return a path: '+oc}; return rec
        got=byte_list(deref(out[1]).f[0])
        # reference: longest prefix among those the path starts with (first among equally long ones: same result)
        def starts(q): return bytes_eq(path[:len(q)],q).z() if len(q)<=len(path) else z3.BoolVal(False)
        cases=[]
        cand=[(q,starts(q)) for q in (pres or [])]
        for q,sq in cand:
            longer=[s2 for q2,s2 in cand if len(q2)>len(q)]
            cases.append(z3.Implies(z3.And(sq,*[z3.Not(s) for s in longer]),bytes_eq(got,path[len(q):]).z() if len(got)==len(path)-len(q) else z3.BoolVal(False)))
        cases.append(z3.Implies(z3.And(*[z3.Not(s) for _,s in cand]) if cand else z3.BoolVal(True),bytes_eq(got,path).z() if len(got)==len(path) else z3.BoolVal(False)))
        bad=z3.Not(z3.And(*cases))
        # prefer a counterexample that can be replayed on a real file system (letters only), else any
        nice=z3.And(*[z3.And(z3.UGE(x,0x61),z3.ULE(x,0x7a)) for x in list(path)+[y for q in (pres or []) for y in q]]) if path else z3.BoolVal(False)
        r,m=run.check_sat(z3.And(bad,nice))
        if r!=z3.sat: r,m=run.check_sat(bad)
        if r==z3.sat:
            rec['viol']={'kind':'not_longest_prefix','known_key':None,'scenario':scn(m),'predicted':'str:'+bytes(model_value(m,x) for x in got).decode(errors='replace'),'what':'the recorded key is not the path minus the longest matching strip prefix'}; return rec
        w='stripped' if len(got)<len(path) else 'unchanged'
        if w not in self.seen: self.seen.add(w); rec['wit'].append(w)
        return rec

class GhostFS:
    """environment stubs over run.ghost['fs'] = {path: byte terms}"""
    def __init__(self,eng,b):
        self.b=b
        S=eng.stub
        S(r'^WalkDir::new$',lambda e,run,a,f: Opaque('WalkDir',need_conc(pb_bytes(a[0]),'walk root').decode()),'walkdir::WalkDir::new [ghost file system]')
        S(r'^WalkDir::follow_links$',lambda e,run,a,f: a[0],'walkdir::WalkDir::follow_links')
        S(r'^<WalkDir as IntoIterator>::into_iter$',self.walk,'walkdir::WalkDir::into_iter [ghost file system: directories before their entries, entries in name order]')
        S(r'^<walkdir::IntoIter as Iterator>::next$',self.next,'walkdir::IntoIter::next')
        S(r'^walkdir::IntoIter::skip_current_dir$',self.skip_current_dir,'walkdir::IntoIter::skip_current_dir [ghost: drops the rest of the directory the walk is in]')
        S(r'^walkdir::Error::loop_ancestor$',lambda e,run,a,f: some(Ref(Cell(Agg('Path',[mk_string('<ancestor>')])))) if deref(a[0]).p['loop'] else none(),'walkdir::Error::loop_ancestor')
        S(r'^walkdir::Error::path$',lambda e,run,a,f: some(Ref(Cell(Agg('Path',[mk_string(deref(a[0]).p['path'])])))),'walkdir::Error::path')
        S(r'^(std::fs::)?canonicalize$',self.canonicalize,'std::fs::canonicalize [ghost file system: absolute, links resolved]')
        S(r'^walkdir::DirEntry::path$',lambda e,run,a,f: Ref(Cell(Agg('Path',[mk_string(deref(a[0]).p)]))),'walkdir::DirEntry::path')
        S(r'^(std::fs::)?symlink_metadata$',self.meta,'std::fs::symlink_metadata [ghost file system; does not follow links]')
        S(r'^(std::fs::)?metadata$',self.meta_follow,'std::fs::metadata [ghost file system; follows links]')
        S(r'^(std::fs::)?read_link$',self.read_link,'std::fs::read_link [ghost file system]')
        S(r'^(std::fs::)?Metadata::len$',lambda e,run,a,f: Int(64,False,deref(a[0]).p[1]),'std::fs::Metadata::len')
        S(r'^(std::fs::)?Metadata::is_file$',lambda e,run,a,f: Bool(deref(a[0]).p[0]=='file'),'std::fs::Metadata::is_file')
        S(r'^(std::fs::)?Metadata::is_dir$',lambda e,run,a,f: Bool(deref(a[0]).p[0]=='dir'),'std::fs::Metadata::is_dir')
        S(r'^(std::io::)?Read::take$|^<.* as (std::io::)?Read>::take$',lambda e,run,a,f: Opaque('Take',{'inner':a[0],'limit':a[1]}),'std::io::Read::take')
        S(r'^(std::fs::)?Metadata::file_type$',lambda e,run,a,f: Opaque('FileType',deref(a[0]).p[0]),'std::fs::Metadata::file_type')
        S(r'^FileType::is_symlink$',lambda e,run,a,f: Bool(deref(a[0]).p=='symlink'),'FileType::is_symlink')
        S(r'^FileType::is_file$',lambda e,run,a,f: Bool(deref(a[0]).p=='file'),'FileType::is_file')
        S(r'^FileType::is_dir$',lambda e,run,a,f: Bool(deref(a[0]).p=='dir'),'FileType::is_dir')
        S(r'^(std::fs::)?File::open$',self.open,'std::fs::File::open [ghost file system]')
        S(r'^(std::fs::)?File::metadata$',self.file_meta,'std::fs::File::metadata [ghost file system]')
        S(r'^(std::fs::)?Metadata::(modified|created|accessed)$',self.modified,'std::fs::Metadata::modified [ghost: one free instant per file state; a command that rewrites a file may leave it unchanged]')
        S(r'^<(std::time::)?SystemTime as (std::cmp::)?PartialEq>::(eq|ne)$',self.time_eq,'SystemTime == SystemTime')
        S(r'^BufReader::new$',lambda e,run,a,f: a[0],'std::io::BufReader::new')
        S(r' as (std::io::)?Read>::read$',self.read,'std::io::Read::read [nondeterministic chunking of the ghost file content]')
    # ---- the ghost file system proper: regular files run.ghost['fs'] {path: bytes}, symbolic links run.ghost['links'] {path: target}
    # (a target may name a file or a DIRECTORY, relative to the directory holding the link or absolute "@ROOT/.."); directories
    # exist implicitly.  All paths are relative to the ghost root.
    def phys(self,run,p,follow_last=True,depth=0):
        """kernel path resolution: the physical path p leads to (no `.`, `..`, links) or None (dangling, loop, not a directory)"""
        if depth>12: return None
        links=run.ghost.get('links',{})
        if p.startswith('@ROOT/'): p=p[len('@ROOT/'):]
        comps=[c for c in p.split('/') if c not in ('','.')]
        cur=[]
        for i,c in enumerate(comps):
            if c=='..':
                if cur: cur.pop()
                continue
            cand='/'.join(cur+[c]); last=(i==len(comps)-1)
            if cand in links and (follow_last or not last):
                t=links[cand]
                tp=t if t.startswith('@ROOT/') else '@ROOT/'+'/'.join(cur+[t])
                r=self.phys(run,tp,True,depth+1)
                if r is None: return None
                cur=[x for x in r.split('/') if x]
            else: cur=cur+[c]
            if not last and self.kind_phys(run,'/'.join(cur))!='dir': return None
        return '/'.join(cur)
    def kind_phys(self,run,p):
        if p=='': return 'dir'
        if p in run.ghost.get('links',{}): return 'symlink'
        if p in run.ghost['fs']: return 'file'
        pre=p+'/'
        if any(q.startswith(pre) for q in run.ghost['fs']) or any(q.startswith(pre) for q in run.ghost.get('links',{})): return 'dir'
        return None
    def children(self,run,pd):
        pre=pd+'/' if pd else ''
        return sorted({q[len(pre):].split('/')[0] for q in list(run.ghost['fs'])+list(run.ghost.get('links',{})) if q.startswith(pre) and q!=pd})
    def enumerate(self,run,root):
        """walkdir with follow_links(true) from `root`: [('ok'|'loop'|'ioerr', path as reported)], directories before their entries,
        entries in name order; a link to a directory that is an ancestor in the current descent is reported as a loop error"""
        links=run.ghost.get('links',{}); ents=[]
        def visit(path,pd,stack):
            for name in self.children(run,pd):
                child=(path.rstrip('/')+'/'+name) if path not in ('','.') else (name if path=='' else './'+name)
                cp=(pd+'/'+name) if pd else name
                if cp in links:
                    tgt=self.phys(run,cp,True)
                    if tgt is None or self.kind_phys(run,tgt) is None: ents.append(('ioerr',child)); continue      # dangling: walkdir (following) reports an I/O error
                    if self.kind_phys(run,tgt)=='dir':
                        if tgt in stack: ents.append(('loop',child)); continue
                        ents.append(('ok',child)); visit(child,tgt,stack+[tgt])
                    else: ents.append(('ok',child))
                elif self.kind_phys(run,cp)=='dir': ents.append(('ok',child)); visit(child,cp,stack+[cp])
                else: ents.append(('ok',child))
        rp=self.phys(run,root,True)
        k=None if rp is None else self.kind_phys(run,rp)
        if k is None: return [('ioerr',root)]
        ents.append(('ok',root))
        if k=='dir': visit(root,rp,[rp])
        return ents
    def walk(self,e,run,a,f):
        return Opaque('WalkIter',{'ents':self.enumerate(run,deref(a[0]).p),'i':0})
    def next(self,e,run,a,f):
        it=deref(a[0]).p
        if it['i']>=len(it['ents']): return none()
        k,p=it['ents'][it['i']]; it['i']+=1
        if k=='ok': return some(ok(Opaque('DirEntry',p)))
        return some(err(Opaque('walkdir::Error',{'loop':k=='loop','path':p})))
    def skip_current_dir(self,e,run,a,f):
        # walkdir: "skips the current directory": if the last yielded entry is a directory its contents are skipped, otherwise
        # the remaining entries of the directory that entry lives in
        it=deref(a[0]).p
        if it['i']==0: return UNIT
        last=it['ents'][it['i']-1][1]
        is_dir=any(x[1].startswith(last+'/') for x in it['ents'])
        pre=(last if is_dir else last.rsplit('/',1)[0] if '/' in last else '')+'/'
        while it['i']<len(it['ents']) and it['ents'][it['i']][1].startswith(pre): it['i']+=1
        return UNIT
    def resolve(self,run,p): return self.phys(run,p,True)
    def canonicalize(self,e,run,a,f):
        p=self.phys(run,need_conc(pb_bytes(a[0]),'canonicalize path').decode(),True)
        if p is None or self.kind_phys(run,p) is None: return err(Opaque('io::Error','not found'))
        return ok(Agg('PathBuf',[mk_string('/ghost-root/'+p)]))
    def kind(self,run,p):
        pp=self.phys(run,p,False)
        return None if pp is None else self.kind_phys(run,pp)
    def size(self,run,p,k):
        if k=='symlink': return len(run.ghost['links'][p].replace('@ROOT/','/tmp/verif-root/').encode())
        if k=='file': return len(run.ghost['fs'][p])
        return 4096
    def meta(self,e,run,a,f):
        pp=self.phys(run,need_conc(pb_bytes(a[0]),'metadata path').decode(),False)
        k=None if pp is None else self.kind_phys(run,pp)
        if k is None: return err(Opaque('io::Error','not found'))
        return ok(Opaque('Metadata',(k,self.size(run,pp,k),pp)))
    def meta_follow(self,e,run,a,f):
        pp=self.phys(run,need_conc(pb_bytes(a[0]),'metadata path').decode(),True)
        k=None if pp is None else self.kind_phys(run,pp)
        if k is None: return err(Opaque('io::Error','not found'))
        return ok(Opaque('Metadata',(k,self.size(run,pp,k),pp)))
    def read_link(self,e,run,a,f):
        pp=self.phys(run,need_conc(pb_bytes(a[0]),'read_link path').decode(),False)
        if pp is None or pp not in run.ghost.get('links',{}): return err(Opaque('io::Error','not a link'))
        return ok(Agg('PathBuf',[mk_string(run.ghost['links'][pp])]))
    def open(self,e,run,a,f):
        pp=self.phys(run,need_conc(pb_bytes(a[0]),'open path').decode(),True)
        if pp is None or self.kind_phys(run,pp)!='file': return err(Opaque('io::Error','not found'))
        run.ghost['opened'].append(pp)
        return ok(Ref(Cell(Opaque('File',{'path':pp,'pos':0,'reads':0}))))
    def file_meta(self,e,run,a,f):
        fo=deref(a[0]); p=fo.p['path']
        return ok(Opaque('Metadata',('file',len(run.ghost['fs'][p]),p)))
    def modified(self,e,run,a,f):
        m=deref(a[0]).p
        if len(m)<3: raise Unsupported('modification time of '+repr(m)[:60])
        mt=run.ghost.setdefault('mtime',{})
        if m[2] not in mt: mt[m[2]]=z3.BitVec('mtime_'+m[2],64)       # a free instant per file (equal instants of different files are possible)
        return ok(Agg('SystemTime',[Int(64,False,mt[m[2]])]))
    def time_eq(self,e,run,a,f):
        x=deref(deref(a[0])); y=deref(deref(a[1])); r=e.binop('Eq',x.f[0],y.f[0])
        return r if f.endswith('eq') else b_not(r)
    def read_link(self,e,run,a,f):
        p=need_conc(pb_bytes(a[0]),'read_link path').decode()
        if p not in run.ghost.get('links',{}): return err(Opaque('io::Error','not a link'))
        return ok(Agg('PathBuf',[mk_string(run.ghost['links'][p])]))
    def open(self,e,run,a,f):
        p0=need_conc(pb_bytes(a[0]),'open path').decode()
        p=self.resolve(run,p0)
        if p is None or self.kind(run,p)!='file': return err(Opaque('io::Error','not found'))
        run.ghost['opened'].append(p)
        return ok(Ref(Cell(Opaque('File',{'path':p,'pos':0,'reads':0}))))
    def read(self,e,run,a,f):
        fo=deref(a[0]); limit=None
        if isinstance(fo,Opaque) and fo.kind=='Take':
            lim=fo.p['limit']
            if not lim.conc(): raise Unsupported('symbolic Take limit')
            limit=lim.v-fo.p.get('taken',0); tk=fo; fo=deref(fo.p['inner'])
        st=fo.p; content=run.ghost['fs'][st['path']]; buf=deref(a[1])
        rem=len(content)-st['pos']
        if limit is not None: rem=min(rem,max(limit,0))
        st['reads']+=1
        if rem==0: return ok(Int(64,False,0))
        if run.ghost.get('io_error_at')==(st['path'],st['reads']): return err(Opaque('io::Error','read failed'))
        k=1+run.pick(rem,'chunk')
        for i in range(k): buf.items[i]=Int(8,False,content[st['pos']+i])
        st['pos']+=k
        if limit is not None: tk.p['taken']=tk.p.get('taken',0)+k
        return ok(Int(64,False,k))

class Record(Obligation):
    name='C18.record_artifacts'
    hash_order='fixed'
    def __init__(self,seed=0,known=(),flen=2,nlinks=5,**kw):
        self.seed=seed; self.flen=flen; self.nlinks=nlinks
        self.bounds={'ghost file system':'files r/left/w, r/right/w (optionally r/left/x or r/r/w) with 0..%d free content bytes each'%flen,'path arguments':'[r], [r/left, r/right] or [r/left] (non-overlapping)',
                     'strip prefixes':'none; [r/]; [r/left/, r/right/] (keys collide); [r/, r/left/] (longest wins)','hash algorithms':'default, [sha256], [sha256, sha512], [md5] (unknown)',
                     'read schedule':'every split of each file into non-empty chunks; optionally one failing read','symbolic links':'none, or one link to a file: relative target in the same directory, absolute target, relative target through .., a chain of two links, or two links to the same file (links to directories and cycles: record_artifacts_linked_directories)'}
        self.witnesses=['recorded','duplicate_key_error','unknown_algorithm_error','io_error']; self.seen=set()
    def setup(self,eng,tier):
        self.eng=eng; self.b=B(eng); self.fs=GhostFS(eng,self.b); self.fn=eng.find_fn('record_artifacts')
        from mirsym import models as M
        orig_finish=M.m_digest_finish
        def finish(e,run,a,f):
            r=orig_finish(e,run,a,f); run.ghost['digests'].append(r.p); return r
        eng.stub(r'^(ring::)?digest::Context::finish$',finish,'ring::digest::Context::finish [injective digest model, records the pre-image]')
    def entry(self,eng): return self.fn
    def mk_args(self,run):
        def content(name):
            n=run.pick(self.flen+1,'len_'+name); return [z3.BitVec('%s_%d'%(name,i),8) for i in range(n)]
        fs={'r/left/w':content('lw'),'r/right/w':content('rw')}
        ex=run.pick(3,'extra')
        if ex==1: fs['r/left/x']=content('lx')
        if ex==2: fs['r/r/w']=content('nw')       # a directory nested in a directory of the same name: a strip prefix is removed once, not repeatedly
        links=[{},{'r/left/l':'w'},{'r/left/a':'w','r/left/b':'w'},{'r/left/l':'@ROOT/r/left/w'},{'r/right/l':'../left/w'},{'r/left/l':'l2','r/left/l2':'w'}][run.pick(self.nlinks,'link')]
        paths=[['r'],['r/left','r/right'],['r/left']][run.pick(3,'paths')]
        strips=[None,['r/'],['r/left/','r/right/'],['r/','r/left/']][run.pick(4,'strips')]
        algs=[None,['sha256'],['sha256','sha512'],['md5']][run.pick(4,'algs')]
        run.ghost.update({'fs':fs,'links':links,'opened':[],'digests':[],'io_error_at':None})
        if run.pick(2,'io_error'):
            files=sorted(fs); run.ghost['io_error_at']=(files[run.pick(len(files),'err_file')],1+run.pick(2,'err_read'))
        mk=lambda l: Ref(Cell(VecO([mk_str(x) for x in l])))
        args=[mk(paths),none() if algs is None else some(mk(algs)),none() if strips is None else some(mk(strips))]
        return args,{'fs':fs,'links':links,'paths':paths,'strips':strips,'algs':algs}
    def expected(self,run,g):
        """the specification side: every regular file reachable under the NORMALISED path arguments (through links to files and to
        directories; a link back to a directory on the way down ends that branch), keyed by its normalised path minus the longest
        strip prefix.  The walk itself (walkdir) is a dependency: its ghost model enumerates the entries."""
        files=[]
        for arg in g['paths']:
            for k,pth in self.fs.enumerate(run,path_clean(arg)):
                if k!='ok': continue
                cp=path_clean(pth); pp=self.fs.phys(run,cp,True)
                if pp is not None and self.fs.kind_phys(run,pp)=='file': files.append((cp,pp))
        keys={}
        for cp,pp in files:
            best=''
            for q in (g['strips'] or []):
                if cp.startswith(q) and len(q)>len(best): best=q
            keys.setdefault(cp[len(best):],[]).append(pp)
        return [cp for cp,_ in files],keys
    def check(self,run,out,g):
        oc=outcome_of(out); rec={'outcome':oc,'viol':None,'wit':[],'sample':None,'obl':1}
        def scn(m): return {'kind':'record','fs':{p:[model_value(m,x) for x in c] for p,c in g['fs'].items()},'links':g['links'],'paths':g['paths'],'strips':g['strips'],'algs':g['algs']}
        def W(n):
            if n not in self.seen: self.seen.add(n); rec['wit'].append(n)
        files,keys=self.expected(run,g)
        dup=any(len(v)>1 for v in keys.values()); unknown=g['algs']==['md5']
        ioerr=run.ghost['io_error_at'] is not None and run.ghost['io_error_at'][0] in files and any(True for _ in [0])
        r0,m0=run.check_sat(z3.BoolVal(True))
        if oc=='panic':
            rec['viol']={'kind':'panic','known_key':None,'scenario':scn(m0),'predicted':'panic','what':'record_artifacts panics: '+str(out[1])}; return rec
        if oc=='ok':
            if unknown or dup:
                res0=deref(deref(out[1]).f[0]); got0=sorted(need_conc(byte_list(k),'artifact key').decode() for k,_ in res0.e)
                rec['viol']={'kind':'duplicate_key_not_reported' if dup else 'unknown_algorithm_accepted','known_key':None,'scenario':scn(m0),'predicted':'keys:'+','.join(got0),'what':'record_artifacts succeeds although '+('two files receive the same key' if dup else 'an unknown hash algorithm was requested')}; return rec
            res=deref(deref(out[1]).f[0])
            got={need_conc(byte_list(k),'artifact key').decode():v for k,v in res.e}
            if set(got)!=set(keys):
                # natively the directory order (hence which entries a wrong walk loses) is the file system's: require a deviation from the correct key set
                rec['viol']={'kind':'wrong_key_set','known_key':None,'scenario':scn(m0),'predicted':{'not':'keys:'+','.join(sorted(keys))},'what':'recorded keys %s differ from the expected %s'%(sorted(got),sorted(keys))}; return rec
            algs=g['algs'] or ['sha256']
            for key,ps in keys.items():
                desc=deref(got[key]); content=g['fs'][ps[0]]
                if len(desc.e)!=len(algs):
                    rec['viol']={'kind':'wrong_algorithm_set','known_key':None,'scenario':scn(m0),'predicted':'ok','what':'digest entry count differs from the requested algorithms'}; return rec
                for ak,hv in desc.e:
                    alg={'Sha256':'SHA256','Sha512':'SHA512'}[deref(ak).vname]
                    hb=byte_list(hv)
                    # find the digest computation that produced these bytes and compare its pre-image with the file content
                    src=[d for d in run.ghost['digests'] if d.ghost['alg']==alg and len(d.b)==len(hb) and all((x is y) or (not isinstance(x,int) and not isinstance(y,int) and x.eq(y)) or x==y if isinstance(x,int) and isinstance(y,int) else (not isinstance(x,int) and not isinstance(y,int) and x.eq(y)) for x,y in zip(d.b,hb))]
                    if not src:
                        rec['viol']={'kind':'digest_of_unknown_origin','known_key':None,'scenario':scn(m0),'predicted':'ok','what':'a recorded digest is not the output of a digest computation'}; return rec
                    pre=src[0].ghost['pre']
                    same=bytes_eq(pre,content)
                    r,m=run.check_sat(z3.Not(same.z()))
                    if r==z3.sat:
                        rec['viol']={'kind':'digest_of_other_bytes','confirm':{'digests_ok':False},'known_key':None,'scenario':scn(m),'predicted':'keys:'+','.join(sorted(got)),'what':'the digest recorded for %s was computed over bytes other than exactly the file content'%key}; return rec
            W('recorded')
            if is_sample(run,self.seed,getattr(self,'sample_rate',12)): rec['sample']={'scenario':scn(m0),'expect':'keys:'+','.join(sorted(got)),'confirm':{'digests_ok':True}}
        else:
            reason=None
            if unknown: reason='unknown_algorithm_error'
            elif run.ghost['io_error_at'] and run.ghost['io_error_at'][0] in run.ghost['opened']: reason='io_error'
            elif dup: reason='duplicate_key_error'
            if reason is None:
                rec['viol']={'kind':'spurious_error','known_key':None,'scenario':scn(m0),'predicted':'err','what':'record_artifacts fails although all files are readable, keys are unique and the algorithms are known'}; return rec
            W(reason)
            if is_sample(run,self.seed,25) and reason!='io_error': rec['sample']={'scenario':scn(m0),'expect':'err'}
        return rec

class RecordLinkedDirectories(Record):
    """record_artifacts on trees with symbolic links to DIRECTORIES (relative, through .., absolute, back to an ancestor = a cycle,
    dangling) and on path arguments that are not normalised (./, a/../b, `..` right after a link to a directory)"""
    def __init__(self,**kw):
        Record.__init__(self,**kw); self.name='C18.record_artifacts_linked_directories'; self.sample_rate=1
        self.bounds={'ghost file system':'files r/left/w, r/left/x, r/right/w with 0..1 free content bytes each','symbolic links':'one of: r/dl -> left; r/right/dl -> ../left; r/dl -> absolute r/left; r/left/up -> .. (cycle); r/left/loop -> . (cycle); r/dl -> left plus r/fl -> left/w; r/dangling -> nowhere',
                     'path arguments':'[r], [r/right], [./r/right], [r/left/../right], [r/right/dl/..] (only with r/right/dl), [r/dl] (only with r/dl)','strip prefixes':'none; [r/]; [r/dl/] ','hash algorithms':'default','read schedule':'whole files',
                     'walk':'the ghost model of walkdir with follow_links(true): entries in name order, directories before their entries, a link to an ancestor directory is reported as a loop error, a dangling link as an I/O error'}
        self.witnesses=['recorded','error_returned']; self.seen=set()
    def mk_args(self,run):
        def content(name):
            n=run.pick(2,'len_'+name); return [z3.BitVec('%s_%d'%(name,i),8) for i in range(n)]
        fs={'r/left/w':content('lw'),'r/left/x':content('lx'),'r/right/w':content('rw')}
        LINKS=[{'r/dl':'left'},{'r/right/dl':'../left'},{'r/dl':'@ROOT/r/left'},{'r/left/up':'..'},{'r/left/loop':'.'},{'r/dl':'left','r/fl':'left/w'},{'r/dangling':'nowhere'}]
        links=LINKS[run.pick(len(LINKS),'link')]
        PATHS=[['r'],['r/right'],['./r/right'],['r/left/../right'],['r/right/dl/..'],['r/dl']]
        paths=PATHS[run.pick(len(PATHS),'paths')]
        if paths==['r/right/dl/..'] and 'r/right/dl' not in links: raise Infeasible()
        if paths==['r/dl'] and 'r/dl' not in links: raise Infeasible()
        strips=[None,['r/'],['r/dl/']][run.pick(3,'strips')]
        run.ghost.update({'fs':fs,'links':links,'opened':[],'digests':[],'io_error_at':None})
        mk=lambda l: Ref(Cell(VecO([mk_str(x) for x in l])))
        args=[mk(paths),none(),none() if strips is None else some(mk(strips))]
        return args,{'fs':fs,'links':links,'paths':paths,'strips':strips,'algs':None}
    def check(self,run,out,g):
        oc=outcome_of(out)
        # a dangling link below the walk root makes walkdir report an I/O error, which record_artifacts passes on: an error is then
        # the specified outcome ("returns a value or an error"); everything else is judged by Record.check
        ents=[e for arg in g['paths'] for e in self.fs.enumerate(run,path_clean(arg))]
        if any(k=='ioerr' for k,_ in ents):
            rec={'outcome':oc,'viol':None,'wit':[],'sample':None,'obl':1}
            r0,m0=run.check_sat(z3.BoolVal(True))
            scn={'kind':'record','fs':{p:[model_value(m0,x) for x in c] for p,c in g['fs'].items()},'links':g['links'],'paths':g['paths'],'strips':g['strips'],'algs':g['algs']}
            if oc=='panic': rec['viol']={'kind':'panic','known_key':None,'scenario':scn,'predicted':'panic','what':'record_artifacts panics: '+str(out[1])}; return rec
            if 'error_returned' not in self.seen and oc!='ok': self.seen.add('error_returned'); rec['wit'].append('error_returned')
            rec['sample']={'scenario':scn,'expect':'err' if oc!='ok' else 'keys:'+','.join(sorted(need_conc(byte_list(k),'key').decode() for k,_ in deref(deref(out[1]).f[0]).e))}
            return rec
        rec=Record.check(self,run,out,g)
        if rec['viol'] is None and oc!='ok' and 'error_returned' not in self.seen: self.seen.add('error_returned'); rec['wit'].append('error_returned')
        return rec

class RunSequencing(Obligation):
    """in_toto_run: materials are recorded before the command runs, products after it; the link carries exactly these three results and the name"""
    name='C18.in_toto_run_sequencing'
    hash_order='fixed'
    def __init__(self,seed=0,known=(),**kw):
        self.seed=seed
        self.bounds={'record_artifacts / run_command':'stubs returning free results (or an error) and logging the order of calls','key':'none (unsigned link)'}
        self.witnesses=['link_built','error_propagated']; self.seen=set()
    def setup(self,eng,tier):
        self.eng=eng; self.b=B(eng); self.fn=eng.find_fn('in_toto_run'); b=self.b
        def rec_art(e,run,a,f):
            i=len([x for x in run.ghost['log'] if x[0]=='record'])
            paths=[need_conc(byte_list(x),'path').decode() for x in deref(a[0]).items]
            run.ghost['log'].append(('record',tuple(paths)))
            if run.ghost['fail']==('record',i): return err(b.variant('Error','LinkGatheringError',[mk_string('x',True)]))
            return ok(b.btreemap([(b.vpath('f%d'%i),b.target_description([z3.BitVec('d%d'%i,8)]))]))
        def run_cmd(e,run,a,f):
            run.ghost['log'].append(('command',))
            if run.ghost['fail']==('command',0): return err(b.variant('Error','IllegalArgument',[mk_string('x',True)]))
            return ok(b.byproducts(Int(32,True,z3.BitVec('rv',32)),'out','err'))
        eng.stub(r'^record_artifacts$',rec_art,'runlib::record_artifacts [ghost: free result, call log]')
        eng.stub(r'^run_command$',run_cmd,'runlib::run_command [ghost: free byproducts, call log]')
    def entry(self,eng): return self.fn
    def mk_args(self,run):
        run.ghost['log']=[]
        run.ghost['fail']=[None,('record',0),('command',0),('record',1)][run.pick(4,'fail')]
        mk=lambda l: Ref(Cell(VecO([mk_str(x) for x in l])))
        return [mk_str('step'),none(),mk(['m']),mk(['p']),mk(['cmd']),none(),none(),none()],{}
    def check(self,run,out,g):
        oc=outcome_of(out); rec={'outcome':oc,'viol':None,'wit':[],'sample':None,'obl':1}
        log=run.ghost['log']; b=self.b
        def V(kind,what): rec['viol']={'kind':kind,'known_key':None,'scenario':None,'predicted':oc,'what':what}; return rec
        if oc=='panic': return V('panic','in_toto_run panics: '+str(out[1]))
        if run.ghost['fail'] is not None:
            if oc=='ok': return V('error_swallowed','in_toto_run succeeds although recording or the command failed')
            if 'error_propagated' not in self.seen: self.seen.add('error_propagated'); rec['wit'].append('error_propagated')
            return rec
        if oc!='ok': return V('spurious_error','in_toto_run fails although every stage succeeded')
        if [x[0] for x in log]!=['record','command','record'] or log[0][1]!=('m',) or log[2][1]!=('p',):
            return V('wrong_sequence','materials must be recorded (from the material paths) before the command and products (from the product paths) after it; observed '+repr(log))
        link=deref(b.get(deref(out[1]).f[0],'metadata')).f[0]
        conds=b_and(val_eq(b.get(link,'name'),mk_string('step')),
                    val_eq(b.get(link,'materials'),b.btreemap([(b.vpath('f0'),b.target_description([z3.BitVec('d0',8)]))])),
                    val_eq(b.get(link,'products'),b.btreemap([(b.vpath('f1'),b.target_description([z3.BitVec('d1',8)]))])),
                    val_eq(b.get(link,'byproducts'),b.byproducts(Int(32,True,z3.BitVec('rv',32)),'out','err')))
        r,m=run.check_sat(z3.Not(conds.z()))
        if r==z3.sat: return V('link_differs_from_recorded_results','the link does not carry exactly the recorded materials, products, byproducts and the name')
        if 'link_built' not in self.seen: self.seen.add('link_built'); rec['wit'].append('link_built')
        return rec

class RunOnGhostFS(Obligation):
    """in_toto_run from MIR on the ghost file system with a ghost command that changes files: materials are the digests of the
    files as they were BEFORE the command, products the digests of the files as they are AFTER it"""
    name='C18.in_toto_run_on_a_changing_tree'
    hash_order='fixed'
    EFFECTS=['none','rewrite_same_length','rewrite_longer','delete','create']
    def __init__(self,seed=0,known=(),**kw):
        self.seed=seed
        self.bounds={'ghost file system':'d/a (2 free bytes), d/b (1 free byte); material and product paths both [d]','command effect':'nothing / d/a rewritten with two other free bytes / d/a rewritten one byte longer / d/b deleted / d/c created',
                     'modification times':'one free instant per file state: a rewritten file may carry the same modification time as before (coarse timestamps, `touch -r`, `cp -p`)','read schedule':'whole-file reads (chunking is varied by C18.record_artifacts)','key':'none (unsigned link)'}
        self.witnesses=['link_'+x for x in self.EFFECTS]; self.seen=set()
    def setup(self,eng,tier):
        self.eng=eng; self.b=B(eng); self.fs=GhostFS(eng,self.b); self.fn=eng.find_fn('in_toto_run'); b=self.b
        from mirsym import models as M
        orig_finish=M.m_digest_finish
        def finish(e,run,a,f):
            r=orig_finish(e,run,a,f); run.ghost['digests'].append(r.p); return r
        eng.stub(r'^(ring::)?digest::Context::finish$',finish,'ring::digest::Context::finish [injective digest model, records the pre-image]')
        def read_whole(e,run,a,f):
            fo=deref(a[0]); st=fo.p; content=run.ghost['fs'][st['path']]; buf=deref(a[1]); rem=len(content)-st['pos']
            for i in range(rem): buf.items[i]=Int(8,False,content[st['pos']+i])
            st['pos']+=rem; return ok(Int(64,False,rem))
        eng.stub(r' as (std::io::)?Read>::read$',read_whole,'std::io::Read::read [whole remaining content of the ghost file]')
        def run_cmd(e,run,a,f):
            run.ghost['pre']=dict(run.ghost['fs']); fs=dict(run.ghost['fs']); mt=dict(run.ghost['mtime']); eff=run.ghost['effect']
            if eff=='rewrite_same_length': fs['d/a']=[z3.BitVec('na0',8),z3.BitVec('na1',8)]; mt['d/a']=z3.BitVec('mt_a2',64)
            if eff=='rewrite_longer': fs['d/a']=[z3.BitVec('na0',8),z3.BitVec('na1',8),z3.BitVec('na2',8)]; mt['d/a']=z3.BitVec('mt_a2',64)
            if eff=='delete': del fs['d/b']
            if eff=='create': fs['d/c']=[z3.BitVec('nc0',8)]; mt['d/c']=z3.BitVec('mt_c',64)
            run.ghost['fs']=fs; run.ghost['mtime']=mt
            return ok(b.byproducts(Int(32,True,0),'',''))
        eng.stub(r'^run_command$',run_cmd,'runlib::run_command [ghost command: changes the ghost file system]')
    def entry(self,eng): return self.fn
    def mk_args(self,run):
        eff=self.EFFECTS[run.pick(len(self.EFFECTS),'effect')]
        fs={'d/a':[z3.BitVec('a0',8),z3.BitVec('a1',8)],'d/b':[z3.BitVec('b0',8)]}
        run.ghost.update({'fs':fs,'links':{},'opened':[],'digests':[],'io_error_at':None,'effect':eff,'mtime':{'d/a':z3.BitVec('mt_a',64),'d/b':z3.BitVec('mt_b',64)}})
        mk=lambda l: Ref(Cell(VecO([mk_str(x) for x in l])))
        return [mk_str('step'),none(),mk(['d']),mk(['d']),mk(['cmd']),none(),none(),none()],{'pre':dict(fs),'effect':eff}
    def check(self,run,out,g):
        oc=outcome_of(out); rec={'outcome':oc,'viol':None,'wit':[],'sample':None,'obl':1}; b=self.b
        post=run.ghost['fs']
        def scn(m):
            mv=lambda c: [model_value(m,x) for x in c]
            return {'kind':'run_fs','pre':{p:mv(c) for p,c in g['pre'].items()},'post':{p:mv(c) for p,c in post.items()},'keep_mtime':True}
        r0,m0=run.check_sat(z3.BoolVal(True))
        def V(kind,what,m=m0,**kw): rec['viol']=dict({'kind':kind,'known_key':None,'scenario':scn(m),'predicted':'ok','what':what},**kw); return rec
        if oc=='panic': return V('panic','in_toto_run panics: '+str(out[1]),predicted='panic')
        if oc!='ok': return V('spurious_error','in_toto_run fails although every file is readable',predicted={'not':'ok'})
        link=deref(b.get(deref(out[1]).f[0],'metadata')).f[0]
        for field,want in (('materials',g['pre']),('products',post)):
            got={need_conc(byte_list(k),'artifact key').decode():v for k,v in deref(b.get(link,field)).e}
            if set(got)!=set(want): return V('wrong_key_set','%s are %s, the files %s are %s'%(field,sorted(got),'before the command' if field=='materials' else 'after the command',sorted(want)),confirm={field+'_ok':False})
            for key,content in want.items():
                for ak,hv in deref(got[key]).e:
                    hb=byte_list(hv)
                    src=[d for d in run.ghost['digests'] if len(d.b)==len(hb) and all((isinstance(x,int) and isinstance(y,int) and x==y) or (not isinstance(x,int) and not isinstance(y,int) and x.eq(y)) for x,y in zip(d.b,hb))]
                    if not src: return V('digest_of_unknown_origin','a recorded digest is not the output of a digest computation')
                    r,m=run.check_sat(z3.Not(bytes_eq(src[0].ghost['pre'],content).z()))
                    if r==z3.sat:
                        return V('stale_or_wrong_digest','the %s digest of %s is not the digest of the bytes the file holds %s'%(field[:-1],key,'before the command' if field=='materials' else 'after the command'),m=m,confirm={field+'_ok':False})
        w='link_'+g['effect']
        if w not in self.seen: self.seen.add(w); rec['wit'].append(w)
        rec['sample']={'scenario':scn(m0),'expect':'ok','confirm':{'materials_ok':True,'products_ok':True}}
        return rec
