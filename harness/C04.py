"""C04 - signature thresholds count distinct authorized keys with valid signatures.

Runs `Metablock::verify` from MIR (plus its closures and the key-id accessors) with
`MetadataWrapper::to_bytes` stubbed to a constant and `PublicKey::verify` replaced by the
ideal-signature oracle.  Everything else (authorized-key map, signature de-duplication,
count-down, error paths) is the repository's code."""
import z3, os
from mirsym.values import *
from mirsym.runner import Obligation
from mirsym.build import B, concretize, model_value
from mirsym.models import val_eq
from .common import *

class VerifyThreshold(Obligation):
    name='C04.metablock_verify'
    hash_order='all'
    def __init__(self,nk=2,ns=3,seed=0,rate=40,iter_kind='vec',known=()):
        self.known=set(known); self.nk=nk; self.ns=ns; self.seed=seed; self.rate=rate; self.iter_kind=iter_kind
        self.bounds={'pool_keys':nk,'max_signatures':ns,'threshold':'any u32 (32-bit vector)',
                     'authorized_list':'each pool key absent / once / twice','labels':'pool ids, one unknown id, and each pool id spelled in upper case (key ids are compared as strings)',
                     'hash_map_iteration':'every permutation','key_iterator':iter_kind}
        self.witnesses=['ok_thr1','ok_thr2','err_thr0','err_not_enough','ok_with_unauthorized_extra','ok_dup_label']
        self.seen=set()
    def setup(self,eng,tier):
        self.eng=eng; self.b=B(eng)
        self.oracle=SigOracle(eng)
        eng.stub(r'MetadataWrapper::to_bytes$',lambda e,run,a,f: ok(u8vec(list(b'M'))),'MetadataWrapper::to_bytes [constant bytes]')
    def entry(self,eng): return eng.find_method(None,'Metablock','verify')
    def mk_args(self,run):
        b=self.b; nk=self.nk
        keys=[b.pubkey(pool_keyid(i),value=bytes([i])) for i in range(nk)]
        auth=[]; authcnt=[]
        for i in range(nk):
            c=run.pick(3,'auth%d'%i)
            authcnt.append(c)
            for _ in range(c): auth.append(Ref(Cell(keys[i])))
        ns=run.pick(self.ns+1,'nsigs')
        sigs=[]; run.ghost['sigs']={}; labels=[]
        for j in range(ns):
            lab=run.pick(2*nk+1,'label%d'%j)      # 0..nk-1: pool ids, nk: an unknown id, nk+1+i: the id of pool key i spelled in upper case (a different identifier)
            labels.append(lab)
            g={'made_by':z3.BitVec('made_by_%d'%j,8),'intact':z3.Bool('intact_%d'%j),'over':z3.Bool('over_%d'%j)}
            run.ghost['sigs'][j]=g
            sigs.append(b.signature(pool_keyid(lab) if lab<nk else (UNKNOWN_KEYID if lab==nk else pool_keyid(lab-nk-1).upper()),value=bytes([j])))
        for j in range(ns): run.add(z3.ULE(run.ghost['sigs'][j]['made_by'],nk))
        meta=b.wrap_link(b.link('step',materials=[(b.vpath('a'),b.target_description([1,2]))],command=['x']))
        mb=b.metablock(meta,sigs)
        thr=Int(32,False,z3.BitVec('threshold',32))
        if self.iter_kind=='vec': it=VecO(auth)
        else:
            m=MapO(False); m.e=[[b.keyid(pool_keyid(i)),keys[i]] for i in range(nk) if authcnt[i]]
            it=Iter([Ref(m.e[i],1) for i in __import__('mirsym.models',fromlist=['map_order']).map_order(run,m)])
        return [Ref(Cell(mb)),thr,it],{'authcnt':authcnt,'labels':labels,'thr':thr,'meta':meta,'ns':ns}
    def count_term(self,run,g):
        terms=[]
        for i,c in enumerate(g['authcnt']):
            if not c: continue
            ds=[z3.And(s['made_by']==i,s['intact'],s['over']) for j,s in run.ghost['sigs'].items() if g['labels'][j]==i]
            terms.append(z3.If(z3.Or(*ds),1,0) if ds else z3.IntVal(0))
        return z3.Sum(*terms) if terms else z3.IntVal(0)
    def scenario(self,run,g,m):
        return {'kind':'metablock_verify','npool':self.nk,'threshold':model_value(m,g['thr'].v),'auth':[i for i,c in enumerate(g['authcnt']) for _ in range(c)],
                'sigs':[{'label':g['labels'][j],'made_by':model_value(m,s['made_by']),'intact':bool(model_value(m,s['intact'])),'over':bool(model_value(m,s['over']))}
                        for j,s in sorted(run.ghost['sigs'].items())],'iter':self.iter_kind}
    def check(self,run,out,g):
        oc=outcome_of(out)
        rec={'outcome':oc,'viol':None,'wit':[],'sample':None,'obl':0}
        t=z3.BV2Int(g['thr'].v); count=self.count_term(run,g)
        good=z3.And(t>=1,count>=t)
        def wit(name,cond):
            if name in self.seen: return
            r,m=run.check_sat(cond)
            if r==z3.sat: self.seen.add(name); rec['wit'].append(name)
        if oc=='panic':
            r,m=run.check_sat(z3.BoolVal(True))
            rec['viol']={'kind':'panic','site':out[1],'scenario':self.scenario(run,g,m),'predicted':'panic','what':'Metablock::verify panics: '+str(out[1])}
            return rec
        if oc=='ok':
            rec['obl']+=1
            r,m=run.check_sat(z3.Not(good))
            if r==z3.sat:
                rec['viol']={'kind':'unsound_ok','scenario':self.scenario(run,g,m),'predicted':'ok','what':'verify returns Ok although fewer than threshold distinct authorized keys have a valid signature (or threshold is 0)'}
                return rec
            same=val_eq(out[1].f[0],g['meta'])
            if not (same.conc() and same.v):
                rec['viol']={'kind':'returned_other_content','scenario':self.scenario(run,g,run.check_sat(z3.BoolVal(True))[1]),'predicted':'ok-other-content','what':'verify returns content different from the block metadata'}
                return rec
            wit('ok_thr1',t==1); wit('ok_thr2',t==2)
            if any(l==self.nk for l in g['labels']): wit('ok_with_unauthorized_extra',z3.BoolVal(True))
            if len(set(g['labels']))<len(g['labels']): wit('ok_dup_label',z3.BoolVal(True))
        elif oc.startswith('err'):
            if len(set(g['labels']))==len(g['labels']):
                rec['obl']+=1
                r,m=run.check_sat(good)
                if r==z3.sat:
                    rec['viol']={'kind':'incomplete_err','scenario':self.scenario(run,g,m),'predicted':'err','what':'verify fails although each key signs at most once and >= threshold distinct authorized keys have valid signatures'}
                    return rec
            wit('err_thr0',t==0)
            if g['ns']>0: wit('err_not_enough',z3.And(t>=1,count<t))
        else:
            rec['viol']={'kind':'unexpected_outcome:'+oc,'scenario':None}
        if is_sample(run,self.seed,self.rate):
            r,m=run.check_sat(z3.BoolVal(True))
            if r==z3.sat: rec['sample']={'scenario':self.scenario(run,g,m),'expect':'ok' if oc=='ok' else 'err'}
        return rec

class ReplayAcrossCalls(VerifyThreshold):
    """two calls in one process (statics and thread-locals are shared within a run): a block is verified, then ANOTHER block with
    different content that carries the very same signature values.  No signature was made over the second content, so the second
    call must fail whatever the first one established."""
    name='C04.signatures_replayed_on_other_content'
    hash_order='fixed'
    def __init__(self,**kw):
        VerifyThreshold.__init__(self,**kw); self.name='C04.signatures_replayed_on_other_content'
        self.bounds={'sequence':'Metablock::verify(block 1) then Metablock::verify(block 2) in one process','block 2':'other content, the same signature list (same key ids, same signature bytes)','signatures':'1..2, made over the content of block 1, free made_by / intact',
                     'keys':'2 pool keys, both authorized; key types / schemes ed25519, RSA-PSS-SHA256 (the scheme is part of what a signature was made with)','threshold':'any u32'}
        self.witnesses=['second_call_rejected','first_call_accepted']
    def setup(self,eng,tier):
        self.eng=eng; self.b=B(eng)
        self.oracle=SigOracle(eng)
        def to_bytes(e,run,a,f):
            m=deref(a[0]); nm=byte_list(self.b.get(deref(m.f[0]),'name'))
            return ok(u8vec([0x4d]+list(nm)))
        eng.stub(r'MetadataWrapper::to_bytes$',to_bytes,'MetadataWrapper::to_bytes [the link name stands for the content]')
        self.fn=eng.find_method(None,'Metablock','verify')
    def entry(self,eng):
        def go(run,args):
            mb1,mb2,thr,keys1,keys2=args
            r1=eng.call_fn(run,self.fn,[Ref(Cell(mb1)),thr,keys1])
            r2=eng.call_fn(run,self.fn,[Ref(Cell(mb2)),copy_val(thr),keys2])
            return (r1,r2)
        return go
    def mk_args(self,run):
        b=self.b; nk=2
        sch=['Ed25519','RsaSsaPssSha256'][run.pick(2,'scheme')]; typ={'Ed25519':'Ed25519','RsaSsaPssSha256':'Rsa'}[sch]
        keys=[b.pubkey(pool_keyid(i),typ=typ,scheme=sch,value=bytes([i])) for i in range(nk)]
        ns=1+run.pick(2,'nsigs'); run.ghost['sigs']={}
        over=[0x4d]+list(b'one')
        mk_sigs=lambda: [b.signature(pool_keyid(j),value=bytes([j])) for j in range(ns)]
        for j in range(ns):
            run.ghost['sigs'][j]={'made_by':z3.BitVec('made_by_%d'%j,8),'intact':z3.Bool('intact_%d'%j),'over_bytes':over,'scheme':z3.BitVecVal(self.eng.enums['SignatureScheme'].index(sch),8)}
            run.add(z3.ULE(run.ghost['sigs'][j]['made_by'],nk))
        mb1=b.metablock(b.wrap_link(b.link('one',command=['x'])),mk_sigs()); mb2=b.metablock(b.wrap_link(b.link('two',command=['x'])),mk_sigs())
        thr=Int(32,False,z3.BitVec('threshold',32))
        K=lambda: VecO([Ref(Cell(k)) for k in keys])
        return [mb1,mb2,thr,K(),K()],{'thr':thr,'ns':ns,'scheme':sch}
    def check(self,run,out,g):
        rec={'outcome':'?','viol':None,'wit':[],'sample':None,'obl':1}
        def scn(m): return {'kind':'metablock_verify','npool':2,'threshold':model_value(m,g['thr'].v),'auth':[0,1],'iter':'vec','replay_on_other_content':True,'scheme':g['scheme'],
                            'sigs':[{'label':j,'made_by':model_value(m,s['made_by']),'intact':bool(model_value(m,s['intact'])),'over':True} for j,s in sorted(run.ghost['sigs'].items())]}
        if out[0]!='ret':
            r,m=run.check_sat(z3.BoolVal(True))
            rec['outcome']='panic'; rec['viol']={'kind':'panic','known_key':None,'scenario':scn(m),'predicted':'panic','what':'Metablock::verify panics: '+str(out[1])[:200]}; return rec
        r1,r2=out[1]; o1=deref(r1).vname; o2=deref(r2).vname; rec['outcome']=o1+'|'+o2
        def wit(n):
            if n not in self.seen: self.seen.add(n); rec['wit'].append(n)
        if o2=='Ok':
            r,m=run.check_sat(z3.BoolVal(True))
            rec['viol']={'kind':'signature_accepted_over_other_content','known_key':None,'scenario':scn(m),'predicted':'ok','what':'a block whose signatures were all made over OTHER content verifies (after a block with the genuine content was verified earlier in the same process: %s)'%o1}; return rec
        wit('second_call_rejected')
        if o1=='Ok': wit('first_call_accepted')
        if is_sample(run,self.seed,3):
            r,m=run.check_sat(z3.BoolVal(True))
            if r==z3.sat: rec['sample']={'scenario':scn(m),'expect':'err'}
        return rec

class GenuineSignature(Obligation):
    """a signature that the scheme's own signer emits - of EVERY length that signer can emit - made by the authorized key over exactly
    these bytes counts towards the threshold.  Key and signature values have their real lengths, so any gate on either that runs
    before the cryptographic library is exercised from MIR."""
    name='C04.genuine_signature_of_every_scheme_and_length'
    hash_order='fixed'
    # scheme -> (key type, public-key length, signature lengths a genuine signer produces)
    SCHEMES=[('Ed25519','Ed25519',32,[64]),
             ('EcdsaP256Sha256','Ecdsa',65,[68,69,70,71,72]),       # DER SEQUENCE{INTEGER r, INTEGER s}: 70..72 usually, shorter when r or s has leading zero octets
             ('RsaSsaPssSha256','Rsa',270,[256]),('RsaSsaPssSha256','Rsa',526,[512]),
             ('RsaSsaPssSha512','Rsa',270,[256]),('RsaSsaPssSha512','Rsa',526,[512])]
    def __init__(self,seed=0,prop='C04',**kw):
        self.seed=seed; self.name=prop+'.genuine_signature_of_every_scheme_and_length'
        self.bounds={'schemes':'Ed25519 (64-byte signatures), ECDSA P-256 ASN.1 (68..72 bytes), RSA-PSS SHA-256/512 with 2048- and 4096-bit keys (256 / 512 bytes)','threshold':1,'authorized_keys':1,'signatures':1,'key_and_signature_bytes':'free (all but the first, which carries the ghost identity)',
                     'outside':'ECDSA signatures shorter than 68 bytes (probability below 2^-23 per signature); RSA moduli other than 2048/4096 bits'}
        self.witnesses=['accepted_'+x for x in ('Ed25519','EcdsaP256Sha256','RsaSsaPssSha256','RsaSsaPssSha512')]
        self.seen=set()
    def setup(self,eng,tier):
        self.eng=eng; self.b=B(eng); self.oracle=SigOracle(eng)
        eng.stub(r'MetadataWrapper::to_bytes$',lambda e,run,a,f: ok(u8vec(list(b'M'))),'MetadataWrapper::to_bytes [constant bytes]')
    def entry(self,eng): return eng.find_method(None,'Metablock','verify')
    def mk_args(self,run):
        b=self.b
        sch,typ,klen,slens=self.SCHEMES[run.pick(len(self.SCHEMES),'scheme')]
        slen=slens[run.pick(len(slens),'siglen')] if len(slens)>1 else slens[0]
        # every byte of the key and of the signature except the first (the ghost identity) is free: a gate on their CONTENT is a solver question
        kb=[0]+[z3.BitVec('kb%d'%i,8) for i in range(1,klen)]; sb=[0]+[z3.BitVec('sb%d'%i,8) for i in range(1,slen)]
        key=b.pubkey(pool_keyid(0),typ=typ,scheme=sch,value=kb)
        run.ghost['sigs']={0:{'made_by':z3.BitVecVal(0,8),'intact':z3.BoolVal(True),'over_bytes':[0x4d],'scheme':z3.BitVecVal(self.eng.enums['SignatureScheme'].index(sch),8)}}
        mb=b.metablock(b.wrap_link(b.link('step',command=['x'])),[b.signature(pool_keyid(0),value=sb)])
        return [Ref(Cell(mb)),Int(32,False,1),VecO([Ref(Cell(key))])],{'scheme':sch,'klen':klen,'slen':slen}
    def check(self,run,out,g):
        rec={'outcome':'?','viol':None,'wit':[],'sample':None,'obl':1}
        scn={'kind':'genuine_signature','scheme':g['scheme'],'key_bits':{270:2048,526:4096}.get(g['klen'],0),'sig_len':g['slen']}
        if out[0]!='ret':
            rec['outcome']='panic'; rec['viol']={'kind':'panic','known_key':None,'scenario':scn,'predicted':'panic','what':'Metablock::verify panics: '+str(out[1])[:200]}; return rec
        o=deref(out[1]).vname; rec['outcome']=o
        if o!='Ok':
            rec['viol']={'kind':'genuine_signature_rejected','known_key':None,'scenario':scn,'predicted':'err:VerificationFailure','what':'a %d-byte %s signature made by the one authorized key over exactly these bytes does not count (threshold 1)'%(g['slen'],g['scheme'])}; return rec
        n='accepted_'+g['scheme']
        if n not in self.seen: self.seen.add(n); rec['wit'].append(n)
        rec['sample']={'scenario':scn,'expect':'ok'}
        return rec
