"""Signed bytes of layouts and links: C05 (injective / loss-free), C09 (signer and verifier derive the same
bytes), C11 (the bytes are OLPC canonical JSON).

`Metablock::verify`, `Metablock::new`, `MetablockBuilder::{from_metadata,sign}`, `MetadataWrapper::to_bytes`,
`Layout::from`, `Link::from`, every `Serialize` impl of the model types (against the Serializer data model),
`cjson::{canonicalize,convert,Value::write}` and the newline post-processing run from MIR.  The byte string
handed to the (stubbed) sign / verify primitives is captured and read back by two independent readers:
RFC 8259 after undoing the newline substitution (C05), OLPC canonical JSON directly (C11); both results are
compared with a reference wire tree built by the harness from the specification's field list."""
import z3
from mirsym.values import *
from mirsym.runner import Obligation
from mirsym.build import B, model_value
from mirsym.models import bytes_eq, val_eq
from .common import outcome_of, is_sample, pool_keyid
from oracles import json_parse as jp

import hashlib, os
FIXTURE_ED25519_PUB=open(os.path.join(os.environ.get('VERIF_REPO','/repo'),'tests/ed25519/ed25519-1.pub'),'rb').read()
def ed25519_keyid(pub,algs=('sha256','sha512')):
    """reference key id: sha256 of the canonical JSON of the public-key description (securesystemslib format)"""
    canon='{"keyid_hash_algorithms":[%s],"keytype":"ed25519","keyval":{"public":"%s"},"scheme":"ed25519"}'%(','.join('"%s"'%a for a in algs),pub.hex())
    return hashlib.sha256(canon.encode()).hexdigest()
def S(x): return ('str',list(x.encode()) if isinstance(x,str) else list(x))
def O(*kv): return ('obj',[(list(k.encode()),v) for k,v in kv])
def A(*xs): return ('arr',list(xs))
def hexs(bl):
    from mirsym.models import hex_char
    out=[]
    for x in bl:
        if isinstance(x,int): out+=[hex_char(x>>4),hex_char(x&15)]
        else: out+=[hex_char(z3.LShR(x,4)),hex_char(x&0x0f)]
    return out

FOCI_LINK=['name','command','stdout','stderr','env_key','env_value','path','other_key','other_value','numbers']
FOCI_LAYOUT=['readme','step_name','rule_pattern','rule_prefix','inspection_run','expected_command','numbers']

class SignedBytes(Obligation):
    name='signed_bytes'
    hash_order='fixed'
    def __init__(self,what='link',nbytes=2,seed=0,known=(),rate=40,prop='C05',wire=False,**kw):
        self.what=what; self.nbytes=nbytes; self.seed=seed; self.rate=rate; self.known=set(known); self.prop=prop; self.wire=wire
        self.name='%s.%s_%s'%(prop,'wire_trip' if wire else 'signed_bytes',what)
        self.bounds={'metadata':what+' of fixed small shape (1 material, 1 product, 1 environment entry, byproducts with stdout/stderr/return-value and one extra field; layout: 1 step with 2 rules, 1 inspection, 1 key filed under its own or under another identifier)',
                     'focus_string':'one string-bearing field at a time holds 0..%d free ASCII bytes (every control character, quote, backslash, DEL; and fixed non-ASCII samples incl. U+FFFF, U+FFFE, U+2028, U+D7FF/U+E000, U+10FFFF and backslash next to U+FFFF); fields: %s'%(nbytes,', '.join(FOCI_LINK if what=='link' else FOCI_LAYOUT)),
                     'numbers':'threshold any u32 and return-value any i32 (in the paths whose focus is the numbers; otherwise fixed), digest bytes free','expiry':'fixed whole-second instants (text formatting of instants is chrono\'s; C06/C16 relate text and instant)'}
        self.witnesses=['verified_bytes_read_back','sign_and_verify_bytes_equal']+(['wire_trip_verified'] if wire else []); self.seen=set()
    # ------------------------------------------------------------------ engine setup
    def setup(self,eng,tier):
        self.eng=eng; self.b=B(eng)
        eng.stub(r'(^|::)PublicKey::verify$',self.s_verify,'crypto::PublicKey::verify [captures the signed bytes]')
        eng.stub(r'(^|::)PrivateKey::sign$',self.s_sign,'crypto::PrivateKey::sign [captures the bytes to sign]')
        self.f_verify=eng.find_method(None,'Metablock','verify'); self.f_new=eng.find_method(None,'Metablock','new')
        self.f_from=eng.find_method(None,'MetablockBuilder','from_metadata'); self.f_sign=eng.find_method(None,'MetablockBuilder','sign')
        self.f_into_trait=eng.find_method(None,'MetadataWrapper','into_trait')
    def s_verify(self,e,run,a,f): run.ghost['msgs'].append(('verify',list(byte_list(a[1])))); return ok(UNIT)
    def s_sign(self,e,run,a,f):
        run.ghost['msgs'].append(('sign',list(byte_list(a[1]))))
        return ok(self.b.signature(pool_keyid(0),value=b'\x00'))
    def entry(self,eng):
        def go(run,args):
            meta1,meta2,meta3=args; b=self.b
            run.ghost['msgs']=[]
            key=b.pubkey(pool_keyid(0),value=b'\x00')
            mb=b.metablock(meta1,[b.signature(pool_keyid(0),value=b'\x00')])
            r1=eng.call_fn(run,self.f_verify,[Ref(Cell(mb)),Int(32,False,1),VecO([Ref(Cell(key))])])
            priv=b.struct('PrivateKey',private=Opaque('PrivateKeyType'),public=key)
            keys=Ref(Cell(VecO([Ref(Cell(priv))])))
            r2=eng.call_fn(run,self.f_new,[meta2,keys])
            bx=eng.call_fn(run,self.f_into_trait,[meta3])
            bld=eng.call_fn(run,self.f_from,[bx])
            r3=eng.call_fn(run,self.f_sign,[bld,keys])
            if self.wire and deref(r2).vname=='Ok':
                # the wire trip: what Metablock::new produced is written as JSON, read back on two channels and verified again
                from mirsym import models_serde as ms, models_de as md
                from mirsym.models import clone_val
                run.ghost['wire']=[]
                try:
                    v=ms.ser_value(eng,run,deref(r2).f[0])
                    for ch in ('borrowed','tree'):
                        try:
                            mb2=md.de_type(eng,run,'Metablock',clone_val(v),ch)
                            n0=len(run.ghost['msgs'])
                            rw=eng.call_fn(run,self.f_verify,[Ref(Cell(mb2)),Int(32,False,1),VecO([Ref(Cell(key))])])
                            got=run.ghost['msgs'][n0:]; del run.ghost['msgs'][n0:]
                            run.ghost['wire'].append((ch,deref(rw).vname,got[0][1] if got else None))
                        except md.DeFail: run.ghost['wire'].append((ch,'DecodeErr',None))
                except ms.SerError: run.ghost['wire'].append(('ser','SerErr',None))
            return (r1,r2,r3)
        return go
    # ------------------------------------------------------------------ scenario
    def focus_bytes(self,run,field,default):
        """bytes of a string field: symbolic if it is the focus of this path, else the concrete default"""
        if run.ghost['focus']!=field: return list(default.encode())
        k=run.pick(self.nbytes+2,'focus_len')
        if k==self.nbytes+1:
            # fixed non-ASCII / boundary samples: Latin-1, astral, noncharacters (a favourite placeholder), line separators, BMP edges
            SMP=['\u00e9','a ','\U0001F600','\uffff','a\\\uffff','\ufffe','\u2028','\ud7ff\ue000','\U0010ffff','\x7f\u0080']
            smp=SMP[run.pick(len(SMP),'sample')]; return list(smp.encode())
        bs=[z3.BitVec('f_%d'%i,8) for i in range(k)]
        for x in bs: run.add(z3.ULT(x,0x80))
        run.ghost['fbytes']=bs
        return bs
    def mk_link(self,run):
        b=self.b; fb=lambda f,d: self.focus_bytes(run,f,d)
        name=fb('name','s0'); cmd=fb('command','arg'); so=fb('stdout','out'); se=fb('stderr','err'); ek=fb('env_key','K'); ev=fb('env_value','V')
        path=fb('path','a'); ok_=fb('other_key','x'); ov=fb('other_value','y')
        dm=[z3.BitVec('dm',8),7]; dp=[z3.BitVec('dp',8)]
        if self.wire: dm=[0x24,7]; dp=[0xab]       # hex text is decoded again on the wire trip: concrete digests (hex round trips are C16's)
        rv=z3.BitVec('rv',32) if run.ghost['focus']=='numbers' else [0,-1,7][run.pick(3,'rv')]
        link=b.struct('LinkMetadata',name=StringO(name),
            materials=b.btreemap([(Agg('VirtualTargetPath',[StringO(path)]),b.target_description(dm))]),
            products=b.btreemap([(b.vpath('p'),b.target_description(dp,'Sha512'))]),
            env=some(b.btreemap([(StringO(ek),StringO(ev))])),
            byproducts=b.struct('ByProducts',return_value=some(Int(32,True,rv)),stderr=some(StringO(se)),stdout=some(StringO(so)),other_fields=b.btreemap([(StringO(ok_),StringO(ov))])),
            command=Agg('Command',[VecO([mk_string('sh'),StringO(cmd)])]))
        # reserved names in the flattened byproducts map would collide with the fixed members: keep the extra key different from them
        if run.ghost['focus']=='other_key':
            from mirsym.models import bytes_eq as beq
            for res in (b'return-value',b'stderr',b'stdout'):
                c=beq(ok_,list(res))
                if not (c.conc() and not c.v): run.add(z3.Not(c.z()))
        tree=O(('_type',S('link')),('name',('str',name)),('materials',('obj',[(path,O(('sha256',('str',hexs(dm)))))])),('products',O(('p',O(('sha512',('str',hexs(dp))))))),
               ('environment',('obj',[(ek,('str',ev))])),
               ('byproducts',('obj',[(list(b'return-value'),('intval',32,True,rv)),(list(b'stderr'),('str',se)),(list(b'stdout'),('str',so)),(ok_,('str',ov))])),
               ('command',A(S('sh'),('str',cmd))))
        return lambda: b.wrap_link(clone(link)),tree
    def mk_layout(self,run):
        b=self.b; fb=lambda f,d: self.focus_bytes(run,f,d)
        readme=fb('readme','r'); sname=fb('step_name','s0'); pat=fb('rule_pattern','*'); pre=fb('rule_prefix','d'); irun=fb('inspection_run','true'); ecmd=fb('expected_command','make')
        thr=z3.BitVec('thr',32) if run.ghost['focus']=='numbers' else 2; kval=list(FIXTURE_ED25519_PUB); kid=ed25519_keyid(bytes(kval))
        secs,nanos=[(4102444800,0),(1700000000,0),(0,0),(1483228799,1000000000)][run.pick(4,'expiry')]      # the last one is a leap second
        import datetime
        etxt=(datetime.datetime(1970,1,1)+datetime.timedelta(seconds=secs)).strftime('%Y-%m-%dT%H:%M:%SZ')
        if nanos: etxt=etxt.replace(':59Z',':60Z')
        rule1=b.variant('ArtifactRule','Match',[{'pattern':Agg('VirtualTargetPath',[StringO(pat)]),'in_src':some(StringO(pre)),'with':b.variant('Artifact','Products'),'in_dst':none(),'from':mk_string('t')}[n] for n in self.eng.src.enum_payload['ArtifactRule']['Match']])
        rule2=b.rule('Disallow','*')
        step=b.struct('Step',typ=mk_string('step'),threshold=Int(32,False,thr),name=StringO(sname),expected_materials=VecO([rule1]),expected_products=VecO([rule2]),pub_keys=VecO([b.keyid(kid)]),expected_command=Agg('Command',[VecO([StringO(ecmd)])]))
        insp=b.struct('Inspection',typ=mk_string('inspection'),name=mk_string('i0'),expected_materials=VecO([]),expected_products=VecO([b.rule('Allow','x')]),run=Agg('Command',[VecO([StringO(irun),mk_string('-x')])]))
        key=b.pubkey(kid,value=kval)
        # the in-memory key table may file a key under an identifier that is not the key's own (the table is a plain map):
        # the signed bytes must then say so, i.e. carry the table as it is (the identifier -> key association is signed content)
        mapid=kid if (self.wire or run.ghost['focus']!='numbers' or run.pick(2,'table_id')==0) else 'ab'*32      # varied together with the numbers focus only (cost)
        run.ghost['via_api']=(mapid!=kid)
        lay=b.struct('LayoutMetadata',steps=VecO([step]),inspect=VecO([insp]),keys=b.hashmap([(b.keyid(mapid),key)]),expires=b.datetime(secs,nanos),readme=StringO(readme))
        tree=O(('_type',S('layout')),('expires',S(etxt)),('readme',('str',readme)),
               ('keys',O((mapid,O(('keyid',S(kid)),('keyid_hash_algorithms',A(S('sha256'),S('sha512'))),('keytype',S('ed25519')),('keyval',O(('private',S('')),('public',('str',hexs(kval))))),('scheme',S('ed25519')))))),
               ('steps',A(O(('_type',S('step')),('name',('str',sname)),('threshold',('intval',32,False,thr)),
                            ('expected_materials',A(A(S('MATCH'),('str',pat),S('IN'),('str',pre),S('WITH'),S('PRODUCTS'),S('FROM'),S('t')))),('expected_products',A(A(S('DISALLOW'),S('*')))),
                            ('pubkeys',A(S(kid))),('expected_command',A(('str',ecmd)))))),
               ('inspect',A(O(('_type',S('inspection')),('name',S('i0')),('expected_materials',A()),('expected_products',A(A(S('ALLOW'),S('x')))),('run',A(('str',irun),S('-x')))))))
        return lambda: b.wrap_layout(clone(lay)),tree
    def mk_args(self,run):
        foci=FOCI_LINK if self.what=='link' else FOCI_LAYOUT
        if self.wire: foci=[f for f in foci if f!='numbers']      # two independent decimal renderings of one free number defeat the solver; numbers on the wire are C16's
        run.ghost['focus']=foci[run.pick(len(foci),'focus')]; run.ghost['fbytes']=[]; run.ghost['via_api']=False
        mk,tree=self.mk_link(run) if self.what=='link' else self.mk_layout(run)
        return (mk(),mk(),mk()),{'tree':tree,'focus':run.ghost['focus'],'fbytes':run.ghost['fbytes'],'mk':mk}
    # ------------------------------------------------------------------ checks
    def scn(self,run,g,m,msg):
        d={'kind':'signed_bytes','what':self.what,'tree':tree_py(g['tree'],m),'expect_bytes':[model_value(m,x) for x in msg]}
        if run.ghost.get('via_api'): d['via_api']=True
        if self.prop=='C11': d['compare']='olpc'
        return d
    def check(self,run,out,g):
        rec={'outcome':'ok','viol':None,'wit':[],'sample':None,'obl':0}
        if out[0]!='ret':
            r,m=run.check_sat(z3.BoolVal(True))
            rec['outcome']='panic'; rec['viol']={'kind':'panic','known_key':None,'scenario':None,'predicted':'panic','what':'signing/verifying panics: '+str(out[1])}; return rec
        r1,r2,r3=out[1]
        msgs=run.ghost['msgs']
        if any(deref(r).vname!='Ok' for r in (r1,r2,r3)) or len(msgs)!=3:
            rec['outcome']='err'; rec['viol']={'kind':'sign_or_verify_failed','known_key':None,'scenario':None,'predicted':'err','what':'verify/new/sign did not all reach the primitive: '+repr([deref(r).vname for r in (r1,r2,r3)])}; return rec
        mv,mn,ms=[x[1] for x in msgs]
        def wit(name):
            if name not in self.seen: self.seen.add(name); rec['wit'].append(name)
        if self.prop=='C09':
            rec['obl']+=1
            e1=bytes_eq(mv,mn); e2=bytes_eq(mv,ms)
            r,m=run.check_sat(z3.Not(z3.And(e1.z(),e2.z())))
            if r==z3.sat:
                rec['viol']={'kind':'signer_and_verifier_bytes_differ','known_key':None,'scenario':self.scn(run,g,m,mv),'predicted':'mismatch','what':'Metablock::new / MetablockBuilder::sign / Metablock::verify do not derive the same signed bytes for the same metadata'}; return rec
            for ch,st,wb in run.ghost.get('wire',[]):
                rec['obl']+=1
                if st!='Ok' or wb is None:
                    r,m=run.check_sat(z3.BoolVal(True))
                    sc=self.scn(run,g,m,mn); sc['wire_trip']=True
                    rec['viol']={'kind':'own_signed_output_not_verifiable_after_wire_trip','known_key':None,'scenario':sc,'predicted':'match','confirm':{'wire_trip_verifies':False},'what':'metadata signed by Metablock::new, serialised and read back (%s channel) is rejected or does not reach signature verification: %s'%(ch,st)}; return rec
                r,m=run.check_sat(z3.Not(bytes_eq(wb,mn).z()))
                if r==z3.sat:
                    sc=self.scn(run,g,m,mn); sc['wire_trip']=True
                    rec['viol']={'kind':'wire_trip_changes_signed_bytes','known_key':None,'scenario':sc,'predicted':'match','confirm':{'wire_trip_verifies':False},'what':'the bytes verified after the JSON round trip (%s channel) differ from the bytes Metablock::new signed: the library\'s own signature no longer verifies'%ch}; return rec
            if run.ghost.get('wire'): wit('wire_trip_verified')
            wit('sign_and_verify_bytes_equal'); wit('verified_bytes_read_back')
            if is_sample(run,self.seed,self.rate):
                r,m=run.check_sat(z3.BoolVal(True))
                if r==z3.sat:
                    sc=self.scn(run,g,m,mv); rec['sample']={'scenario':sc,'expect':'match'}
                    if self.wire: sc['wire_trip']=True; rec['sample']['confirm']={'wire_trip_verifies':True}
            return rec
        if self.prop=='C05':
            rec['obl']+=1
            undo=[]
            for x in mv:
                if isinstance(x,int) and x==0x0a: undo+=[0x5c,0x6e]
                else: undo.append(x)
            res,node=jp.parse(run,undo)
            if res!='ok':
                r,m=run.check_sat(z3.BoolVal(True))
                rec['viol']={'kind':'signed_bytes_not_decodable','known_key':None,'scenario':self.scn(run,g,m,mv),'predicted':'match','what':'signed bytes cannot be read back (after undoing the newline substitution): '+str(node)}; return rec
            r,m=run.check_sat(z3.Not(jp.same(g['tree'],node)))
            if r==z3.sat:
                rec['viol']={'kind':'field_not_recoverable_from_signed_bytes','confirm':{'decoded_equals_tree':False},'known_key':None,'scenario':self.scn(run,g,m,mv),'predicted':'match','what':'the signed bytes do not determine every observable field (decode(signed_bytes(x)) != x)'}; return rec
            wit('verified_bytes_read_back'); wit('sign_and_verify_bytes_equal')
        if self.prop=='C11':
            rec['obl']+=1
            fb=g['fbytes']
            K1=z3.Or(*[z3.And(z3.ULT(x,0x20),x!=0x0a) for x in fb]) if fb else z3.BoolVal(False)
            K2=z3.Or(*[z3.And(x==0x5c,y==0x6e) for x,y in zip(fb,fb[1:])]) if len(fb)>1 else z3.BoolVal(False)
            pats={'control_char_escaped':K1,'backslash_n_collapsed':K2}
            res,node=jp.parse(run,mv,'olpc')
            bad=z3.BoolVal(True) if res!='ok' else z3.Not(jp.same(g['tree'],node))
            outside=z3.And(bad,z3.Not(K1),z3.Not(K2))
            r,m=run.check_sat(outside)
            if r==z3.sat:
                rec['viol']={'kind':'not_olpc','known_key':None,'scenario':self.scn(run,g,m,mv),'predicted':'mismatch','what':'signed bytes differ from the OLPC canonical JSON of the metadata'}; return rec
            for key,t in pats.items():
                r,m=run.check_sat(z3.And(bad,t))
                if r==z3.sat:
                    rec['viol']={'kind':'not_olpc:'+key,'known_key':key,'scenario':self.scn(run,g,m,mv),'predicted':'mismatch','what':'signed bytes differ from the OLPC canonical JSON of the metadata ['+key+']'}; return rec
            wit('verified_bytes_read_back'); wit('sign_and_verify_bytes_equal')
        if is_sample(run,self.seed,self.rate):
            r,m=run.check_sat(z3.BoolVal(True))
            if r==z3.sat: rec['sample']={'scenario':self.scn(run,g,m,mv),'expect':'match'}
        return rec

def clone(v):
    from mirsym.models import clone_val
    return clone_val(v)
def tree_py(t,m):
    k=t[0]
    if k=='null': return None
    if k=='bool': return bool(model_value(m,t[1])) if not isinstance(t[1],bool) else t[1]
    if k=='intval':
        if isinstance(t[3],int): return t[3]
        x=model_value(m,t[3])
        if t[2] and x>>(t[1]-1): x-=1<<t[1]
        return x
    if k=='str': return {'__bytes__':[model_value(m,x) for x in t[1]]}
    if k=='arr': return [tree_py(x,m) for x in t[1]]
    if k=='obj': return {'__obj__':[[[model_value(m,x) for x in kk],tree_py(v,m)] for kk,v in t[1]]}
