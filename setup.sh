#!/bin/sh
# Build the framework from files on disk only (offline): native replay crate, first MIR dump.
set -e
DIR="$(cd "$(dirname "$0")" && pwd)"
cd "$DIR"
export CARGO_NET_OFFLINE=true
mkdir -p .build evidence
cp /repo/Cargo.lock replay/Cargo.lock 2>/dev/null || true
( cd replay && CARGO_TARGET_DIR="$DIR/.build/replay-target" RUSTFLAGS="--cfg in_toto_rs_verif" cargo build --offline --quiet )
python3-vt - <<'PY'
import sys; sys.path.insert(0,'.')
from mirsym import runner
print('mir:',runner.dump_mir())
PY
echo setup-ok
