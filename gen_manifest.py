#!/usr/bin/env python3
"""Regenerates MANIFEST.json from harness/registry.py (claimed checks) and NOT_APPLICABLE below."""
import json, sys, os
sys.path.insert(0,os.path.dirname(os.path.abspath(__file__)))
from harness import registry
ALL=['C%02d'%i for i in range(1,21)]
NA=registry.NOT_APPLICABLE if hasattr(registry,'NOT_APPLICABLE') else {}
checks=[]
for pid in ALL:
    if pid not in registry.PROPS: continue
    sp=registry.PROPS[pid]
    checks.append({
      'property_id':pid,
      'quick_cmd':'./check %s --tier quick'%pid,
      'thorough_cmd':'./check %s --tier thorough'%pid,
      'evidence_file':'/verif/evidence/%s.json'%pid,
      'replay_cmd_template':'./check %s --replay {path}'%pid,
      'engine':sp.get('engine','mirsym'),
      'level_claimed':{'category':'model_checking','text':sp.get('level_text',sp.get('bounds_statement','')),'design_ref':sp.get('design_ref','DESIGN.md §6 '+pid)},
      'level_note':'; '.join(sp.get('assumptions',[])),
      'technique':sp.get('technique','bounded symbolic execution of the crate\'s MIR (mirsym) with z3 deciding every path obligation; counterexamples replayed natively'),
    })
na=[{'property_id':p,'reason':NA.get(p,'check not built yet in this revision of /verif (solver-based harness pending); nothing is claimed')} for p in ALL if p not in registry.PROPS]
man={'version':1,
 'setup_cmd':'./setup.sh',
 'hooks':{'guard':'in_toto_rs_verif','enable':'RUSTFLAGS="--cfg in_toto_rs_verif" (set by ./check and ./setup.sh when building the native replay crate and Kani harnesses against /repo)',
          'baseline_off_cmd':'cd /repo && cargo test --workspace --no-fail-fast --offline','source_commits':registry.HOOK_COMMITS if hasattr(registry,'HOOK_COMMITS') else [],'add_only':True},
 'engines':[{'name':'mirsym','path':'/verif/mirsym','serves_properties':[c['property_id'] for c in checks],'kind_free_text':'symbolic executor for rustc MIR text (regenerated from /repo on every run) + z3; library calls replaced by listed models; native replay of counterexamples and sampled paths'},
            {'name':'kani','path':'/verif/kani','serves_properties':[p for p in ALL if p in registry.PROPS and registry.PROPS[p].get('extra')],'kind_free_text':'Kani 0.68 / CBMC proof harnesses over the compiled crate (byte-level kernels)'}],
 'checks':checks,
 'not_applicable':na,
 'notes':'Every check prints INCONCLUSIVE and exits 2 when it cannot decide (unmodelled call, budget, solver unknown, non-reproducing counterexample); exit 1 only for natively replayed violations not listed in known_findings.json.'}
json.dump(man,open(os.path.join(os.path.dirname(os.path.abspath(__file__)),'MANIFEST.json'),'w'),indent=1)
print('checks',len(checks),'not_applicable',len(na))
