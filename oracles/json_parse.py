"""Reference RFC 8259 reader for *canonical* JSON text whose bytes may be symbolic (independent of the Rust code).

Strict: no insignificant whitespace is accepted anywhere.  Every decision on a symbolic byte is taken
through run.branch_bool, i.e. it is either forced by the path condition or forks the path.
parse(run, bytes) -> ('ok', node) | ('fail', reason)
node: ('null',) | ('bool',bool) | ('int', sign, [digit byte terms]) | ('float',) | ('str',[byte terms]) | ('arr',[nodes]) | ('obj',[(key byte terms,node),...])
"""
import z3
from mirsym.values import Bool, allowed

class Fail(Exception): pass

def _is(run,x,c):
    if isinstance(x,int): return x==c
    ax=allowed(x)
    if ax is not None and c not in ax: return False
    return run.branch_bool(Bool(x==c),'json.is')
def _in(run,x,lo,hi):
    if isinstance(x,int): return lo<=x<=hi
    ax=allowed(x)
    if ax is not None:
        if all(lo<=v<=hi for v in ax): return True
        if not any(lo<=v<=hi for v in ax): return False
    return run.branch_bool(Bool(z3.And(z3.UGE(x,lo),z3.ULE(x,hi))),'json.in')

class P:
    def __init__(self,run,b,mode='rfc8259'): self.run=run; self.b=b; self.i=0; self.mode=mode; self.escapes=False; self.depth=0
    def ws(self):
        # insignificant whitespace (only the text-parser model 'serde' accepts it; the canonical-form oracle is strict)
        if self.mode!='serde': return
        while self.i<len(self.b):
            x=self.b[self.i]
            if not (_is(self.run,x,0x20) or _is(self.run,x,0x0a) or _is(self.run,x,0x0d) or _is(self.run,x,0x09)): return
            self.i+=1
    def peek(self):
        if self.i>=len(self.b): raise Fail('eof')
        return self.b[self.i]
    def lit(self,s):
        for c in s:
            if not _is(self.run,self.peek(),c): raise Fail('literal')
            self.i+=1
    def value(self):
        self.ws()
        try:
            self.depth+=1
            if self.depth>128: raise Fail('recursion limit exceeded')
            return self.value1()
        finally:
            self.depth-=1; self.ws()
    def value1(self):
        x=self.peek(); run=self.run
        if _is(run,x,0x22): return ('str',self.string())
        if _is(run,x,0x7b): return self.obj()
        if _is(run,x,0x5b): return self.arr()
        if _is(run,x,0x6e): self.lit(b'null'); return ('null',)
        if _is(run,x,0x74): self.lit(b'true'); return ('bool',True)
        if _is(run,x,0x66): self.lit(b'false'); return ('bool',False)
        return self.number()
    def number(self):
        run=self.run; neg=False
        if _is(run,self.peek(),0x2d): neg=True; self.i+=1
        ds=[]
        if self.i>=len(self.b) or not _in(run,self.peek(),0x30,0x39): raise Fail('number')
        first=self.peek(); ds.append(first); self.i+=1
        zero=_is(run,first,0x30)
        while self.i<len(self.b) and _in(run,self.b[self.i],0x30,0x39):
            if zero: raise Fail('leading zero')
            ds.append(self.b[self.i]); self.i+=1
        if self.i<len(self.b) and (_is(run,self.b[self.i],0x2e) or _is(run,self.b[self.i],0x65) or _is(run,self.b[self.i],0x45)): return ('float',)
        if neg and zero: raise Fail('negative zero is not minimal')
        return ('int',neg,ds)
    def hexval(self,x):
        run=self.run
        if isinstance(x,int):
            c=chr(x)
            if c not in '0123456789abcdefABCDEF': raise Fail('hex')
            return int(c,16)
        if _in(run,x,0x30,0x39): return x-0x30
        if _in(run,x,0x61,0x66): return x-0x57
        if _in(run,x,0x41,0x46): return x-0x37
        raise Fail('hex')
    def string(self):
        run=self.run; self.i+=1; out=[]
        while True:
            x=self.peek()
            if _is(run,x,0x22): self.i+=1; return out
            if _is(run,x,0x5c) and self.mode=='olpc':
                # OLPC canonical JSON: the only escapes are \" and \\ ; every other byte is literal
                self.i+=1; e=self.peek(); self.i+=1
                if _is(run,e,0x22): out.append(0x22)
                elif _is(run,e,0x5c): out.append(0x5c)
                else: raise Fail('escape not allowed in OLPC canonical JSON')
                continue
            if _is(run,x,0x5c):
                self.escapes=True
                self.i+=1; e=self.peek(); self.i+=1
                simple={0x22:0x22,0x5c:0x5c,0x2f:0x2f,0x62:8,0x66:12,0x6e:10,0x72:13,0x74:9}
                for k,v in simple.items():
                    if _is(run,e,k): out.append(v); break
                else:
                    if not _is(run,e,0x75): raise Fail('bad escape')
                    h=[self.hexval(self.b[self.i+k]) for k in range(4)]; self.i+=4
                    if all(isinstance(v,int) for v in h):
                        cp=(h[0]<<12)|(h[1]<<8)|(h[2]<<4)|h[3]
                        if 0xd800<=cp<0xdc00:
                            self.lit(b'\\u'); l=[self.hexval(self.b[self.i+k]) for k in range(4)]; self.i+=4
                            lo=(l[0]<<12)|(l[1]<<8)|(l[2]<<4)|l[3]
                            cp=0x10000+((cp-0xd800)<<10)+(lo-0xdc00)
                        out.extend(chr(cp).encode())
                    else:
                        if not (h[0]==0 and h[1]==0): raise Fail('symbolic \\u escape above 00ff')
                        v=(h[2] if not isinstance(h[2],int) else z3.BitVecVal(h[2],8))*16+(h[3] if not isinstance(h[3],int) else z3.BitVecVal(h[3],8))
                        v=z3.simplify(v)
                        if not run.branch_bool(Bool(z3.ULT(v,0x80)),'json.u00'): raise Fail('symbolic \\u00XX >= 0x80')
                        out.append(v)
                continue
            if self.mode!='olpc' and _in(run,x,0,0x1f): raise Fail('raw control character in string')
            out.append(x); self.i+=1
    def arr(self):
        run=self.run; self.i+=1; items=[]
        self.ws()
        if _is(run,self.peek(),0x5d): self.i+=1; return ('arr',items)
        while True:
            items.append(self.value())
            x=self.peek(); self.i+=1
            if _is(run,x,0x5d): return ('arr',items)
            if not _is(run,x,0x2c): raise Fail('array separator')
    def obj(self):
        run=self.run; self.i+=1; items=[]
        self.ws()
        if _is(run,self.peek(),0x7d): self.i+=1; return ('obj',items)
        while True:
            self.ws()
            if not _is(run,self.peek(),0x22): raise Fail('object key')
            k=self.string()
            self.ws()
            if not _is(run,self.peek(),0x3a): raise Fail('colon')
            self.i+=1
            items.append((k,self.value()))
            x=self.peek(); self.i+=1
            if _is(run,x,0x7d): return ('obj',items)
            if not _is(run,x,0x2c): raise Fail('object separator')

def parse(run,b,mode='rfc8259',info=None):
    p=P(run,list(b),mode)
    try:
        v=p.value()
        if p.i!=len(p.b): return ('fail','trailing bytes')
        if info is not None: info['escapes']=p.escapes
        return ('ok',v)
    except Fail as e: return ('fail',str(e))
    except IndexError: return ('fail','eof')

def bytes_lt(a,b):
    """strict lexicographic order of byte-term lists as z3 term"""
    def t(x): return z3.BitVecVal(x,8) if isinstance(x,int) else x
    res=z3.BoolVal(len(a)<len(b))
    for x,y in reversed(list(zip(a,b))):
        res=z3.Or(z3.ULT(t(x),t(y)),z3.And(t(x)==t(y),res))
    return res
def bytes_eq_t(a,b):
    def t(x): return z3.BitVecVal(x,8) if isinstance(x,int) else x
    if len(a)!=len(b): return z3.BoolVal(False)
    return z3.And(*[t(x)==t(y) for x,y in zip(a,b)]) if a else z3.BoolVal(True)
def int_value(neg,ds):
    """mathematical value of a parsed integer as z3 Int term"""
    v=z3.IntVal(0)
    for d in ds:
        dv=z3.IntVal(d-0x30) if isinstance(d,int) else z3.BV2Int(d-0x30)
        v=v*10+dv
    return -v if neg else v

def same(exp,node):
    """z3 term: parsed `node` equals the expected tree `exp`.
    exp: ('null',) | ('bool',z3 Bool/bool) | ('intval', width, signed, value term or int) | ('str',[bytes]) | ('arr',[exp]) | ('obj',[(key bytes,exp)])
    objects: same member count, every expected member present with an equal value, parsed keys strictly ascending"""
    k=exp[0]
    if k=='null': return z3.BoolVal(node==('null',))
    if k=='bool':
        if node[0]!='bool': return z3.BoolVal(False)
        b=exp[1]
        if isinstance(b,bool): return z3.BoolVal(b==node[1])
        return b if node[1] else z3.Not(b)
    if k=='intval':
        if node[0]!='int' or len(node[2])>20: return z3.BoolVal(False)
        _,w,signed,val=exp; W=72
        mag=z3.BitVecVal(0,W)
        for d in node[2]:
            mag=mag*10+(z3.BitVecVal(d-0x30,W) if isinstance(d,int) else z3.ZeroExt(W-8,d-0x30))
        v=z3.BitVecVal(val,w) if isinstance(val,int) else val
        if not signed: return z3.And(z3.BoolVal(not node[1]),mag==z3.ZeroExt(W-w,v))
        if node[1]: return z3.And(v<0,mag==z3.ZeroExt(W-w,0-v))
        return z3.And(v>=0,mag==z3.ZeroExt(W-w,v))
    if k=='str':
        if node[0]!='str': return z3.BoolVal(False)
        return bytes_eq_t(exp[1],node[1])
    if k=='arr':
        if node[0]!='arr' or len(node[1])!=len(exp[1]): return z3.BoolVal(False)
        return z3.And(*[same(x,y) for x,y in zip(exp[1],node[1])]) if exp[1] else z3.BoolVal(True)
    if k=='obj':
        if node[0]!='obj' or len(node[1])!=len(exp[1]): return z3.BoolVal(False)
        cs=[z3.Or(*[z3.And(bytes_eq_t(ek,pk),same(ev,pv)) for pk,pv in node[1]]) for ek,ev in exp[1]]
        for (a,_),(b,_) in zip(node[1],node[1][1:]): cs.append(bytes_lt(a,b))
        return z3.And(*cs) if cs else z3.BoolVal(True)
    raise ValueError(k)
