"""Reference wire serialisation of in-toto values, independent of the crate's Serialize impls.

Input: a value concretised with mirsym.build.concretize (plain python: {'_t':type,'_v':variant,'f':[fields]}),
field order from the source index.  Output: plain python JSON following the in-toto specification v0.9 (layout,
link, rules), the in-toto attestation Statement v0.1 and the SLSA provenance v0.1 / v0.2 field names.
Optional members that hold None are omitted (absent and null both decode to None).
Used by the native replay of C16/C19 to rebuild *the value* natively: parse(ref_wire(x)) = x."""
import datetime

RENAME={
 'Step':{'typ':'_type','pub_keys':'pubkeys'},
 'Inspection':{'typ':'_type'},
 'Recipe':{'typ':'type','defined_in_material':'definedInMaterial','entry_point':'entryPoint'},
 'ProvenanceMetadata':{'build_invocation_id':'buildInvocationId','build_started_on':'buildStartedOn','build_finished_on':'buildFinishedOn'},
 'ConfigSource':{'entry_point':'entryPoint'},'Invocation':{'config_source':'configSource'},
 'SLSAProvenanceV02':{'build_type':'buildType','build_config':'buildConfig'},
 'StateV01':{'typ':'_type','predicate_type':'predicateType'},'StateNaive':{'typ':'_type'},
 'Signature':{'key_id':'keyid','value':'sig'},'Metablock':{'metadata':'signed'},
 'LinkMetadata':{'env':'environment'},
}
PLAIN=set(RENAME)|{'Builder','Completeness','Material','SLSAProvenanceV01','LinkV02'}
PRED_URI={'LinkV0_2':'https://in-toto.io/Link/v0.2','SLSAProvenanceV0_1':'https://slsa.dev/provenance/v0.1','SLSAProvenanceV0_2':'https://slsa.dev/provenance/v0.2'}
KT={'Ed25519':'ed25519','Rsa':'rsa','Ecdsa':'ecdsa'}; SC={'Ed25519':'ed25519','RsaSsaPssSha256':'rsassa-pss-sha256','EcdsaP256Sha256':'ecdsa-sha2-nistp256'}
ALG={'Sha256':'sha256','Sha512':'sha512'}
class NoRef(Exception): pass

def hexs(bl): return ''.join('%02x'%b for b in bl)
def rfc3339(utc,off,nanos=0):
    t=datetime.datetime(1970,1,1)+datetime.timedelta(seconds=utc+off)
    s=t.strftime('%Y-%m-%dT%H:%M:%S')
    if nanos: s+=('.%09d'%nanos).rstrip('0')         # the reference form keeps the fraction the value has
    if off==0: return s+'Z'
    o=abs(off); return s+'%s%02d:%02d'%('+' if off>=0 else '-',o//3600,(o%3600)//60)

class RefWire:
    def __init__(self,src,m): self.src=src; self.m=m      # source index (struct field names), z3 model
    def text(self,v):
        from mirsym.build import model_value
        return bytes(model_value(self.m,x) for x in v.b).decode()
    def enc(self,x):
        from mirsym.values import deref,Int,Bool,Str,StringO,VecO,MapO,Agg
        from mirsym.build import model_value
        x=deref(x)
        if isinstance(x,Int):
            n=model_value(self.m,x.v)
            return n-(1<<x.w) if x.s and n>>(x.w-1) else n
        if isinstance(x,Bool): return bool(model_value(self.m,x.v))
        if isinstance(x,(Str,StringO)): return self.text(x)
        if isinstance(x,VecO): return [self.enc(y) for y in x.items]
        if isinstance(x,MapO):
            if x.is_set: return [self.enc(k) for k,_ in x.e]
            return {self.enc(k):self.enc(v) for k,v in x.e}
        if not isinstance(x,Agg): raise NoRef(repr(x)[:60])
        t=x.ty; f=x.f; v=x.vname
        if t=='Option': return None if v=='None' else self.enc(f[0])
        if t in ('VirtualTargetPath','KeyId','TypeURI'): return self.enc(f[0])
        if t=='Command': return self.enc(f[0])
        if t in ('HashValue','SignatureValue','PublicKeyValue'): return hexs(self.enc(f[0]))
        if t=='KeyType': return KT[v]
        if t=='SignatureScheme': return SC[v]
        if t=='HashAlgorithm': return ALG[v]
        if t=='Artifact': return v.upper()
        if t=='PredicateVer': return PRED_URI[v]
        if t=='TimeStamp':
            d=deref(f[0]).f; return rfc3339(self.enc(d[0]),self.enc(d[2]),self.enc(d[1]))
        if t=='DateTime': return rfc3339(self.enc(f[0]),0)
        if t=='ArtifactRule':
            if v!='Match': return [v.upper(),self.enc(f[0])]
            names=self.src.enum_payload['ArtifactRule']['Match']; d={n:self.enc(y) for n,y in zip(names,f)}
            out=['MATCH',d['pattern']]
            if d['in_src'] is not None: out+=['IN',d['in_src']]
            out+=['WITH',d['with']]
            if d['in_dst'] is not None: out+=['IN',d['in_dst']]
            return out+['FROM',d['from']]
        if t in ('MetadataWrapper','PredicateWrapper','StatementWrapper'): return self.enc(f[0])
        if t=='ByProducts':
            d={n:self.enc(y) for n,y in zip(self.src.structs[t],f)}; out={}
            if d['return_value'] is not None: out['return-value']=d['return_value']
            for k in ('stderr','stdout'):
                if d[k] is not None: out[k]=d[k]
            out.update(d['other_fields'])
            return out
        if t=='PublicKey':
            d=dict(zip(self.src.structs[t],f))
            if deref(d['typ']).vname not in ('Ed25519','Ecdsa'): raise NoRef('RSA key (PEM text)')
            out={'keyid':self.enc(d['key_id']),'keytype':KT[deref(d['typ']).vname],'scheme':self.enc(d['scheme']),'keyval':{'public':self.enc(d['value'])}}
            algs=self.enc(d['keyid_hash_algorithms'])
            if algs is not None: out['keyid_hash_algorithms']=algs
            return out
        if t=='LayoutMetadata':
            d={n:self.enc(y) for n,y in zip(self.src.structs[t],f)}
            return {'_type':'layout','steps':d['steps'],'inspect':d['inspect'],'keys':d['keys'],'expires':d['expires'],'readme':d['readme']}
        if t in PLAIN or t=='LinkMetadata':
            names=self.src.structs[t]; rn=RENAME.get(t,{}); out={}
            if t=='LinkMetadata': out['_type']='link'
            for n,val in zip(names,f):
                e=self.enc(val)
                if e is None: continue
                out[rn.get(n,n)]=e
            return out
        raise NoRef(t)

def ref_wire(eng,value,model):
    """python JSON of the reference serialisation of an interpreter value under a z3 model, or None if the type is not covered"""
    try: return RefWire(eng.src,model).enc(value)
    except (NoRef,KeyError,TypeError,IndexError,UnicodeDecodeError,AttributeError): return None
