"""Reference model of in-toto artifact-rule processing (specification v0.9 section 4.3.3 and the
reference implementation's verify_item_rules / verify_match_rule), written independently of the Rust code.

Artifact sets are *symbolic sets*: dict path -> z3 Bool ("path is in the set").  Presence of a path in a
link is concrete in a scenario; what is symbolic are digest (in)equalities, so membership terms stay small.
Patterns use the portable glob subset shared by Python's fnmatch and the glob crate (`*` and `?` also
match '/', bracket classes); a pattern that cannot be interpreted is `None` from `compile_pattern`.
"""
import z3

def T(x): return z3.BoolVal(x) if isinstance(x,bool) else x

def compile_pattern(p):
    """returns matcher(path)->bool, or None if the pattern is uninterpretable (unterminated class, ***)"""
    toks=[]; i=0
    while i<len(p):
        c=p[i]
        if c=='*':
            j=i
            while j<len(p) and p[j]=='*': j+=1
            if j-i>2: return None
            if j-i==2:
                if not ((i==0 or p[i-1]=='/') and (j==len(p) or p[j]=='/')): return None
                toks.append('**'); i=j+(1 if j<len(p) else 0); continue
            toks.append('*'); i=j
        elif c=='?': toks.append('?'); i+=1
        elif c=='[':
            k=p.find(']',i+2 if (i+1<len(p) and p[i+1]!='!') else i+3)
            if k<0: return None
            body=p[i+1:k]; neg=body.startswith('!')
            if neg: body=body[1:]
            rng=[]; q=0
            while q<len(body):
                if q+2<len(body) and body[q+1]=='-': rng.append((body[q],body[q+2])); q+=3
                else: rng.append((body[q],body[q])); q+=1
            toks.append(('cls',neg,rng)); i=k+1
        else: toks.append(('lit',c)); i+=1
    def match(s):
        def rec(ti,si):
            if ti==len(toks): return si==len(s)
            t=toks[ti]
            if t=='*': return any(rec(ti+1,k) for k in range(si,len(s)+1))
            if t=='**':
                if si>0 and s[si-1]!='/': return False
                if rec(ti+1,si): return True
                return any(s[k]=='/' and rec(ti+1,k+1) for k in range(si,len(s)))
            if si>=len(s): return False
            if t=='?': return rec(ti+1,si+1)
            if t[0]=='lit': return s[si]==t[1] and rec(ti+1,si+1)
            inside=any(lo<=s[si]<=hi for lo,hi in t[2])
            return (inside!=t[1]) and rec(ti+1,si+1)
        return rec(0,0)
    return match

def digest_eq(a,b):
    """a,b: dict alg -> list of byte terms; equality of the two descriptions as z3 term"""
    if set(a)!=set(b): return z3.BoolVal(False)
    cs=[]
    for alg in a:
        if len(a[alg])!=len(b[alg]): return z3.BoolVal(False)
        for x,y in zip(a[alg],b[alg]):
            cs.append((x==y) if not (isinstance(x,int) and isinstance(y,int)) else z3.BoolVal(x==y))
    return z3.And(*cs) if cs else z3.BoolVal(True)

def with_trailing_slash(prefix):
    """os.path.join(prefix, '') : exactly one trailing separator"""
    if prefix is None or prefix=='': return ''
    return prefix if prefix.endswith('/') else prefix+'/'

def verify_item_rules(rules,own_materials,own_products,side,links):
    """rules: list of dicts {'kind':..., 'pattern':..., MATCH: 'in_src','with','in_dst','from'}
    own_materials/own_products: dict path -> digest description;  side: 'materials'|'products'
    links: dict step name -> {'materials':{...},'products':{...}}
    returns z3 Bool: the rule list accepts"""
    src=own_materials if side=='materials' else own_products
    queue={p:z3.BoolVal(True) for p in src}
    created={p for p in own_products if p not in own_materials}
    deleted={p for p in own_materials if p not in own_products}
    modified={p:z3.Not(digest_eq(own_materials[p],own_products[p])) for p in own_materials if p in own_products}
    ok=z3.BoolVal(True)
    for r in rules:
        kind=r['kind']; pat=r['pattern']
        if kind=='MATCH':
            consumed=match_rule(r,queue,src,links)
        else:
            m=compile_pattern(pat)
            filtered={p:(queue[p] if (m is not None and m(p)) else z3.BoolVal(False)) for p in queue}
            if kind=='CREATE': consumed={p:(filtered[p] if p in created else z3.BoolVal(False)) for p in queue}
            elif kind=='DELETE': consumed={p:(filtered[p] if p in deleted else z3.BoolVal(False)) for p in queue}
            elif kind=='MODIFY': consumed={p:(z3.And(filtered[p],modified[p]) if p in modified else z3.BoolVal(False)) for p in queue}
            elif kind=='ALLOW': consumed=filtered
            elif kind=='DISALLOW':
                if m is None: ok=z3.BoolVal(False)          # uninterpretable pattern must fail, not be skipped
                else: ok=z3.And(ok,z3.Not(z3.Or(*filtered.values())) if filtered else z3.BoolVal(True))
                consumed={p:z3.BoolVal(False) for p in queue}
            elif kind=='REQUIRE':
                ok=z3.And(ok,queue.get(pat,z3.BoolVal(False)))
                consumed={p:z3.BoolVal(False) for p in queue}
            else: raise ValueError(kind)
        queue={p:z3.And(queue[p],z3.Not(consumed[p])) for p in queue}
    return z3.simplify(ok)

def match_rule(r,queue,src,links):
    consumed={p:z3.BoolVal(False) for p in queue}
    dst_link=links.get(r['from'])
    if dst_link is None: return consumed
    dst=dst_link['materials' if r['with']=='Materials' else 'products']
    sp=with_trailing_slash(r.get('in_src')); dp=with_trailing_slash(r.get('in_dst'))
    m=compile_pattern(r['pattern'])
    for full in queue:
        if not full.startswith(sp): continue
        base=full[len(sp):]
        if m is None or not m(base): continue
        d=dp+base
        if d not in dst: continue
        consumed[full]=z3.And(queue[full],digest_eq(src[full],dst[d]))
    return consumed
