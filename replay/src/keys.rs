//! Pool of real keys (the repository's own fixtures).
use in_toto::crypto::{PrivateKey, PublicKey, SignatureScheme};

pub struct Pool {
    pub ed: Vec<PrivateKey>,
}

impl Pool {
    pub fn load() -> Pool {
        let repo = std::env::var("VERIF_REPO").unwrap_or_else(|_| "/repo".to_string());
        // Signing pool: freshly generated ECDSA P-256 keys.  ECDSA signatures are randomized, so two
        // signatures by one key over the same bytes are byte-different - the general case the symbolic
        // model covers (ed25519 would collapse them into byte-identical duplicates).
        let mut ed = Vec::new();
        if std::env::var("VERIF_POOL").map(|v| v == "ed25519").unwrap_or(false) {
            for i in 1..=6 {
                let p = format!("{}/tests/ed25519/ed25519-{}.pk8.der", repo, i);
                let der = std::fs::read(&p).expect("read key");
                ed.push(PrivateKey::from_pkcs8(&der, SignatureScheme::Ed25519).expect("parse key"));
            }
        } else {
            for _ in 0..6 {
                let der = PrivateKey::new(in_toto::crypto::KeyType::Ecdsa).expect("generate key");
                ed.push(PrivateKey::from_pkcs8(&der, SignatureScheme::EcdsaP256Sha256).expect("parse generated key"));
            }
        }
        // the harness identifies pool key i with the model key id sha256("pool-key-<i>"); give the real keys the same *relative
        // order* of key ids (rank of the model ids of keys 0..5: 2,4,3,0,5,1), so that order-dependent behaviour replays faithfully
        let rank = [2usize, 4, 3, 0, 5, 1];
        if ed.len() == 6 {
            let mut sorted: Vec<PrivateKey> = ed;
            sorted.sort_by(|a, b| a.public().key_id().prefix_full().cmp(&b.public().key_id().prefix_full()));
            let mut slots: Vec<Option<PrivateKey>> = sorted.into_iter().map(Some).collect();
            ed = rank.iter().map(|r| slots[*r].take().unwrap()).collect();
        }
        Pool { ed }
    }
    pub fn public(&self, i: usize) -> PublicKey {
        self.ed[i].public().clone()
    }
    pub fn keyid(&self, i: usize) -> String {
        self.ed[i].public().key_id().prefix_full()
    }
}

pub trait KeyIdFull {
    fn prefix_full(&self) -> String;
}
impl KeyIdFull for in_toto::crypto::KeyId {
    fn prefix_full(&self) -> String {
        let v = serde_json::to_value(self).unwrap();
        v.as_str().unwrap().to_string()
    }
}
