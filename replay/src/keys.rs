//! Pool of real keys (the repository's own fixtures).
use in_toto::crypto::{PrivateKey, PublicKey, SignatureScheme};

pub struct Pool {
    pub ed: Vec<PrivateKey>,
    /// scenario-local: pool index i stands for the MATERIAL of key j known under a second identifier (same key bytes, no
    /// key-id hash algorithm list, hence another key id)
    pub alt: std::cell::RefCell<std::collections::HashMap<usize, PublicKey>>,
}

impl Pool {
    pub fn load() -> Pool {
        let repo = std::env::var("VERIF_REPO").unwrap_or_else(|_| "/repo".to_string());
        // Signing pool: freshly generated ECDSA P-256 keys.  ECDSA signatures are randomized, so two
        // signatures by one key over the same bytes are byte-different - the general case the symbolic
        // model covers (ed25519 would collapse them into byte-identical duplicates).
        let mut ed = Vec::new();
        if std::env::var("VERIF_POOL").map(|v| v == "ed25519").unwrap_or(false) {
            for i in 1..=6 {
                let p = format!("{}/tests/ed25519/ed25519-{}.pk8.der", repo, i);
                let der = std::fs::read(&p).expect("read key");
                ed.push(PrivateKey::from_pkcs8(&der, SignatureScheme::Ed25519).expect("parse key"));
            }
        } else {
            for _ in 0..6 {
                let der = PrivateKey::new(in_toto::crypto::KeyType::Ecdsa).expect("generate key");
                ed.push(PrivateKey::from_pkcs8(&der, SignatureScheme::EcdsaP256Sha256).expect("parse generated key"));
            }
        }
        // the harness identifies pool key i with the model key id sha256("pool-key-<i>"); give the real keys the same *relative
        // order* of key ids (rank of the model ids of keys 0..5: 2,4,3,0,5,1), so that order-dependent behaviour replays faithfully
        let rank = [2usize, 4, 3, 0, 5, 1];
        if ed.len() == 6 {
            let mut sorted: Vec<PrivateKey> = ed;
            sorted.sort_by(|a, b| a.public().key_id().prefix_full().cmp(&b.public().key_id().prefix_full()));
            let mut slots: Vec<Option<PrivateKey>> = sorted.into_iter().map(Some).collect();
            ed = rank.iter().map(|r| slots[*r].take().unwrap()).collect();
        }
        Pool { ed, alt: Default::default() }
    }
    pub fn public(&self, i: usize) -> PublicKey {
        if let Some(k) = self.alt.borrow().get(&i) { return k.clone(); }
        self.ed[i].public().clone()
    }
    pub fn keyid(&self, i: usize) -> String {
        if let Some(k) = self.alt.borrow().get(&i) { return k.key_id().prefix_full(); }
        self.ed[i].public().key_id().prefix_full()
    }
    /// `same_material`: {"1": 0} - identifier 1 is a second name of the material of key 0
    pub fn set_same_material(&self, m: &serde_json::Value) {
        self.alt.borrow_mut().clear();
        if let Some(o) = m.as_object() {
            for (k, v) in o {
                let j = v.as_u64().unwrap() as usize;
                let base = self.ed[j].public().clone();
                let bytes = base.as_bytes().to_vec();
                let alt = match base.scheme() {
                    SignatureScheme::Ed25519 => PublicKey::from_ed25519_with_keyid_hash_algorithms(bytes, None),
                    _ => PublicKey::from_ecdsa_with_keyid_hash_algorithms(bytes, None),
                };
                if let Ok(a) = alt { self.alt.borrow_mut().insert(k.parse().unwrap(), a); }
            }
        }
    }
}

pub trait KeyIdFull {
    fn prefix_full(&self) -> String;
}
impl KeyIdFull for in_toto::crypto::KeyId {
    fn prefix_full(&self) -> String {
        let v = serde_json::to_value(self).unwrap();
        v.as_str().unwrap().to_string()
    }
}
