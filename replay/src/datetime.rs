//! C06/C16: expiry text <-> instant through the public (de)serialisation of a layout.
use std::collections::HashMap;
use chrono::{DateTime, FixedOffset, Utc};
use in_toto::models::{LayoutMetadata, MetadataWrapper};
use serde_json::{json, Value};

pub fn run(sc: &Value) -> Value {
    if sc["mode"] == "parse" {
        let local = sc["local_secs"].as_i64().unwrap();
        let off = sc["offset"].as_i64().unwrap() as i32;
        let nanos = sc["nanos"].as_u64().unwrap() as u32;
        let utc: DateTime<Utc> = match DateTime::from_timestamp(local - off as i64, nanos) { Some(t) => t, None => return json!({"outcome":"unrepresentable"}) };
        let text = utc.with_timezone(&FixedOffset::east_opt(off).unwrap()).to_rfc3339();
        let doc = json!({"_type":"layout","expires":text,"readme":"","keys":{},"steps":[],"inspect":[]});
        let parsed: Result<MetadataWrapper, _> = serde_json::from_str(&doc.to_string());
        match parsed {
            Ok(MetadataWrapper::Layout(l)) => json!({"outcome": format!("instant:{}", l.expires.timestamp()), "text": text, "nanos": l.expires.timestamp_subsec_nanos()}),
            Ok(_) => json!({"outcome":"err:not-a-layout","text":text}),
            Err(e) => json!({"outcome":"err:parse","message":e.to_string(),"text":text}),
        }
    } else {
        let t: DateTime<Utc> = match DateTime::from_timestamp(sc["secs"].as_i64().unwrap(), sc["nanos"].as_u64().unwrap() as u32) { Some(t) => t, None => return json!({"outcome":"unrepresentable"}) };
        let l = LayoutMetadata::new(t, String::new(), HashMap::new(), vec![], vec![]);
        let text = serde_json::to_string(&MetadataWrapper::Layout(l)).unwrap();
        let parsed: Result<MetadataWrapper, _> = serde_json::from_str(&text);
        match parsed {
            Ok(MetadataWrapper::Layout(l)) => json!({"outcome": format!("instant:{}", l.expires.timestamp()), "text": text}),
            _ => json!({"outcome":"err:parse","text":text}),
        }
    }
}
