//! Replay of `in_toto_verify` scenarios: real keys, real signatures, real link directory, real clock.
use std::collections::HashMap;
use std::path::{Path, PathBuf};
use std::str::FromStr;

use in_toto::crypto::{KeyId, PublicKey};
use in_toto::models::inspection::Inspection;
use in_toto::models::step::Step;
use in_toto::models::{LayoutMetadata, LinkMetadata, Metablock, MetadataWrapper};
use in_toto::verifylib::in_toto_verify;
use serde_json::{json, Value};

use crate::keys::Pool;

pub const UNKNOWN_KEYID: &str = "ffffffffffffffffffffffffffffffffffffffffffffffffffffffffffffffff";

pub fn keyid_of(pool: &Pool, k: &Value) -> String {
    match k.as_u64() {
        Some(i) if (i as usize) < pool.ed.len() => pool.keyid(i as usize),
        _ => UNKNOWN_KEYID.to_string(),
    }
}

fn hexs(v: &Value) -> String {
    let mut s = String::new();
    for b in v.as_array().unwrap() {
        s.push_str(&format!("{:02x}", b.as_u64().unwrap() as u8));
    }
    s
}

fn artifacts(v: &Value) -> Value {
    let mut m = serde_json::Map::new();
    for (p, dg) in v.as_object().unwrap() {
        if let Some(o) = dg.as_object() {
            let mut d = serde_json::Map::new();
            for (alg, bytes) in o { d.insert(alg.clone(), Value::String(hexs(bytes))); }
            m.insert(p.clone(), Value::Object(d));
        } else {
            m.insert(p.clone(), json!({"sha256": hexs(dg)}));
        }
    }
    Value::Object(m)
}

fn link_meta(b: &Value, altered: bool) -> MetadataWrapper {
    let mut name = b["name"].as_str().unwrap().to_string();
    let mut byp = json!({"stdout": "", "stderr": ""});
    if !b["return_value"].is_null() {
        byp["return-value"] = b["return_value"].clone();
    }
    if altered {
        name.push_str("-altered-after-signing");
    }
    let v = json!({"_type":"link","name":name,"materials":artifacts(&b["materials"]),"products":artifacts(&b["products"]),
                   "byproducts":byp,"command":b["command"].clone(),"env":null});
    let lm: LinkMetadata = serde_json::from_value(v).expect("link parses");
    MetadataWrapper::Link(lm)
}

fn layout_meta(pool: &Pool, l: &Value, now: chrono::DateTime<chrono::Utc>, now_secs: i64, altered: bool) -> MetadataWrapper {
    let mut steps: Vec<Step> = Vec::new();
    for s in l["steps"].as_array().unwrap() {
        let pubkeys: Vec<String> = s["pubkeys"].as_array().unwrap().iter().map(|k| keyid_of(pool, k)).collect();
        let v = json!({"_type":"step","name":s["name"],"threshold":s["threshold"],"expected_materials":s["expected_materials"],
                       "expected_products":s["expected_products"],"pubkeys":pubkeys,"expected_command":[]});
        steps.push(serde_json::from_str(&v.to_string()).expect("step parses"));
    }
    let mut insp: Vec<Inspection> = Vec::new();
    for s in l["inspect"].as_array().unwrap() {
        let v = json!({"_type":"inspection","name":s["name"],"expected_materials":s["expected_materials"],
                       "expected_products":s["expected_products"],"run":s["run"]});
        insp.push(serde_json::from_str(&v.to_string()).expect("inspection parses"));
    }
    let mut keys: HashMap<KeyId, PublicKey> = HashMap::new();
    for k in l["keys"].as_array().unwrap() {
        let id = keyid_of(pool, k);
        let stored = l["key_alias"].get(k.to_string()).and_then(|x| x.as_u64()).unwrap_or(k.as_u64().unwrap_or(0)) as usize;
        keys.insert(KeyId::from_str(&id).unwrap(), pool.public(stored));
    }
    // expiry relative to the real clock: same ordering as in the scenario, with a safety margin on the unexpired side
    let delta = (l["expires_secs"].as_i64().unwrap() as i128 - now_secs as i128).clamp(-63_000_000_000, 250_000_000_000) as i64;   // stays within years 1..9999 around the real clock
    let nanos_later = l["expires_nanos"].as_u64().unwrap_or(0) > 0;
    let expires = if delta > 0 || (delta == 0 && nanos_later) {
        now + chrono::Duration::seconds(delta + 30)
    } else if delta == 0 {
        // equal seconds, no nanos: boundary; natively only "clearly unexpired" or "clearly expired" can be shown
        now + chrono::Duration::seconds(30)
    } else {
        now + chrono::Duration::seconds(delta)
    };
    // sequences of verifications: expiry placed explicitly relative to the real clock
    let expires = match l["expires_in_ms"].as_i64() { Some(ms) => chrono::Utc::now() + chrono::Duration::milliseconds(ms), None => expires };
    let mut readme = l["readme"].as_str().unwrap_or("").to_string();
    if altered {
        readme.push_str("altered-after-signing");
    }
    MetadataWrapper::Layout(LayoutMetadata::new(expires, readme, keys, steps, insp))
}

fn sign_block(pool: &Pool, real: &MetadataWrapper, other: &MetadataWrapper, sigs: &Value) -> Vec<Value> {
    let mut out = Vec::new();
    for s in sigs.as_array().unwrap() {
        let mb = s["made_by"].as_u64().unwrap() as usize;
        let signer = if mb < pool.ed.len() - 1 { mb } else { pool.ed.len() - 1 };
        let label = if s["label_raw"].is_array() { String::from_utf8(s["label_raw"].as_array().unwrap().iter().map(|b| b.as_u64().unwrap() as u8).collect()).expect("utf8 key id") } else { keyid_of(pool, &s["label"]) };
        out.push(crate::c04::make_sig(pool, real, other, signer, &label, s["intact"].as_bool().unwrap(), s["over"].as_bool().unwrap()));
    }
    out
}

pub fn dir_path(pool: &Pool, root: &Path, comps: &Value) -> PathBuf {
    let mut p = root.join("links");
    for c in comps.as_array().unwrap() {
        let id = keyid_of(pool, &c[1]);
        p = p.join(format!("{}.{}{}", c[0].as_str().unwrap(), &id[0..8], c.get(2).and_then(|x| x.as_str()).unwrap_or("")));
    }
    p
}

fn block_meta(pool: &Pool, b: &Value, now: chrono::DateTime<chrono::Utc>, now_secs: i64, altered: bool) -> MetadataWrapper {
    if b["type"] == "link" { link_meta(b, altered) } else { layout_meta(pool, &b["layout"], now, now_secs, altered) }
}

fn summarize(mb: &Metablock) -> Value {
    let v = serde_json::to_value(mb).unwrap();
    json!({"name": v["signed"]["name"], "materials": v["signed"]["materials"], "products": v["signed"]["products"],
           "byproducts": v["signed"]["byproducts"], "command": v["signed"]["command"]})
}

pub fn run(pool: &Pool, sc: &Value) -> Value {
    pool.set_same_material(&sc["layout"]["layout"]["same_material"]);
    let r = run_inner(pool, sc);
    pool.set_same_material(&Value::Null);
    r
}
fn run_inner(pool: &Pool, sc: &Value) -> Value {
    let now = chrono::Utc::now();
    let now_secs = sc["now_secs"].as_i64().unwrap();
    let root = std::env::temp_dir().join(format!("verif-verify-{}-{}", std::process::id(), now.timestamp_nanos_opt().unwrap_or(0)));
    std::fs::create_dir_all(root.join("links")).unwrap();
    // link directory
    for d in sc["dirs"].as_array().unwrap() {
        let dp = dir_path(pool, &root, &d["path"]);
        std::fs::create_dir_all(&dp).unwrap();
        for f in d["files"].as_array().unwrap() {
            let id = keyid_of(pool, &f["prefix_of"]);
            let short = f["short_raw"].as_str().map(|x| x.to_string()).unwrap_or_else(|| id[0..8].to_string());
            let fname = dp.join(format!("{}.{}.link", f["step"].as_str().unwrap(), short));
            if !f["parsable"].as_bool().unwrap_or(true) {
                std::fs::write(&fname, "this is not json").unwrap();
                continue;
            }
            let b = &f["block"];
            let real = block_meta(pool, b, now, now_secs, false);
            let other = block_meta(pool, b, now, now_secs, true);
            let sigs = sign_block(pool, &real, &other, &b["sigs"]);
            let doc = json!({"signatures": sigs, "signed": serde_json::to_value(&real).unwrap()});
            std::fs::write(&fname, serde_json::to_string_pretty(&doc).unwrap()).unwrap();
        }
    }
    // top-level layout block (constructed directly so that aliased key tables are representable)
    let lb = &sc["layout"];
    let real = block_meta(pool, lb, now, now_secs, false);
    let other = block_meta(pool, lb, now, now_secs, true);
    let sigs = sign_block(pool, &real, &other, &lb["sigs"]);
    let signatures = serde_json::from_value(Value::Array(sigs)).expect("signatures parse");
    let mb = Metablock { signatures, metadata: real };
    let mut outcomes: Vec<String> = Vec::new();
    let mut summaries: Vec<Value> = Vec::new();
    let mut events: Vec<Value> = Vec::new();
    let reps = sc["repeat"].as_u64().unwrap_or(8);
    let cwd = root.join("cwd");
    std::fs::create_dir_all(&cwd).unwrap();
    let old = std::env::current_dir().ok();
    std::env::set_current_dir(&cwd).unwrap();
    let link_dir = root.join("links");
    if let Some(ms) = sc["delay_verification_ms"].as_u64() { std::thread::sleep(std::time::Duration::from_millis(ms)); }
    for _ in 0..reps {
        let mut ck: HashMap<KeyId, PublicKey> = HashMap::new();
        for c in sc["caller_keys"].as_array().unwrap() {
            ck.insert(KeyId::from_str(&keyid_of(pool, &c["label"])).unwrap(), pool.public(c["key"].as_u64().unwrap() as usize));
        }
        // clean inspection traces of the previous repetition
        for e in std::fs::read_dir(&cwd).unwrap().flatten() { let _ = std::fs::remove_file(e.path()); }
        let r = crate::guarded_result(|| in_toto_verify(&mb, ck, link_dir.to_str().unwrap(), sc["step_name"].as_str()));
        let (o, s) = match r {
            Err(p) => (format!("panic: {}", p), Value::Null),
            Ok(Ok(m)) => ("ok".to_string(), summarize(&m)),
            Ok(Err(e)) => (crate::err_name(&e), Value::Null),
        };
        let mut ev: Vec<String> = std::fs::read_dir(&cwd).unwrap().flatten().map(|e| e.file_name().to_string_lossy().to_string()).collect();
        ev.sort();
        let evv = json!(ev);
        if !outcomes.contains(&o) { outcomes.push(o); }
        if !s.is_null() && !summaries.contains(&s) { summaries.push(s); }
        if !events.contains(&evv) { events.push(evv); }
    }
    if let Some(o) = old { let _ = std::env::set_current_dir(o); }
    let _ = std::fs::remove_dir_all(&root);
    let first = if outcomes[0].starts_with("panic") { "panic".to_string() } else { outcomes[0].clone() };
    json!({"outcome": first, "outcomes": outcomes, "summaries": summaries, "events": events})
}

/// two verifications in one process: the first at once, the second after `sleep_ms`
pub fn run_sequence(pool: &Pool, sc: &Value) -> Value {
    // both layouts are built now (their expiries are relative to this moment); only the second *verification* is delayed
    // optionally: what the second inputs give on their own, BEFORE anything else ran in this process
    // (the replay binary is started once per batch; `also_alone` scenarios are replayed one per process by the harness)
    let alone = if sc["also_alone"] == true { Some(run(pool, &sc["second"])) } else { None };
    for _ in 0..sc["repeat_first"].as_u64().unwrap_or(1) { let _ = run(pool, &sc["first"]); }
    let mut second = sc["second"].clone();
    second["delay_verification_ms"] = sc["sleep_ms"].clone();
    let mut after = run(pool, &second);
    if let Some(a) = alone { after["alone_differs"] = json!(a["outcome"] != after["outcome"] || a["summaries"] != after["summaries"]); after["alone"] = a["outcome"].clone(); }
    after
}

/// C06: an empty layout built through one of the crate's construction paths (`via`: new / builder / parser) with its expiry
/// placed relative to the real clock - `same_second`: {exp_ms, now_ms}: expiry and verification inside one wall-clock second,
/// the expiry at exp_ms, the verification started at now_ms; otherwise `expires_in_ms` from now.
pub fn run_expiry_via(pool: &Pool, sc: &Value) -> Value {
    use chrono::{SecondsFormat, Timelike, Utc};
    use in_toto::models::LayoutMetadataBuilder;
    let via = sc["via"].as_str().unwrap_or("new");
    let root = std::env::temp_dir().join(format!("verif-expiry-{}-{}", std::process::id(), Utc::now().timestamp_nanos_opt().unwrap_or(0)));
    std::fs::create_dir_all(&root).unwrap();
    let mut last = json!({"outcome": "not-run"});
    for _try in 0..12 {
        let same = sc.get("same_second").filter(|x| x.is_object());
        let t0;
        let expires = if let Some(ss) = same {
            let want = ss["now_ms"].as_u64().unwrap().min(900) as u32;
            loop {
                let ms = Utc::now().nanosecond() / 1_000_000;
                if ms >= want && ms < want + 50 { break; }
                std::thread::sleep(std::time::Duration::from_millis(2));
            }
            t0 = Utc::now();
            t0.with_nanosecond(0).unwrap() + chrono::Duration::milliseconds(ss["exp_ms"].as_i64().unwrap())
        } else {
            t0 = Utc::now();
            t0 + chrono::Duration::milliseconds(sc["expires_in_ms"].as_i64().unwrap_or(-5000))
        };
        let layout = match via {
            "builder" => LayoutMetadataBuilder::new().expires(expires).build().expect("builder"),
            "parser" => {
                // the document states the expiry with fractional seconds and a non-UTC offset
                let text = expires.with_timezone(&chrono::FixedOffset::east_opt(3600).unwrap()).to_rfc3339_opts(SecondsFormat::Nanos, false);
                let doc = json!({"_type":"layout","steps":[],"inspect":[],"keys":{},"expires":text,"readme":""});
                match serde_json::from_str::<LayoutMetadata>(&doc.to_string()) { Ok(l) => l, Err(e) => return json!({"outcome":"unparsable-layout","message":e.to_string()}) }
            }
            _ => LayoutMetadata::new(expires, String::new(), HashMap::new(), vec![], vec![]),
        };
        let mb = Metablock::new(MetadataWrapper::Layout(layout), &[&pool.ed[0]]).expect("sign");
        let mut ck: HashMap<KeyId, PublicKey> = HashMap::new();
        ck.insert(KeyId::from_str(&pool.keyid(0)).unwrap(), pool.public(0));
        let r = in_toto_verify(&mb, ck, root.to_str().unwrap(), None);
        let t1 = Utc::now();
        let o = match r { Ok(_) => "ok".to_string(), Err(e) => crate::err_name(&e) };
        last = json!({"outcome": o, "outcomes": [o], "started_ms": t0.nanosecond() / 1_000_000, "ended_ms": t1.nanosecond() / 1_000_000});
        if same.is_none() || t1.timestamp() == t0.timestamp() { break; }
    }
    let _ = std::fs::remove_dir_all(&root);
    last
}
