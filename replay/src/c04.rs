//! C04: Metablock::verify with grafted signatures.
use in_toto::models::{LinkMetadataBuilder, Metablock, MetadataWrapper};
use in_toto::crypto::PublicKey;
use serde_json::{json, Value};

use crate::keys::Pool;

fn link(name: &str) -> MetadataWrapper {
    MetadataWrapper::Link(LinkMetadataBuilder::new().name(name.to_string()).build().unwrap())
}

/// sign `signed` (or a different content when !over) with pool key `made_by`, relabel, corrupt
pub fn make_sig(pool: &Pool, signed: &MetadataWrapper, other: &MetadataWrapper, made_by: usize, label_keyid: &str, intact: bool, over: bool) -> Value {
    let content = if over { signed.clone() } else { other.clone() };
    let mb = Metablock::new(content, &[&pool.ed[made_by]]).unwrap();
    let v = serde_json::to_value(&mb).unwrap();
    let mut sig = v["signatures"][0].clone();
    sig["keyid"] = json!(label_keyid);
    if !intact {
        let s = sig["sig"].as_str().unwrap().to_string();
        let mut b: Vec<u8> = s.into_bytes();
        b[0] = if b[0] == b'0' { b'1' } else { b'0' };
        sig["sig"] = json!(String::from_utf8(b).unwrap());
    }
    sig
}

/// a signature of exactly `sig_len` bytes made by the repository's own signer for the scheme (fixture keys), verified by Metablock::verify
pub fn run_genuine(sc: &Value) -> Value {
    use in_toto::crypto::{PrivateKey, SignatureScheme};
    let repo = std::env::var("VERIF_REPO").unwrap_or_else(|_| "/repo".to_string());
    let scheme = sc["scheme"].as_str().unwrap();
    let (file, sch) = match (scheme, sc["key_bits"].as_u64().unwrap_or(0)) {
        ("Ed25519", _) => ("ed25519/ed25519-1.pk8.der", SignatureScheme::Ed25519),
        ("EcdsaP256Sha256", _) => ("ecdsa/ec.pk8.der", SignatureScheme::EcdsaP256Sha256),
        ("RsaSsaPssSha256", 4096) => ("rsa/rsa-4096.pk8.der", SignatureScheme::RsaSsaPssSha256),
        ("RsaSsaPssSha256", _) => ("rsa/rsa-2048.pk8.der", SignatureScheme::RsaSsaPssSha256),
        ("RsaSsaPssSha512", 4096) => ("rsa/rsa-4096.pk8.der", SignatureScheme::RsaSsaPssSha512),
        ("RsaSsaPssSha512", _) => ("rsa/rsa-2048.pk8.der", SignatureScheme::RsaSsaPssSha512),
        _ => return json!({"outcome": "unknown-scheme", "outcomes": []}),
    };
    let der = std::fs::read(format!("{}/tests/{}", repo, file)).expect("key fixture");
    let key = PrivateKey::from_pkcs8(&der, sch).expect("fixture key parses");
    let want = sc["sig_len"].as_u64().unwrap() as usize;
    // ECDSA signing is randomised: vary the content until the signer emits a value of the wanted length
    for n in 0..4_000_000u64 {
        let content = link(&format!("step{}", n));
        let mb = Metablock::new(content, &[&key]).unwrap();
        let v = serde_json::to_value(&mb).unwrap();
        let len = v["signatures"][0]["sig"].as_str().unwrap().len() / 2;
        if len != want { continue; }
        let o = match mb.verify(1, [key.public().clone()].iter()) { Ok(_) => "ok".to_string(), Err(e) => crate::err_name(&e) };
        return json!({"outcome": o, "outcomes": [o], "tries": n + 1, "sig_len": len});
    }
    json!({"outcome": "no-signature-of-that-length", "outcomes": []})
}

pub fn run(pool: &Pool, sc: &Value) -> Value {
    let nk_unknown = 5usize; // pool key used for "made by a key outside the pool" / unknown label
    let signed = link("step");
    let other = link("other");
    let mut sigs = Vec::new();
    let npool = sc["npool"].as_u64().unwrap_or(3) as usize;
    for s in sc["sigs"].as_array().unwrap() {
        let lab = s["label"].as_u64().unwrap() as usize;
        let mb = s["made_by"].as_u64().unwrap() as usize;
        // labels: pool ids, one unknown id, and (npool+1+i) the id of pool key i spelled in upper case
        let label_id = if lab < npool { pool.keyid(lab) } else if lab == npool { pool.keyid(nk_unknown) } else { pool.keyid(lab - npool - 1).to_uppercase() };
        let made_by = if mb < npool { mb } else { nk_unknown - 1 };
        sigs.push(make_sig(pool, &signed, &other, made_by, &label_id, s["intact"].as_bool().unwrap(), s["over"].as_bool().unwrap()));
    }
    let block = json!({"signatures": sigs, "signed": serde_json::to_value(&signed).unwrap()});
    let mb: Metablock = serde_json::from_value(block).expect("metablock parses");
    let auth: Vec<PublicKey> = sc["auth"].as_array().unwrap().iter().map(|i| pool.public(i.as_u64().unwrap() as usize)).collect();
    let thr = sc["threshold"].as_u64().unwrap() as u32;
    if sc["replay_on_other_content"] == true {
        // first the genuine block, then a block with OTHER content carrying the very same signature values, in this process
        let (mb, auth) = if sc["scheme"].as_str().map(|x| x.starts_with("Rsa")).unwrap_or(false) {
            // RSA-PSS variant: key 0 is the repository's RSA fixture (the pool itself is ECDSA); only signatures made by key 0 are RSA ones
            let repo = std::env::var("VERIF_REPO").unwrap_or_else(|_| "/repo".to_string());
            let der = std::fs::read(format!("{}/tests/rsa/rsa-2048.pk8.der", repo)).expect("rsa fixture");
            let rsa = in_toto::crypto::PrivateKey::from_pkcs8(&der, in_toto::crypto::SignatureScheme::RsaSsaPssSha256).expect("rsa key");
            let mut sigs2 = Vec::new();
            for s in sc["sigs"].as_array().unwrap() {
                let mbk = s["made_by"].as_u64().unwrap() as usize; let lab = s["label"].as_u64().unwrap() as usize;
                let content = signed.clone();
                let blk = if mbk == 0 { Metablock::new(content, &[&rsa]).unwrap() } else { Metablock::new(content, &[&pool.ed[if mbk < npool { mbk } else { nk_unknown - 1 }]]).unwrap() };
                let mut sig = serde_json::to_value(&blk).unwrap()["signatures"][0].clone();
                let rsa_id = serde_json::to_value(rsa.public().key_id()).unwrap().as_str().unwrap().to_string();
                sig["keyid"] = json!(if lab == 0 { rsa_id } else if lab < npool { pool.keyid(lab) } else { pool.keyid(nk_unknown) });
                if !s["intact"].as_bool().unwrap() { let t = sig["sig"].as_str().unwrap().to_string(); let mut b: Vec<u8> = t.into_bytes(); b[0] = if b[0] == b'0' { b'1' } else { b'0' }; sig["sig"] = json!(String::from_utf8(b).unwrap()); }
                sigs2.push(sig);
            }
            let block = json!({"signatures": sigs2, "signed": serde_json::to_value(&signed).unwrap()});
            let m: Metablock = serde_json::from_value(block).expect("metablock parses");
            let a: Vec<PublicKey> = vec![rsa.public().clone(), pool.public(1)];
            (m, a)
        } else { (mb, auth) };
        let _ = mb.verify(thr, auth.iter());
        let block2 = json!({"signatures": serde_json::to_value(&mb).unwrap()["signatures"], "signed": serde_json::to_value(&other).unwrap()});
        let mb2: Metablock = serde_json::from_value(block2).expect("metablock parses");
        let o = match mb2.verify(thr, auth.iter()) { Ok(_) => "ok".to_string(), Err(e) => crate::err_name(&e) };
        return json!({"outcome": o, "outcomes": [o]});
    }
    let reps = sc["repeat"].as_u64().unwrap_or(8);
    let mut outcomes: Vec<String> = Vec::new();
    for _ in 0..reps {
        let r = mb.verify(thr, auth.iter());
        let o = match r {
            Ok(m) => { if m == signed { "ok".to_string() } else { "ok-other-content".to_string() } }
            Err(e) => crate::err_name(&e),
        };
        if !outcomes.contains(&o) { outcomes.push(o); }
    }
    json!({"outcome": outcomes[0], "outcomes": outcomes})
}
