//! C12: key ids, SPKI import/export, layout key tables - through the public API.
use in_toto::crypto::{PublicKey, SignatureScheme};
use in_toto::models::MetadataWrapper;
use serde_json::{json, Value};
fn bytes(v: &Value) -> Vec<u8> { v.as_array().unwrap().iter().map(|b| b.as_u64().unwrap() as u8).collect() }
fn keyid(k: &PublicKey) -> String { serde_json::to_value(k.key_id()).unwrap().as_str().unwrap().to_string() }
fn tlv(tag: u8, body: &[u8]) -> Vec<u8> {
    let n = body.len();
    let mut out = vec![tag];
    if n < 128 { out.push(n as u8) } else if n < 256 { out.push(0x81); out.push(n as u8) } else { out.push(0x82); out.push((n >> 8) as u8); out.push(n as u8) }
    out.extend_from_slice(body); out
}
fn spki(params: &[u8], key: &[u8]) -> Vec<u8> { let mut bs = vec![0u8]; bs.extend_from_slice(key); let mut inner = tlv(0x30, params); inner.extend(tlv(0x03, &bs)); tlv(0x30, &inner) }

pub fn run_keyid(sc: &Value) -> Value {
    // history: the same key material constructed first in another way (same process, same thread)
    if let Some(h) = sc.get("history").and_then(|h| h.as_object()) {
        let mut first = sc.clone();
        first.as_object_mut().unwrap().remove("history");
        if let Some(a) = h.get("same key first constructed with hash algorithms") { first["algs"] = a.clone(); }
        if let Some(s) = h.get("same key first constructed with scheme") { first["key"] = json!(if s == "RsaSsaPssSha512" { "rsa512" } else { "rsa" }); }
        let _ = run_keyid(&first);
    }
    let value = bytes(&sc["value"]);
    let algs: Option<Vec<String>> = if sc["algs"].is_null() { None } else { Some(sc["algs"].as_array().unwrap().iter().map(|x| x.as_str().unwrap().to_string()).collect()) };
    let default = algs.as_ref().map(|a| a == &vec!["sha256".to_string(), "sha512".to_string()]).unwrap_or(false);
    // `via`: the construction path the model blames (the public SPKI importers fix the default algorithm list)
    let via = sc["via"].as_str().unwrap_or("");
    if via == "from_spki" || via == "from_pem_spki" {
        if !default { return json!({"outcome": "not-constructible-through-public-api"}); }
        let (params, scheme) = match sc["key"].as_str().unwrap() {
            "ed25519" => { let mut p = tlv(6, &[0x2b,0x65,0x70]); p.extend([5u8, 0]); (p, SignatureScheme::Ed25519) }
            "ecdsa" => { let mut p = tlv(6, &[0x2a,0x86,0x48,0xce,0x3d,0x02,0x01]); p.extend(tlv(6, &[0x2a,0x86,0x48,0xce,0x3d,0x03,0x01,0x07])); (p, SignatureScheme::EcdsaP256Sha256) }
            k => { let mut p = tlv(6, &[0x2a,0x86,0x48,0x86,0xf7,0x0d,0x01,0x01,0x01]); p.extend([5u8, 0]); (p, if k == "rsa512" { SignatureScheme::RsaSsaPssSha512 } else { SignatureScheme::RsaSsaPssSha256 }) }
        };
        let der = spki(&params, &value);
        let r = if via == "from_spki" { PublicKey::from_spki(&der, scheme) } else {
            let b64 = data_encoding::BASE64.encode(&der);
            let mut pem = String::from("-----BEGIN PUBLIC KEY-----\n");
            for c in b64.as_bytes().chunks(64) { pem.push_str(std::str::from_utf8(c).unwrap()); pem.push('\n'); }
            pem.push_str("-----END PUBLIC KEY-----\n");
            PublicKey::from_pem_spki(&pem, scheme)
        };
        return match r { Ok(k) => json!({"outcome": format!("keyid:{}", keyid(&k))}), Err(e) => json!({"outcome": crate::err_name(&e)}) };
    }
    let r = match sc["key"].as_str().unwrap() {
        "ed25519" => PublicKey::from_ed25519_with_keyid_hash_algorithms(value, algs),
        "ecdsa" => PublicKey::from_ecdsa_with_keyid_hash_algorithms(value, algs),
        k if k.starts_with("rsa") => {
            let scheme = if k == "rsa512" { SignatureScheme::RsaSsaPssSha512 } else { SignatureScheme::RsaSsaPssSha256 };
            let mut p = tlv(6, &[0x2a,0x86,0x48,0x86,0xf7,0x0d,0x01,0x01,0x01]); p.extend([5u8, 0]);
            let der = spki(&p, &value);
            if default { PublicKey::from_spki(&der, scheme) } else {
                // other hash-algorithm lists: through the JSON form of the key (the public constructors fix the list)
                let b64 = data_encoding::BASE64.encode(&der);
                let mut pem = String::from("-----BEGIN PUBLIC KEY-----\n");
                for c in b64.as_bytes().chunks(64) { pem.push_str(std::str::from_utf8(c).unwrap()); pem.push('\n'); }
                pem.push_str("-----END PUBLIC KEY-----");
                let mut doc = json!({"keytype":"rsa","scheme": if k == "rsa512" { "rsassa-pss-sha512" } else { "rsassa-pss-sha256" },"keyval":{"public":pem}});
                if let Some(a) = &algs { doc["keyid_hash_algorithms"] = json!(a); }
                return match serde_json::from_value::<PublicKey>(doc) { Ok(k) => json!({"outcome": format!("keyid:{}", keyid(&k))}), Err(e) => json!({"outcome": "err", "message": e.to_string()}) };
            }
        }
        _ => return json!({"outcome": "not-constructible-through-public-api"}),
    };
    match r { Ok(k) => json!({"outcome": format!("keyid:{}", keyid(&k))}), Err(e) => json!({"outcome": crate::err_name(&e)}) }
}
pub fn run_spki(sc: &Value) -> Value {
    let der = bytes(&sc["der"]);
    let scheme = match sc["template"].as_str().unwrap() { t if t.starts_with("ecdsa") => SignatureScheme::EcdsaP256Sha256, t if t.starts_with("rsa") => SignatureScheme::RsaSsaPssSha256, _ => SignatureScheme::Ed25519 };
    let k = match PublicKey::from_spki(&der, scheme.clone()) { Ok(k) => k, Err(_) => return json!({"outcome": "import_err"}) };
    let out = match k.as_spki() { Ok(o) => o, Err(_) => return json!({"outcome": "export_err"}) };
    if out == der { return json!({"outcome": "roundtrip_equal"}); }
    let re = PublicKey::from_spki(&out, scheme).is_ok();
    json!({"outcome": if re { "export_differs" } else { "export_differs+not_reimportable" }, "exported": out})
}
pub fn run_keytable(sc: &Value) -> Value {
    let repo = std::env::var("VERIF_REPO").unwrap_or_else(|_| "/repo".to_string());
    let mut pub0 = std::fs::read(format!("{}/tests/ed25519/ed25519-1.pub", repo)).unwrap();
    let algs = Some(vec!["sha256".to_string(), "sha512".to_string()]);
    let k0 = PublicKey::from_ed25519_with_keyid_hash_algorithms(pub0.clone(), algs.clone()).unwrap();
    pub0[0] ^= 1;
    let k1 = PublicKey::from_ed25519_with_keyid_hash_algorithms(pub0, algs).unwrap();
    let keys = [k0, k1];
    let mut table = serde_json::Map::new();
    for (i, f) in sc["filed"].as_array().unwrap().iter().enumerate() { table.insert(f.as_str().unwrap().to_string(), serde_json::to_value(&keys[i]).unwrap()); }
    let doc = json!({"_type":"layout","expires":"2100-01-01T00:00:00Z","readme":"","keys":Value::Object(table),"steps":[],"inspect":[]});
    match serde_json::from_str::<MetadataWrapper>(&doc.to_string()) {
        Ok(MetadataWrapper::Layout(l)) => {
            let mut kept: Vec<String> = l.keys.keys().map(|k| serde_json::to_value(k).unwrap().as_str().unwrap().to_string()).collect();
            kept.sort();
            let consistent = l.keys.iter().all(|(id, k)| id == k.key_id());
            json!({"outcome": format!("kept:{}", kept.join(",")), "consistent": consistent})
        }
        Ok(_) => json!({"outcome": "err:not-a-layout"}),
        Err(e) => json!({"outcome": "err", "message": e.to_string()}),
    }
}

/// C12: a key document / a layout document with caller-chosen `keyid` members, decoded from text and from a tree
pub fn run_keyjson(sc: &Value) -> Value {
    use in_toto::models::LayoutMetadata;
    let doc = &sc["doc"];
    let text = doc.to_string();
    let describe_key = |k: &PublicKey| format!("-={}", keyid(k));
    let describe_layout = |l: &LayoutMetadata| { let mut v: Vec<String> = l.keys.iter().map(|(id, k)| format!("{}={}", serde_json::to_value(id).unwrap().as_str().unwrap(), keyid(k))).collect(); v.sort(); v.join(";") };
    let outs: Vec<String> = if sc["type"] == "PublicKey" {
        vec![serde_json::from_str::<PublicKey>(&text).map(|k| describe_key(&k)).unwrap_or_else(|_| "err".into()),
             serde_json::from_value::<PublicKey>(doc.clone()).map(|k| describe_key(&k)).unwrap_or_else(|_| "err".into())]
    } else {
        vec![serde_json::from_str::<LayoutMetadata>(&text).map(|l| describe_layout(&l)).unwrap_or_else(|_| "err".into()),
             serde_json::from_value::<LayoutMetadata>(doc.clone()).map(|l| describe_layout(&l)).unwrap_or_else(|_| "err".into())]
    };
    json!({"outcome": outs.join("/")})
}

/// C12: the RSA public key derived from a PKCS#8 document (through the guarded hook)
pub fn run_rsa_pkcs8(sc: &Value) -> Value {
    let doc = bytes(&sc["doc"]);
    match in_toto::verif_hooks::rsa_public_from_pkcs8(&doc) {
        Ok(out) => json!({"outcome": format!("der:{}", out.iter().map(|b| format!("{:02x}", b)).collect::<String>())}),
        Err(e) => json!({"outcome": "err", "message": e}),
    }
}
