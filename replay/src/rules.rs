//! C03/C14: the artifact rule engine through the guarded hook.
use std::collections::HashMap;
use in_toto::models::inspection::Inspection;
use in_toto::models::step::Step;
use in_toto::models::supply_chain_item::SupplyChainItem;
use in_toto::models::LinkMetadata;
use in_toto::verif_hooks::apply_rules_on_link;
use serde_json::{json, Value};

fn artifacts(v: &Value) -> Value {
    let mut m = serde_json::Map::new();
    for (p, d) in v.as_object().unwrap() {
        let mut dm = serde_json::Map::new();
        for (alg, bs) in d.as_object().unwrap() {
            let hex: String = bs.as_array().unwrap().iter().map(|b| format!("{:02x}", b.as_u64().unwrap() as u8)).collect();
            dm.insert(alg.clone(), json!(hex));
        }
        m.insert(p.clone(), Value::Object(dm));
    }
    Value::Object(m)
}

pub fn run(sc: &Value) -> Value {
    let side = sc["side"].as_str().unwrap();
    let rules = sc["rules"].clone();
    let (em, ep) = if side == "both" { (sc["mrules"].clone(), sc["prules"].clone()) } else if side == "materials" { (rules, json!([])) } else { (json!([]), rules) };
    let item: Box<dyn SupplyChainItem> = if sc["item"] == "step" {
        let v = json!({"_type":"step","name":"it","threshold":1,"expected_materials":em,"expected_products":ep,"pubkeys":[],"expected_command":[]});
        let s: Step = match serde_json::from_str(&v.to_string()) { Ok(s) => s, Err(e) => return json!({"outcome":"unparsable-item","message":e.to_string()}) };
        Box::new(s)
    } else {
        let v = json!({"_type":"inspection","name":"it","expected_materials":em,"expected_products":ep,"run":["true"]});
        let s: Inspection = match serde_json::from_str(&v.to_string()) { Ok(s) => s, Err(e) => return json!({"outcome":"unparsable-item","message":e.to_string()}) };
        Box::new(s)
    };
    let mut links: HashMap<String, LinkMetadata> = HashMap::new();
    for (name, l) in sc["links"].as_object().unwrap() {
        let v = json!({"_type":"link","name":name,"materials":artifacts(&l["materials"]),"products":artifacts(&l["products"]),
                       "byproducts":{"stdout":"","stderr":"","return-value":0},"command":[],"env":null});
        links.insert(name.clone(), serde_json::from_str(&v.to_string()).expect("link parses"));
    }
    for _ in 1..sc["repeat"].as_u64().unwrap_or(1) { let _ = apply_rules_on_link(&item, &links); }
    match apply_rules_on_link(&item, &links) {
        Ok(()) => json!({"outcome":"ok"}),
        Err(e) => json!({"outcome": crate::err_name(&e)}),
    }
}
