//! C14: key importers on input that is not a key.
use in_toto::crypto::{PrivateKey, PublicKey, SignatureScheme};
use serde_json::{json, Value};
pub fn run(sc: &Value) -> Value {
    if sc["which"] == "pem" {
        match PublicKey::from_pem_spki("this is not PEM", SignatureScheme::Ed25519) { Ok(_) => json!({"outcome":"ok"}), Err(e) => json!({"outcome": crate::err_name(&e)}) }
    } else {
        match PrivateKey::from_pkcs8(b"garbage", SignatureScheme::EcdsaP256Sha256) { Ok(_) => json!({"outcome":"ok"}), Err(e) => json!({"outcome": crate::err_name(&e)}) }
    }
}
