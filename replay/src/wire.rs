//! C16/C17/C19: parse one document through every public input channel of serde_json and compare.
use serde::de::DeserializeOwned;
use serde::Serialize;
use serde_json::{json, Value};

fn build(v: &Value) -> Value {
    match v {
        Value::Object(m) if m.contains_key("__obj__") => {
            let mut o = serde_json::Map::new();
            for kv in m["__obj__"].as_array().unwrap() { o.insert(kv[0].as_str().unwrap().to_string(), build(&kv[1])); }
            Value::Object(o)
        }
        Value::Array(a) => Value::Array(a.iter().map(build).collect()),
        other => other.clone(),
    }
}

/// the same document with every string spelled with \uXXXX escapes (so nothing can be borrowed)
fn escaped_text(v: &Value, out: &mut String) {
    match v {
        Value::String(s) => esc(s, out),
        Value::Array(a) => { out.push('['); for (i, x) in a.iter().enumerate() { if i > 0 { out.push(','); } escaped_text(x, out); } out.push(']'); }
        Value::Object(o) => { out.push('{'); for (i, (k, x)) in o.iter().enumerate() { if i > 0 { out.push(','); } esc(k, out); out.push(':'); escaped_text(x, out); } out.push('}'); }
        other => out.push_str(&other.to_string()),
    }
}
fn esc(s: &str, out: &mut String) {
    out.push('"');
    for u in s.encode_utf16() { out.push_str(&format!("\\u{:04x}", u)); }
    if s.is_empty() { }
    out.push('"');
}

/// value-level round trip: rebuild the value from its reference wire form (written by the harness, independent of the
/// crate's serialiser), serialise it with the crate, parse that, compare values and re-serialisation
fn value_roundtrip<T: DeserializeOwned + Serialize + PartialEq>(reference: &Value) -> Option<bool> {
    let t0: T = serde_json::from_value(build(reference)).ok()?;
    let j1 = serde_json::to_value(&t0).ok()?;
    let t1: T = match serde_json::from_str(&j1.to_string()) { Ok(t) => t, Err(_) => return Some(false) };
    Some(t1 == t0 && serde_json::to_value(&t1).ok()? == j1)
}

/// the document as TEXT with the members of every object in the order the scenario lists them (`__obj__` pair lists)
fn ordered_text(raw: &Value, escape: bool, out: &mut String) {
    let s = |x: &str, out: &mut String| if escape { esc(x, out) } else { out.push_str(&Value::String(x.to_string()).to_string()) };
    match raw {
        Value::Object(m) if m.contains_key("__obj__") => {
            out.push('{');
            for (i, kv) in m["__obj__"].as_array().unwrap().iter().enumerate() { if i > 0 { out.push(','); } s(kv[0].as_str().unwrap(), out); out.push(':'); ordered_text(&kv[1], escape, out); }
            out.push('}');
        }
        Value::Array(a) => { out.push('['); for (i, x) in a.iter().enumerate() { if i > 0 { out.push(','); } ordered_text(x, escape, out); } out.push(']'); }
        Value::String(x) => s(x, out),
        other => out.push_str(&other.to_string()),
    }
}

fn channels<T: DeserializeOwned + Serialize + PartialEq>(v: &Value, reference: &Value) -> Value { channels_raw::<T>(v, reference, None) }
fn channels_raw<T: DeserializeOwned + Serialize + PartialEq>(v: &Value, reference: &Value, raw: Option<&Value>) -> Value {
    let mut text = serde_json::to_string(v).unwrap();
    let mut esc_text = String::new();
    escaped_text(v, &mut esc_text);
    let mut pretty = serde_json::to_string_pretty(v).unwrap();
    let mut tree = v.clone();
    if let Some(raw) = raw {
        // member order as written; the tree is what serde_json makes of that very text
        text = String::new(); ordered_text(raw, false, &mut text);
        esc_text = String::new(); ordered_text(raw, true, &mut esc_text);
        pretty = text.clone();
        tree = serde_json::from_str::<Value>(&text).expect("the scenario text is JSON");
    }
    let v = &tree;
    let rs: Vec<Result<T, serde_json::Error>> = vec![
        serde_json::from_str::<T>(&text),
        serde_json::from_str::<T>(&esc_text),
        serde_json::from_reader::<_, T>(text.as_bytes()),
        serde_json::from_value::<T>(v.clone()),
    ];
    let extra: Vec<Result<T, serde_json::Error>> = vec![serde_json::from_slice::<T>(text.as_bytes()), serde_json::from_str::<T>(&pretty)];
    let kinds: Vec<&str> = rs.iter().map(|r| if r.is_ok() { "ok" } else { "err" }).collect();
    let vals: Vec<Value> = rs.iter().filter_map(|r| r.as_ref().ok()).map(|t| serde_json::to_value(t).unwrap()).collect();
    let same = vals.windows(2).all(|w| w[0] == w[1]);
    let value_rt = if reference.is_null() { None } else { value_roundtrip::<T>(reference) };
    let roundtrip = vals.iter().all(|x| x == v) && value_rt.unwrap_or(true);
    let slice_same_as_str = extra[0].is_ok() == rs[0].is_ok() && extra[1].is_ok() == rs[0].is_ok();
    let errs: Vec<String> = rs.iter().filter_map(|r| r.as_ref().err()).map(|e| e.to_string()).collect();
    json!({"outcome": kinds.join("/"), "values_equal": same, "roundtrip_equal": roundtrip, "slice_and_pretty_agree_with_str": slice_same_as_str, "errors": errs, "value_roundtrip": value_rt})
}

pub fn run(sc: &Value) -> Value {
    use in_toto::crypto::{KeyId, KeyType, PublicKey, Signature, HashValue};
    use in_toto::models::*;
    let v = build(&sc["value"]);
    if sc["text_order"] == true {
        let raw = Some(&sc["value"]); let n = Value::Null;
        return match sc["type"].as_str().unwrap() {
            "ArtifactRule" => channels_raw::<rule::ArtifactRule>(&v, &n, raw),
            "Step" => channels_raw::<step::Step>(&v, &n, raw),
            "Inspection" => channels_raw::<inspection::Inspection>(&v, &n, raw),
            "LinkMetadata" => channels_raw::<LinkMetadata>(&v, &n, raw),
            "LayoutMetadata" => channels_raw::<LayoutMetadata>(&v, &n, raw),
            "Metablock" => channels_raw::<Metablock>(&v, &n, raw),
            "PublicKey" => channels_raw::<PublicKey>(&v, &n, raw),
            "Signature" => channels_raw::<Signature>(&v, &n, raw),
            "ByProducts" => channels_raw::<byproducts::ByProducts>(&v, &n, raw),
            "PredicateWrapper" => channels_raw::<PredicateWrapper>(&v, &n, raw),
            "StatementWrapper" => channels_raw::<StatementWrapper>(&v, &n, raw),
            other => json!({"outcome": format!("unsupported-type:{}", other)}),
        };
    }
    match sc["type"].as_str().unwrap() {
        "ArtifactRule" => channels::<rule::ArtifactRule>(&v, &sc["ref_value"]),
        "Step" => channels::<step::Step>(&v, &sc["ref_value"]),
        "Inspection" => channels::<inspection::Inspection>(&v, &sc["ref_value"]),
        "LinkMetadata" => channels::<LinkMetadata>(&v, &sc["ref_value"]),
        "LayoutMetadata" => channels::<LayoutMetadata>(&v, &sc["ref_value"]),
        "Metablock" => channels::<Metablock>(&v, &sc["ref_value"]),
        "MetadataWrapper" => channels::<MetadataWrapper>(&v, &sc["ref_value"]),
        "PublicKey" => channels::<PublicKey>(&v, &sc["ref_value"]),
        "Signature" => channels::<Signature>(&v, &sc["ref_value"]),
        "KeyId" => channels::<KeyId>(&v, &sc["ref_value"]),
        "KeyType" => channels::<KeyType>(&v, &sc["ref_value"]),
        "HashValue" => channels::<HashValue>(&v, &sc["ref_value"]),
        "VirtualTargetPath" => channels::<VirtualTargetPath>(&v, &sc["ref_value"]),
        "Command" => channels::<step::Command>(&v, &sc["ref_value"]),
        "ByProducts" => channels::<byproducts::ByProducts>(&v, &sc["ref_value"]),
        "PredicateWrapper" => channels::<PredicateWrapper>(&v, &sc["ref_value"]),
        "StatementWrapper" => channels::<StatementWrapper>(&v, &sc["ref_value"]),
        other => json!({"outcome": format!("unsupported-type:{}", other)}),
    }
}

/// C17: the crate's own entry points on one document, optionally followed by non-whitespace bytes
pub fn run_entry_points(sc: &Value) -> Value {
    use in_toto::interchange::{DataInterchange, Json};
    use in_toto::models::Metablock;
    let doc = build(&sc["doc"]);
    let mut text = doc.to_string();
    if sc["text_order"] == true { text = String::new(); ordered_text(&sc["doc"], false, &mut text); }
    let trailing = sc["trailing"] == true;
    if trailing { text.push_str(" {\"x\":1}"); }
    let mut outs: Vec<&str> = Vec::new();
    outs.push(if Json::from_reader::<_, Metablock>(text.as_bytes()).is_ok() { "ok" } else { "err" });
    outs.push(if Json::from_slice::<Metablock>(text.as_bytes()).is_ok() { "ok" } else { "err" });
    if !trailing && sc["text_order"] != true { outs.push(if Json::deserialize::<Metablock>(&doc).is_ok() { "ok" } else { "err" }); }
    json!({"outcome": outs.join("/")})
}

/// C17: MetadataWrapper::try_from_bytes on several white-space spellings of one document
pub fn run_text_whitespace(sc: &Value) -> Value {
    use in_toto::models::MetadataWrapper;
    let mut kinds: Vec<&str> = Vec::new();
    let mut vals: Vec<Value> = Vec::new();
    for t in sc["texts"].as_array().unwrap() {
        match MetadataWrapper::try_from_bytes(t.as_str().unwrap().as_bytes()) {
            Ok(m) => { kinds.push("ok"); vals.push(serde_json::to_value(&m).unwrap()); }
            Err(_) => kinds.push("err"),
        }
    }
    json!({"outcome": kinds.join("/"), "values_equal": vals.windows(2).all(|w| w[0] == w[1])})
}

/// C16: both writers on a link with two-algorithm digest tables, many times (each HashMap instance has its own random order)
pub fn run_writers_deterministic(_sc: &Value) -> Value {
    use in_toto::interchange::{DataInterchange, Json, JsonPretty};
    use in_toto::models::LinkMetadata;
    let doc = json!({"_type":"link","name":"s0","materials":{},"products":{"a":{"sha256":"01","sha512":"02"},"b":{"sha256":"03","sha512":"04"}},
                     "environment":{"K":"V","L":"W"},"byproducts":{"return-value":0,"stdout":"o","stderr":"e"},"command":["x"]});
    let mut seen_p: Vec<Vec<u8>> = Vec::new(); let mut seen_c: Vec<Vec<u8>> = Vec::new();
    for _ in 0..64 {
        let link: LinkMetadata = serde_json::from_value(doc.clone()).expect("link parses");
        let mut p = Vec::new(); JsonPretty::to_writer(&mut p, &link).expect("pretty");
        let mut c = Vec::new(); Json::to_writer(&mut c, &link).expect("canonical");
        if !seen_p.contains(&p) { seen_p.push(p); }
        if !seen_c.contains(&c) { seen_c.push(c); }
    }
    json!({"outcome": if seen_p.len() == 1 && seen_c.len() == 1 { "stable" } else { "differs" }})
}
