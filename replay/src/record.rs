//! C18: record_artifacts on a real temporary directory mirroring the ghost file system.
use in_toto::runlib::record_artifacts;
use serde_json::{json, Value};
use ring::digest;

pub fn run(sc: &Value) -> Value {
    let root = std::env::temp_dir().join(format!("verif-record-{}-{}", std::process::id(), chrono::Utc::now().timestamp_nanos_opt().unwrap_or(0)));
    std::fs::create_dir_all(&root).unwrap();
    let mut contents: Vec<(String, Vec<u8>)> = Vec::new();
    for (p, c) in sc["fs"].as_object().unwrap() {
        let full = root.join(p);
        std::fs::create_dir_all(full.parent().unwrap()).unwrap();
        let bytes: Vec<u8> = c.as_array().unwrap().iter().map(|x| x.as_u64().unwrap() as u8).collect();
        std::fs::write(&full, &bytes).unwrap();
        contents.push((p.clone(), bytes));
    }
    // symbolic links (target text as given: absolute targets are made absolute under the temporary root)
    if let Some(links) = sc["links"].as_object() {
        for (p, t) in links {
            let full = root.join(p);
            std::fs::create_dir_all(full.parent().unwrap()).unwrap();
            let t = t.as_str().unwrap();
            let target = if let Some(rest) = t.strip_prefix("@ROOT/") { root.join(rest).to_str().unwrap().to_string() } else { t.to_string() };
            std::os::unix::fs::symlink(&target, &full).unwrap();
        }
    }
    let old = std::env::current_dir().ok();
    std::env::set_current_dir(&root).unwrap();
    let strs = |v: &Value| -> Vec<String> { v.as_array().unwrap().iter().map(|x| x.as_str().unwrap().to_string()).collect() };
    let paths = strs(&sc["paths"]);
    let paths_ref: Vec<&str> = paths.iter().map(|s| s.as_str()).collect();
    let algs = if sc["algs"].is_null() { None } else { Some(strs(&sc["algs"])) };
    let algs_ref: Option<Vec<&str>> = algs.as_ref().map(|v| v.iter().map(|s| s.as_str()).collect());
    let strips = if sc["strips"].is_null() { None } else { Some(strs(&sc["strips"])) };
    let strips_ref: Option<Vec<&str>> = strips.as_ref().map(|v| v.iter().map(|s| s.as_str()).collect());
    let r = record_artifacts(&paths_ref, algs_ref.as_deref(), strips_ref.as_deref());
    if let Some(o) = old { let _ = std::env::set_current_dir(o); }
    let out = match r {
        Err(_) => json!({"outcome": "err"}),
        Ok(map) => {
            let v = serde_json::to_value(&map).unwrap();
            let mut keys: Vec<String> = v.as_object().unwrap().keys().cloned().collect();
            keys.sort();
            // every sha256 recorded must be the digest of some file's content
            let mut digests_ok = true;
            for (_k, d) in v.as_object().unwrap() {
                if let Some(h) = d.get("sha256").and_then(|x| x.as_str()) {
                    let found = contents.iter().any(|(_, c)| {
                        let dg: String = digest::digest(&digest::SHA256, c).as_ref().iter().map(|b| format!("{:02x}", b)).collect();
                        dg == h
                    });
                    digests_ok = digests_ok && found;
                }
            }
            let digests: serde_json::Map<String, Value> = v.as_object().unwrap().iter().map(|(k, d)| (k.clone(), d.get("sha256").cloned().unwrap_or(Value::Null))).collect();
            json!({"outcome": format!("keys:{}", keys.join(",")), "digests_ok": digests_ok, "sha256": digests})
        }
    };
    let _ = std::fs::remove_dir_all(&root);
    out
}

/// C18: apply_left_strip through record_artifacts: one file named `path` (letters only) recorded with the given strip prefixes
pub fn run_left_strip(sc: &Value) -> Value {
    let to_s = |v: &Value| -> Option<String> { String::from_utf8(v.as_array()?.iter().map(|x| x.as_u64().unwrap() as u8).collect()).ok() };
    let path = match to_s(&sc["path"]) { Some(p) if !p.is_empty() && p.bytes().all(|b| b.is_ascii_lowercase()) => p, _ => return json!({"outcome": "not-replayable-on-a-file-system"}) };
    let root = std::env::temp_dir().join(format!("verif-strip-{}-{}", std::process::id(), chrono::Utc::now().timestamp_nanos_opt().unwrap_or(0)));
    std::fs::create_dir_all(&root).unwrap();
    std::fs::write(root.join(&path), b"x").unwrap();
    let old = std::env::current_dir().ok();
    std::env::set_current_dir(&root).unwrap();
    let prefixes: Option<Vec<String>> = if sc["prefixes"].is_null() { None } else { Some(sc["prefixes"].as_array().unwrap().iter().map(|q| to_s(q).unwrap_or_default()).collect()) };
    let pre_ref: Option<Vec<&str>> = prefixes.as_ref().map(|v| v.iter().map(|s| s.as_str()).collect());
    let r = record_artifacts(&[path.as_str()], None, pre_ref.as_deref());
    if let Some(o) = old { let _ = std::env::set_current_dir(o); }
    let _ = std::fs::remove_dir_all(&root);
    match r {
        Err(_) => json!({"outcome": "err"}),
        Ok(map) => { let v = serde_json::to_value(&map).unwrap(); let k: Vec<String> = v.as_object().unwrap().keys().cloned().collect(); json!({"outcome": format!("str:{}", k.join(","))}) }
    }
}

/// C18: in_toto_run on a real temporary directory; the command rewrites / deletes / creates files and (keep_mtime) restores
/// the modification time each surviving file had before
pub fn run_fs(sc: &Value) -> Value {
    use in_toto::runlib::in_toto_run;
    let root = std::env::temp_dir().join(format!("verif-runfs-{}-{}", std::process::id(), chrono::Utc::now().timestamp_nanos_opt().unwrap_or(0)));
    std::fs::create_dir_all(&root).unwrap();
    let bytes_of = |c: &Value| -> Vec<u8> { c.as_array().unwrap().iter().map(|x| x.as_u64().unwrap() as u8).collect() };
    let oct = |b: &[u8]| -> String { b.iter().map(|x| format!("\\{:03o}", x)).collect() };
    let pre: Vec<(String, Vec<u8>)> = sc["pre"].as_object().unwrap().iter().map(|(p, c)| (p.clone(), bytes_of(c))).collect();
    let post: Vec<(String, Vec<u8>)> = sc["post"].as_object().unwrap().iter().map(|(p, c)| (p.clone(), bytes_of(c))).collect();
    for (p, c) in &pre { let full = root.join(p); std::fs::create_dir_all(full.parent().unwrap()).unwrap(); std::fs::write(&full, c).unwrap(); }
    // the command: a shell script that brings the tree from `pre` to `post`
    let mut script = String::new();
    for (p, c) in &post {
        let before = pre.iter().find(|(q, _)| q == p);
        if before.map(|(_, b)| b == c).unwrap_or(false) { continue; }
        if before.is_some() && sc["keep_mtime"] == true { script.push_str(&format!("touch -r '{}' .stamp; ", p)); }
        script.push_str(&format!("printf '{}' > '{}'; ", oct(c), p));
        if before.is_some() && sc["keep_mtime"] == true { script.push_str(&format!("touch -r .stamp '{}'; rm -f .stamp; ", p)); }
    }
    for (p, _) in &pre { if !post.iter().any(|(q, _)| q == p) { script.push_str(&format!("rm -f '{}'; ", p)); } }
    if script.is_empty() { script.push_str("true"); }
    let old = std::env::current_dir().ok();
    std::env::set_current_dir(&root).unwrap();
    let r = in_toto_run("step", None, &["d"], &["d"], &["sh", "-c", &script], None, None, None);
    if let Some(o) = old { let _ = std::env::set_current_dir(o); }
    let out = match r {
        Err(e) => json!({"outcome": "err", "error": e.to_string()}),
        Ok(mb) => {
            let v = serde_json::to_value(&mb).unwrap();
            let sha = |c: &[u8]| -> String { digest::digest(&digest::SHA256, c).as_ref().iter().map(|b| format!("{:02x}", b)).collect() };
            let agrees = |field: &str, want: &Vec<(String, Vec<u8>)>| -> bool {
                let got = v["signed"][field].as_object().cloned().unwrap_or_default();
                got.len() == want.len() && want.iter().all(|(p, c)| got.get(p).and_then(|d| d.get("sha256")).and_then(|x| x.as_str()) == Some(sha(c).as_str()))
            };
            json!({"outcome": "ok", "materials_ok": agrees("materials", &pre), "products_ok": agrees("products", &post), "script": script})
        }
    };
    let _ = std::fs::remove_dir_all(&root);
    out
}
