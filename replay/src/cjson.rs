//! C10/C05/C11: canonical JSON of a value / signed bytes of metadata through the public API.
use in_toto::interchange::{DataInterchange, Json};
use serde_json::{json, Value};

/// scenario values use {"__obj__": [[key, value], ...]} for objects so that member order survives
fn build(v: &Value) -> Value {
    match v {
        Value::Object(m) if m.contains_key("__float__") => serde_json::from_str::<Value>(m["__float__"].as_str().unwrap()).expect("float text"),
        Value::Object(m) if m.contains_key("__obj__") => {
            let mut o = serde_json::Map::new();
            for kv in m["__obj__"].as_array().unwrap() { o.insert(kv[0].as_str().unwrap().to_string(), build(&kv[1])); }
            Value::Object(o)
        }
        Value::Array(a) => Value::Array(a.iter().map(build).collect()),
        other => other.clone(),
    }
}
fn hex(b: &[u8]) -> String { b.iter().map(|x| format!("{:02x}", x)).collect() }

pub fn run(sc: &Value) -> Value {
    let v = build(&sc["value"]);
    match Json::canonicalize(&v) {
        Ok(bytes) => json!({"outcome": format!("bytes:{}", hex(&bytes))}),
        Err(_) => json!({"outcome": "err"}),
    }
}
