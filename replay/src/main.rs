//! Native replay: runs scenarios produced by the symbolic harnesses against the REAL crate
//! (real ring signatures, real files) and prints one JSON result per scenario.
use std::collections::HashMap;
use std::panic::{catch_unwind, AssertUnwindSafe};

use in_toto::crypto::{KeyId, PrivateKey, PublicKey, SignatureScheme};
use in_toto::models::{LinkMetadataBuilder, Metablock, MetadataWrapper, VirtualTargetPath};
use serde_json::{json, Value};

mod keys;
mod c04;
mod verify;
mod datetime;
mod pae;
mod rules;
mod cjson;
mod signed;
mod importers;
mod wire;
mod statement;
mod record;
mod keyspki;

pub fn err_name(e: &in_toto::Error) -> String {
    let d = format!("{:?}", e);
    let name: String = d.chars().take_while(|c| c.is_alphanumeric() || *c == '_').collect();
    format!("err:{}", name)
}

pub fn guarded<F: FnOnce() -> Value>(f: F) -> Value {
    match catch_unwind(AssertUnwindSafe(f)) {
        Ok(v) => v,
        Err(p) => {
            let msg = if let Some(s) = p.downcast_ref::<String>() {
                s.clone()
            } else if let Some(s) = p.downcast_ref::<&str>() {
                s.to_string()
            } else {
                "?".to_string()
            };
            json!({"outcome": "panic", "message": msg})
        }
    }
}

pub fn guarded_result<T, F: FnOnce() -> T>(f: F) -> Result<T, String> {
    match catch_unwind(AssertUnwindSafe(f)) {
        Ok(v) => Ok(v),
        Err(p) => Err(if let Some(s) = p.downcast_ref::<String>() { s.clone() } else if let Some(s) = p.downcast_ref::<&str>() { s.to_string() } else { "?".to_string() }),
    }
}

fn main() {
    let args: Vec<String> = std::env::args().collect();
    if args.len() < 2 {
        eprintln!("usage: intoto-replay <scenarios.json>");
        std::process::exit(2);
    }
    std::panic::set_hook(Box::new(|_| {}));
    let text = std::fs::read_to_string(&args[1]).expect("read scenarios");
    let scenarios: Vec<Value> = serde_json::from_str(&text).expect("parse scenarios");
    let pool = keys::Pool::load();
    let mut out = Vec::new();
    for sc in &scenarios {
        let kind = sc["kind"].as_str().unwrap_or("");
        let r = guarded(|| match kind {
            "metablock_verify" => c04::run(&pool, sc),
            "genuine_signature" => c04::run_genuine(sc),
            "verify" => verify::run(&pool, sc),
            "verify_sequence" => verify::run_sequence(&pool, sc),
            "expiry_via" => verify::run_expiry_via(&pool, sc),
            "parse_datetime" => datetime::run(sc),
            "pae" => pae::run(sc),
            "rules" => rules::run(sc),
            "cjson" => cjson::run(sc),
            "signed_bytes" => signed::run(sc),
            "importers" => importers::run(sc),
            "wire" => wire::run(sc),
            "entry_points" => wire::run_entry_points(sc),
            "writers_deterministic" => wire::run_writers_deterministic(sc),
            "text_whitespace" => wire::run_text_whitespace(sc),
            "statement" => statement::run(sc),
            "statement_doc" => statement::run_doc(sc),
            "record" => record::run(sc),
            "run_fs" => record::run_fs(sc),
            "left_strip" => record::run_left_strip(sc),
            "keyid" => keyspki::run_keyid(sc),
            "spki" => keyspki::run_spki(sc),
            "keytable" => keyspki::run_keytable(sc),
            "keyjson" => keyspki::run_keyjson(sc),
            "rsa_pkcs8" => keyspki::run_rsa_pkcs8(sc),
            _ => json!({"outcome": "unsupported-kind"}),
        });
        out.push(r);
    }
    println!("{}", serde_json::to_string(&out).unwrap());
}

#[allow(dead_code)]
fn _unused(_: HashMap<KeyId, PublicKey>, _: PrivateKey, _: SignatureScheme, _: LinkMetadataBuilder, _: Metablock, _: MetadataWrapper, _: VirtualTargetPath) {}
