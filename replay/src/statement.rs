//! C19: statement documents through the public parser.
use in_toto::models::{PredicateWrapper, StatementWrapper};
use serde_json::{json, Value};
fn build(v: &Value) -> Value {
    match v {
        Value::Object(m) if m.contains_key("__obj__") => {
            let mut o = serde_json::Map::new();
            for kv in m["__obj__"].as_array().unwrap() { o.insert(kv[0].as_str().unwrap().to_string(), build(&kv[1])); }
            Value::Object(o)
        }
        Value::Array(a) => Value::Array(a.iter().map(build).collect()),
        other => other.clone(),
    }
}
fn vername(uri: &str) -> &'static str {
    match uri { "https://in-toto.io/Link/v0.2" => "LinkV0_2", "https://slsa.dev/provenance/v0.1" => "SLSAProvenanceV0_1", "https://slsa.dev/provenance/v0.2" => "SLSAProvenanceV0_2", _ => "?" }
}
pub fn run(sc: &Value) -> Value {
    // a statement parsed earlier in this process (state that outlives a call must not matter)
    if !sc["parsed_before"].is_null() { let _ = serde_json::from_str::<StatementWrapper>(&build(&sc["parsed_before"]).to_string()); }
    let doc = build(&sc["doc"]);
    let parsed: Result<StatementWrapper, _> = serde_json::from_str(&doc.to_string());
    match parsed {
        Err(e) => json!({"outcome":"err","message":e.to_string()}),
        Ok(w) => {
            let v = serde_json::to_value(&w).unwrap();
            // the statement document itself (an older, externally tagged serialisation nested it under "V0_1")
            let inner = if v.get("V0_1").is_some() { &v["V0_1"] } else { &v };
            let declared = vername(inner["predicateType"].as_str().unwrap_or(""));
            let actual = match PredicateWrapper::judge_from_value(&inner["predicate"]) { Ok(ver) => vername(&String::from(ver)), Err(_) => "?" };
            json!({"outcome": format!("ok:declared={},actual={}", declared, actual)})
        }
    }
}

/// C19: a statement document through the public parser: which version it is read as, and whether it comes back out unchanged
pub fn run_doc(sc: &Value) -> Value {
    let doc = build(&sc["doc"]);
    match serde_json::from_str::<StatementWrapper>(&doc.to_string()) {
        Err(e) => json!({"outcome":"err","message":e.to_string()}),
        Ok(w) => {
            let variant = match &w { StatementWrapper::Naive(_) => "Naive", StatementWrapper::V0_1(_) => "V0_1" };
            let back = match serde_json::to_value(&w) { Ok(b) => b, Err(_) => return json!({"outcome": format!("ok:{}", variant), "serialises": false, "reserialised_equal": false}) };
            let back = if back.get("V0_1").is_some() { back["V0_1"].clone() } else if back.get("Naive").is_some() { back["Naive"].clone() } else { back };
            json!({"outcome": format!("ok:{}", variant), "serialises": true, "reserialised_equal": back == doc})
        }
    }
}
