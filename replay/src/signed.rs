//! C05/C09/C11: what does the library really sign?  ed25519 is deterministic, so the library's signature
//! equals a direct ring signature over candidate bytes iff the library signed exactly those bytes.
use in_toto::crypto::{PrivateKey, SignatureScheme};
use in_toto::models::{Metablock, MetadataWrapper};
use ring::signature::Ed25519KeyPair;
use serde_json::{json, Value};

fn tree_to_value(t: &Value) -> Value {
    match t {
        Value::Object(m) if m.contains_key("__bytes__") => {
            let b: Vec<u8> = m["__bytes__"].as_array().unwrap().iter().map(|x| x.as_u64().unwrap() as u8).collect();
            Value::String(String::from_utf8(b).expect("scenario strings are UTF-8"))
        }
        Value::Object(m) if m.contains_key("__obj__") => {
            let mut o = serde_json::Map::new();
            for kv in m["__obj__"].as_array().unwrap() {
                let kb: Vec<u8> = kv[0].as_array().unwrap().iter().map(|x| x.as_u64().unwrap() as u8).collect();
                o.insert(String::from_utf8(kb).unwrap(), tree_to_value(&kv[1]));
            }
            Value::Object(o)
        }
        Value::Array(a) => Value::Array(a.iter().map(tree_to_value).collect()),
        other => other.clone(),
    }
}

/// OLPC canonical JSON (reference encoder, independent of the crate): sorted keys, no whitespace,
/// strings escape only `"` and `\`.
fn olpc(v: &Value, out: &mut Vec<u8>) {
    match v {
        Value::Null => out.extend(b"null"),
        Value::Bool(b) => out.extend(if *b { &b"true"[..] } else { &b"false"[..] }),
        Value::Number(n) => out.extend(n.to_string().as_bytes()),
        Value::String(s) => olpc_str(s, out),
        Value::Array(a) => {
            out.push(b'[');
            for (i, x) in a.iter().enumerate() { if i > 0 { out.push(b','); } olpc(x, out); }
            out.push(b']');
        }
        Value::Object(o) => {
            let mut keys: Vec<&String> = o.keys().collect();
            keys.sort_by(|a, b| a.as_bytes().cmp(b.as_bytes()));
            out.push(b'{');
            for (i, k) in keys.iter().enumerate() {
                if i > 0 { out.push(b','); }
                olpc_str(k, out); out.push(b':'); olpc(&o[*k], out);
            }
            out.push(b'}');
        }
    }
}
fn olpc_str(s: &str, out: &mut Vec<u8>) {
    out.push(b'"');
    for b in s.bytes() {
        if b == b'"' || b == b'\\' { out.push(b'\\'); }
        out.push(b);
    }
    out.push(b'"');
}

/// the link of a scenario tree built through the public constructors (builder, `.into()` paths) instead of the parser
fn link_via_api(v: &Value) -> Option<in_toto::models::LinkMetadata> {
    use in_toto::crypto::{HashAlgorithm, HashValue};
    use in_toto::models::{byproducts::ByProducts, LinkMetadataBuilder, TargetDescription, VirtualTargetPath};
    use std::collections::BTreeMap;
    if v["_type"] != "link" { return None; }
    let arts = |x: &Value| -> Option<BTreeMap<VirtualTargetPath, TargetDescription>> {
        let mut m = BTreeMap::new();
        for (p, d) in x.as_object()? {
            let mut td = TargetDescription::new();
            for (alg, hex) in d.as_object()? {
                let a = match alg.as_str() { "sha256" => HashAlgorithm::Sha256, "sha512" => HashAlgorithm::Sha512, _ => return None };
                td.insert(a, HashValue::new(data_encoding::HEXLOWER.decode(hex.as_str()?.as_bytes()).ok()?));
            }
            m.insert(VirtualTargetPath::from(p.as_str()), td);
        }
        Some(m)
    };
    let mut bp = ByProducts::new();
    for (k, x) in v["byproducts"].as_object()? {
        match k.as_str() {
            "return-value" => bp = bp.set_return_value(x.as_i64()? as i32),
            "stdout" => bp = bp.set_stdout(x.as_str()?.to_string()),
            "stderr" => bp = bp.set_stderr(x.as_str()?.to_string()),
            _ => bp = bp.set_other_field(k.clone(), x.as_str()?.to_string()),
        }
    }
    let env: Option<BTreeMap<String, String>> = v["environment"].as_object().map(|o| o.iter().map(|(k, x)| (k.clone(), x.as_str().unwrap_or("").to_string())).collect());
    let cmd: Vec<String> = v["command"].as_array()?.iter().map(|x| x.as_str().unwrap_or("").to_string()).collect();
    LinkMetadataBuilder::new().name(v["name"].as_str()?.to_string()).materials(arts(&v["materials"])?).products(arts(&v["products"])?)
        .env(env).byproducts(bp).command(cmd.into()).build().ok()
}

/// the layout of a scenario tree built through `LayoutMetadata::new` (the key table exactly as given, also when an entry
/// is filed under an identifier that is not the key's own - the parser would drop such an entry)
fn layout_via_api(v: &Value) -> Option<in_toto::models::LayoutMetadata> {
    use in_toto::crypto::{KeyId, PublicKey};
    use in_toto::models::{inspection::Inspection, step::Step, LayoutMetadata};
    use std::collections::HashMap;
    use std::str::FromStr;
    if v["_type"] != "layout" { return None; }
    let steps: Vec<Step> = serde_json::from_value(v["steps"].clone()).ok()?;
    let inspect: Vec<Inspection> = serde_json::from_value(v["inspect"].clone()).ok()?;
    let mut keys: HashMap<KeyId, PublicKey> = HashMap::new();
    for (id, doc) in v["keys"].as_object()? { keys.insert(KeyId::from_str(id).ok()?, serde_json::from_value(doc.clone()).ok()?); }
    let expires = chrono::DateTime::parse_from_rfc3339(v["expires"].as_str()?).ok()?.with_timezone(&chrono::Utc);
    Some(LayoutMetadata::new(expires, v["readme"].as_str()?.to_string(), keys, steps, inspect))
}

/// sign through the library, write JSON (compact and pretty), read back, verify with threshold 1
fn wire_trip_verifies(meta: MetadataWrapper, key: &PrivateKey) -> bool {
    let mb = match Metablock::new(meta, &[key]) { Ok(m) => m, Err(_) => return false };
    let texts = [serde_json::to_string(&mb), serde_json::to_string_pretty(&mb)];
    texts.iter().all(|t| match t {
        Ok(t) => serde_json::from_str::<Metablock>(t).map(|back| back.verify(1, [key.public()]).is_ok()).unwrap_or(false),
        Err(_) => false,
    })
}

pub fn run(sc: &Value) -> Value {
    let repo = std::env::var("VERIF_REPO").unwrap_or_else(|_| "/repo".to_string());
    let der = std::fs::read(format!("{}/tests/ed25519/ed25519-1.pk8.der", repo)).expect("key");
    let key = PrivateKey::from_pkcs8(&der, SignatureScheme::Ed25519).expect("parse key");
    let ringkey = Ed25519KeyPair::from_pkcs8_maybe_unchecked(&der).expect("ring key");
    let v = tree_to_value(&sc["tree"]);
    let meta: MetadataWrapper = match serde_json::from_str(&v.to_string()) { Ok(m) => m, Err(e) => return json!({"outcome":"unparsable-metadata","message":e.to_string()}) };
    // the parsed metadata must be the scenario's metadata (nothing dropped or altered by parsing)
    let reser = serde_json::to_value(&meta).unwrap();
    let parse_altered = reser != v;
    // wire-trip scenarios: the value built through the constructors when that is possible (link), else the parsed value
    let meta = if sc["wire_trip"] == true || sc["via_api"] == true {
        link_via_api(&v).map(MetadataWrapper::Link).or_else(|| if sc["via_api"] == true || sc["wire_trip"] == true { layout_via_api(&v).map(MetadataWrapper::Layout) } else { None }).unwrap_or(meta)
    } else { meta };
    let wire_ok: Option<bool> = if sc["wire_trip"] == true { Some(wire_trip_verifies(meta.clone(), &key)) } else { None };
    let mb = Metablock::new(meta, &[&key]).expect("sign");
    let lib_sig = serde_json::to_value(&mb).unwrap()["signatures"][0]["sig"].as_str().unwrap().to_string();
    let candidate: Vec<u8> = if sc["compare"] == "olpc" { let mut o = Vec::new(); olpc(&v, &mut o); o }
        else { sc["expect_bytes"].as_array().unwrap().iter().map(|x| x.as_u64().unwrap() as u8).collect() };
    let ref_sig: String = ringkey.sign(&candidate).as_ref().iter().map(|b| format!("{:02x}", b)).collect();
    // and the signature made over the candidate bytes must (not) verify through the library
    // reading the candidate bytes back (after undoing the newline substitution) must give the scenario's metadata
    let mut undone: Vec<u8> = Vec::new();
    for b in &candidate { if *b == b'\n' { undone.extend(b"\\n"); } else { undone.push(*b); } }
    let decoded_equals_tree = serde_json::from_slice::<Value>(&undone).map(|d| d == v).unwrap_or(false);
    json!({"outcome": if ref_sig == lib_sig { "match" } else { "mismatch" }, "candidate": String::from_utf8_lossy(&candidate),
           "parse_altered_metadata": parse_altered, "decoded_equals_tree": decoded_equals_tree, "wire_trip_verifies": wire_ok})
}
