//! C20/C14: DSSE pre-authentication encoding through the guarded hooks.
use in_toto::verif_hooks::{pae_pack, pae_unpack};
use serde_json::{json, Value};

fn bytes(v: &Value) -> Vec<u8> { v.as_array().unwrap().iter().map(|b| b.as_u64().unwrap() as u8).collect() }

pub fn run(sc: &Value) -> Value {
    match sc["mode"].as_str().unwrap() {
        "roundtrip" => {
            let t = String::from_utf8(bytes(&sc["type"])).expect("type is utf8");
            let p = bytes(&sc["payload"]);
            let packed = pae_pack(t.clone(), &p);
            match pae_unpack(&packed) {
                Ok((p2, t2)) => json!({"outcome": if p2 == p && t2 == t { "ok" } else { "ok-different" }, "packed": packed}),
                Err(e) => json!({"outcome": crate::err_name(&e), "packed": packed}),
            }
        }
        "collision" => {
            let a = pae_pack(String::from_utf8(bytes(&sc["type"])).unwrap(), &bytes(&sc["payload"]));
            let b = pae_pack(String::from_utf8(bytes(&sc["type2"])).unwrap(), &bytes(&sc["payload2"]));
            json!({"outcome": if a == b { "collision" } else { "distinct" }})
        }
        _ => {
            let b = bytes(&sc["bytes"]);
            match pae_unpack(&b) {
                Ok((p, t)) => json!({"outcome": "ok", "payload": p, "type": t}),
                Err(e) => json!({"outcome": crate::err_name(&e)}),
            }
        }
    }
}
