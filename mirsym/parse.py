#!/usr/bin/env python3
"""Spike: parse rustc -Zunpretty=mir text into a simple AST; report unparsed lines."""
import re, sys, collections

class ParseError(Exception): pass

def split_top(s, sep=','):
    """split on sep at nesting depth 0 of ()[]{}<> and outside string literals"""
    out=[]; depth=0; cur=[]; i=0; n=len(s)
    instr=False
    while i<n:
        c=s[i]
        if instr:
            cur.append(c)
            if c=='\\': cur.append(s[i+1]); i+=1
            elif c=='"': instr=False
        else:
            if c=='"': instr=True; cur.append(c)
            elif c in '([{<': depth+=1; cur.append(c)
            elif c in ')]}': depth-=1; cur.append(c)
            elif c=='>':
                if i>0 and s[i-1] in '-=': cur.append(c)   # -> or =>
                else: depth-=1; cur.append(c)
            elif c==sep and depth==0:
                out.append(''.join(cur).strip()); cur=[]
            else: cur.append(c)
        i+=1
    t=''.join(cur).strip()
    if t: out.append(t)
    return out

def find_matching(s, i):
    """s[i] is an opening bracket; return index of its match (string aware)"""
    pairs={'(':')','[':']','{':'}','<':'>'}
    depth=0; instr=False; n=len(s); j=i
    while j<n:
        c=s[j]
        if instr:
            if c=='\\': j+=1
            elif c=='"': instr=False
        else:
            if c=='"': instr=True
            elif c in '([{<': depth+=1
            elif c in ')]}': 
                depth-=1
                if depth==0: return j
            elif c=='>' and not (j>0 and s[j-1] in '-='):
                depth-=1
                if depth==0: return j
        j+=1
    raise ParseError('unbalanced: '+s[i:i+60])

# ---------- places ----------
def parse_place(s):
    s=s.strip()
    # returns ('local',n) with projections list
    if s.startswith('(') and s.endswith(')') and find_matching(s,0)==len(s)-1:
        inner=s[1:-1].strip()
        if inner.startswith('*'):
            return ('deref', parse_place(inner[1:]))
        # "X as Variant"  or  "X.N: Type"
        m=re.match(r'^(.*) as ([A-Za-z_][A-Za-z0-9_]*)$', inner)
        if m and ':' not in split_top_colon_tail(inner):
            return ('downcast', parse_place(m.group(1)), m.group(2))
        # field with type: find last top-level ': ' 
        idx=top_level_colon(inner)
        if idx<0: raise ParseError('place paren: '+s)
        left=inner[:idx]; ty=inner[idx+1:].strip()
        m=re.match(r'^(.*)\.(\d+)$', left.strip())
        if not m: raise ParseError('place field: '+s)
        return ('field', parse_place(m.group(1)), int(m.group(2)), ty)
    m=re.match(r'^_(\d+)$', s)
    if m: return ('local', int(m.group(1)))
    if s.startswith('*'):
        return ('deref', parse_place(s[1:]))
    # index: base[_N] or base[N of M]
    if s.endswith(']'):
        # find matching [
        depth=0
        for j in range(len(s)-1,-1,-1):
            if s[j]==']': depth+=1
            elif s[j]=='[':
                depth-=1
                if depth==0: break
        base=s[:j]; idx=s[j+1:-1]
        return ('index', parse_place(base), idx)
    raise ParseError('place: '+s)

def split_top_colon_tail(s):
    i=top_level_colon(s)
    return s[i:] if i>=0 else ''

def top_level_colon(s):
    depth=0; instr=False; last=-1
    for i,c in enumerate(s):
        if instr:
            if c=='"' and s[i-1]!='\\': instr=False
            continue
        if c=='"': instr=True
        elif c in '([{<': depth+=1
        elif c in ')]}': depth-=1
        elif c=='>' and not (i>0 and s[i-1] in '-='): depth-=1
        elif c==':' and depth==0:
            if i+1<len(s) and s[i+1]==':': continue
            if i>0 and s[i-1]==':': continue
            last=i
    return last

# ---------- operands ----------
def parse_operand(s):
    s=s.strip()
    for kw in ('move ','copy ','no_retag copy ','no_retag move '):
        if s.startswith(kw):
            return (kw.strip().split()[-1], parse_place(s[len(kw):]))
    if s.startswith('const '):
        return ('const', s[6:].strip())
    if re.match(r'^[A-Za-z_<]', s):
        return ('fnitem', s)
    raise ParseError('operand: '+s)

BINOPS={'Add','Sub','Mul','Div','Rem','BitXor','BitAnd','BitOr','Shl','Shr','Eq','Lt','Le','Ne','Ge','Gt','Offset','Cmp',
        'AddWithOverflow','SubWithOverflow','MulWithOverflow','AddUnchecked','SubUnchecked','MulUnchecked','ShlUnchecked','ShrUnchecked'}
UNOPS={'Not','Neg','PtrMetadata'}

def parse_rvalue(s):
    s=s.strip()
    if s.startswith('&raw const ') : return ('rawref','const',parse_place(s[11:]))
    if s.startswith('&raw mut ') : return ('rawref','mut',parse_place(s[9:]))
    if s.startswith('&mut '): return ('ref','mut',parse_place(s[5:]))
    if s.startswith('&fake '): return ('ref','fake',parse_place(s[s.index(' ',6)+1:] if s.startswith('&fake shallow ') else s[6:]))
    if s.startswith('&'): return ('ref','shared',parse_place(s[1:]))
    if s.startswith(('move ','copy ','no_retag ')):
        # maybe cast: "move _x as T (Kind)"
        m=re.match(r'^((?:no_retag )?(?:move|copy) .*?) as (.*) \(([A-Za-z_\(\), ]+)\)$', s)
        if m:
            try:
                return ('cast', parse_operand(m.group(1)), m.group(2), m.group(3))
            except ParseError: pass
        return ('use', parse_operand(s))
    if s.startswith('const '):
        m=re.match(r'^(const .*?) as (.*) \(([A-Za-z_\(\), ]+)\)$', s)
        if m and not s.startswith('const "'):
            return ('cast', parse_operand(m.group(1)), m.group(2), m.group(3))
        return ('use', ('const', s[6:].strip()))
    m=re.match(r'^discriminant\((.*)\)$', s)
    if m: return ('discriminant', parse_place(m.group(1)))
    m=re.match(r'^(Len|PtrMetadata)\((.*)\)$', s)
    if m: return (m.group(1).lower(), parse_place(m.group(2)) if m.group(1)=='Len' else parse_operand(m.group(2)))
    m=re.match(r'^([A-Za-z]+)\((.*)\)$', s)
    if m and m.group(1) in BINOPS:
        a=split_top(m.group(2))
        if len(a)==2: return ('binop', m.group(1), parse_operand(a[0]), parse_operand(a[1]))
    if m and m.group(1) in UNOPS:
        return ('unop', m.group(1), parse_operand(m.group(2)))
    # tuple
    if s.startswith('(') and find_matching(s,0)==len(s)-1:
        inner=s[1:-1].strip()
        items=split_top(inner)
        return ('tuple',[parse_operand(x) for x in items])
    # array
    if s.startswith('[') and find_matching(s,0)==len(s)-1:
        inner=s[1:-1]
        parts=split_top(inner,';')
        if len(parts)==2: return ('repeat', parse_operand(parts[0]), parts[1])
        return ('array',[parse_operand(x) for x in split_top(inner)])
    # closure / struct aggregate with named fields:  Path { a: move _1, b: copy _2 }
    if s.endswith('}'):
        j=s.rfind('{', 0, len(s))
        # find the opening brace matching last }
        depth=0
        for k in range(len(s)-1,-1,-1):
            if s[k]=='}': depth+=1
            elif s[k]=='{':
                depth-=1
                if depth==0: break
        head=s[:k].strip(); body=s[k+1:-1].strip()
        fields=[]
        for f in split_top(body):
            i=top_level_colon_first(f)
            fields.append((f[:i].strip(), parse_operand(f[i+1:])))
        return ('agg_named', head, fields)
    # enum/tuple-struct aggregate: Path(args) or Path::<T>::Variant(args) or unit variant Path
    if s.endswith(')'):
        # find matching (
        depth=0
        for k in range(len(s)-1,-1,-1):
            if s[k]==')': depth+=1
            elif s[k]=='(':
                depth-=1
                if depth==0: break
        head=s[:k].strip(); body=s[k+1:-1]
        return ('agg_tuple', head, [parse_operand(x) for x in split_top(body)])
    if re.match(r'^[A-Za-z_<\{][^ ]*(::[^ ]+)*$', s) or re.match(r'^[A-Za-z_<].*', s):
        return ('agg_unit', s)
    raise ParseError('rvalue: '+s)

def top_level_colon_first(s):
    depth=0
    for i,c in enumerate(s):
        if c in '([{<': depth+=1
        elif c in ')]}': depth-=1
        elif c=='>' and not (i>0 and s[i-1] in '-='): depth-=1
        elif c==':' and depth==0 and not (i+1<len(s) and s[i+1]==':') and not (i>0 and s[i-1]==':'):
            return i
    raise ParseError('no colon: '+s)

# ---------- statements / terminators ----------
def parse_targets(s):
    # "[return: bb1, unwind continue]" / "[0: bb4, otherwise: bb2]" / "[success: bb1, unwind: bb2]"
    s=s.strip()
    assert s[0]=='[' and s[-1]==']', s
    d={}
    for part in split_top(s[1:-1]):
        if ':' in part:
            k,v=part.split(':',1); d[k.strip()]=v.strip()
        else:
            k=part.split()[0]; d[k]=' '.join(part.split()[1:])
    return d

def parse_stmt(line):
    s=line.strip()
    if s.endswith(';'): s=s[:-1]
    if s in ('return','unreachable','resume','nop') : return (s,)
    if s.startswith('unwind terminate') or s.startswith('terminate('): return ('terminate',)
    m=re.match(r'^goto -> (bb\d+)$', s)
    if m: return ('goto', m.group(1))
    m=re.match(r'^switchInt\((.*)\) -> (\[.*\])$', s)
    if m: return ('switch', parse_operand(m.group(1)), parse_targets(m.group(2)))
    m=re.match(r'^drop\((.*)\) -> (\[.*\])$', s)
    if m: return ('drop', parse_place(m.group(1)), parse_targets(m.group(2)))
    if s.startswith('assert('):
        j=find_matching(s,6)
        inner=s[7:j]; rest=s[j+1:].strip()
        assert rest.startswith('->'), s
        args=split_top(inner)
        cond=args[0]; neg=False
        if cond.startswith('!'): neg=True; cond=cond[1:]
        return ('assert', neg, parse_operand(cond), args[1:], parse_targets(rest[2:]))
    for kw in ('StorageLive','StorageDead','PlaceMention','FakeRead','Retag','AscribeUserType','Coverage','ConstEvalCounter','BackwardIncompatibleDropHint'):
        if s.startswith(kw+'(') or s==kw: return ('noop',kw)
    m=re.match(r'^discriminant\((.*)\) = (\d+)$', s)
    if m: return ('setdisc', parse_place(m.group(1)), int(m.group(2)))
    if s.startswith('Deinit('): return ('noop','Deinit')
    if s.startswith('assume('): return ('assume', parse_operand(s[7:-1]))
    if s.startswith('copy_nonoverlapping('): return ('intrinsic', s)
    # assignment:  PLACE = RVALUE   or  PLACE = CALL -> [targets]
    i=find_assign(s)
    if i<0: raise ParseError('stmt: '+s)
    lhs=parse_place(s[:i]); rhs=s[i+3:].strip()
    m=re.search(r' -> (\[[^\[\]]*\]|unwind [a-z\(\)]+)$', rhs)
    if m and rhs[:m.start()].rstrip().endswith(')'):
        callpart=rhs[:m.start()].rstrip()
        # function operand + args: find the last top-level '(' group
        depth=0; instr=False
        for k in range(len(callpart)-1,-1,-1):
            c=callpart[k]
            if c==')': depth+=1
            elif c=='(':
                depth-=1
                if depth==0: break
        func=callpart[:k].strip(); args=callpart[k+1:-1]
        tg=parse_targets(m.group(1)) if m.group(1).startswith('[') else {}
        return ('call', lhs, func, [parse_operand(a) for a in split_top(args)], tg)
    return ('assign', lhs, parse_rvalue(rhs))

def find_assign(s):
    depth=0; instr=False
    for i,c in enumerate(s):
        if instr:
            if c=='"' and s[i-1]!='\\': instr=False
            continue
        if c=='"': instr=True
        elif c in '([{<': depth+=1
        elif c in ')]}': depth-=1
        elif c=='>' and not (i>0 and s[i-1] in '-='): depth-=1
        elif depth==0 and s[i:i+3]==' = ': return i
    return -1

# ---------- file level ----------
HDR_RE=re.compile(r'^fn (.*?)\((.*)\) -> (.*) \{$')

def _split_header(line):
    """fn NAME(PARAMS) -> RET {   ; NAME may contain '(' inside <impl at ...> never, but generics may."""
    assert line.startswith('fn ')
    # find the '(' that opens the parameter list: first '(' at depth 0 of <> after 'fn '
    depth=0; i=3; n=len(line)
    while i<n:
        c=line[i]
        if c=='<': depth+=1
        elif c=='>' and line[i-1] not in '-=': depth-=1
        elif c=='(' and depth==0: break
        i+=1
    name=line[3:i]
    j=find_matching(line,i)
    params=line[i+1:j]
    rest=line[j+1:].strip()
    ret=rest[2:-1].strip() if rest.startswith('->') else '()'
    plist=[]
    for p in split_top(params):
        k=top_level_colon_first(p)
        plist.append((p[:k].strip(), p[k+1:].strip()))
    return name, plist, ret

def _const_name(line):
    s=re.sub(r'^(const|static) (mut )?','',line)
    depth=0
    for i,c in enumerate(s):
        if c=='<': depth+=1
        elif c=='>' and s[i-1] not in '-=': depth-=1
        elif c==':' and depth==0 and s[i:i+2]==': ' and s[i-1]!=':' : return s[:i]
    return s

class Body:
    __slots__=('name','header','params','ret','locals','blocks','kind','text_hash','raw')
    def __repr__(self): return '<Body %s>'%self.name

def parse_file(path):
    import hashlib
    txt=open(path).read().split('\n')
    bodies=[]; errs=collections.Counter(); errsamples={}
    cur=None; bb=None; nst=0; buf=[]
    for line in txt:
        if cur is None:
            m1=re.match(r'^(?:const|static) (?:mut )?(.*?) = const (.*);$',line) if line.startswith(('const ','static ')) else None
            if m1:
                nm=_const_name(line); m1=re.match(r'^()()(.*)$',m1.group(2))
                class _M:
                    def __init__(s,a,b,c): s.g=(None,a,b,c)
                    def group(s,i): return s.g[i]
                m1=_M(nm,'',m1.group(3))
                b=Body(); b.header=line; b.locals={}; b.params=[]; b.ret=m1.group(2); b.kind='const'; b.name=m1.group(1)
                b.blocks={'bb0':{'cleanup':False,'stmts':[('assign',('local',0),('use',('const',m1.group(3).strip()))),('return',)]}}
                b.raw=line; b.text_hash=hashlib.sha256(line.encode()).hexdigest()[:16]
                bodies.append(b); continue
            if line.rstrip().endswith('{') and (line.startswith('fn ') or line.startswith('const ') or line.startswith('static ') or line.startswith('promoted[')):
                cur=Body(); cur.header=line; cur.locals={}; cur.blocks={}; cur.params=[]; cur.ret=''
                buf=[line]
                if line.startswith('fn '):
                    cur.kind='fn'
                    cur.name,cur.params,cur.ret=_split_header(line)
                elif line.startswith('promoted['):
                    cur.kind='promoted'
                    m=re.match(r'^promoted\[(\d+)\] in (.*?): (.*) = \{$',line)
                    cur.name='%s::promoted[%s]'%(m.group(2),m.group(1)) if m else line
                else:
                    cur.kind='const'
                    cur.name=_const_name(line)
                bodies.append(cur); bb=None
            continue
        buf.append(line)
        m=re.match(r'^\s+let (mut )?_(\d+): (.*);$', line)
        if m and bb is None:
            cur.locals[int(m.group(2))]=m.group(3); continue
        m=re.match(r'^\s+(bb\d+)( \(cleanup\))?: \{$', line)
        if m:
            bb=m.group(1); cur.blocks[bb]={'cleanup':bool(m.group(2)),'stmts':[]}
        elif bb and line.strip()=='}':
            bb=None
        elif line=='}':
            cur.raw='\n'.join(buf); cur.text_hash=hashlib.sha256(cur.raw.encode()).hexdigest()[:16]
            cur=None
        elif bb:
            st=line.strip()
            if st and not st.startswith('//'):
                nst+=1
                if cur.blocks[bb]['cleanup']:
                    continue
                try:
                    cur.blocks[bb]['stmts'].append(parse_stmt(st))
                except (ParseError,AssertionError,IndexError,ValueError) as e:
                    key=type(e).__name__+':'+re.sub(r'[0-9]+','N',str(e)[:40])
                    errs[key]+=1; errsamples.setdefault(key, st[:220])
                    cur.blocks[bb]['stmts'].append(('unparsed',st))
    global ALLOC_STATICS
    ALLOC_STATICS=dict(re.findall(r'^(alloc\d+) \(static: ([A-Za-z_0-9:]+)',open(path).read(),flags=re.M))
    return bodies, nst, errs, errsamples

ALLOC_STATICS={}
if __name__=='__main__':
    bodies,nst,errs,samples=parse_file(sys.argv[1])
    print('bodies',len(bodies),'statements',nst,'errors',sum(errs.values()))
    for k,v in errs.most_common(40):
        print(v,k,'\n     ',samples[k])
