"""The serde *Serializer data model* (DESIGN.md §3.4): `serde_json::value::Serializer` as a Python object.

The crate's own `Serialize` impls - hand-written and derive-generated - are executed from MIR; every call
they make on the generic serializer `S` lands here and builds a serde_json::Value tree.  std types
(String, integers, Option, Vec, maps, tuples) are converted directly, as their serde impls do."""
import re, z3
from .values import *
from .models_json import jnull,jbool,jnum,jstr,jarr,jobj
from .models import map_order, need_conc

class SerError(Exception):
    def __init__(self,v): self.v=v

def value_ser(): return Opaque('ValueSer')

def ser_int(e,run,x):
    if not x.s: return jnum('PosInt',Int(64,False,x.v if x.conc() else (z3.ZeroExt(64-x.w,x.v) if x.w<64 else x.v)))
    if x.conc():
        sv=x.signed_val()
        return jnum('NegInt',Int(64,True,sv)) if sv<0 else jnum('PosInt',Int(64,False,sv))
    wide=z3.SignExt(64-x.w,x.v) if x.w<64 else x.v
    if run.branch_bool(Bool(x.v<0),'ser_negative'): return jnum('NegInt',Int(64,True,wide))
    return jnum('PosInt',Int(64,False,wide))

def ser_value(e,run,v):
    v=deref(v)
    if isinstance(v,Int): return ser_int(e,run,v)
    if isinstance(v,Bool): return jbool(v)
    if isinstance(v,(StringO,Str)): return jstr(StringO(v.b,v.taint,v.ghost))
    if isinstance(v,Char): return jstr(mk_string(chr(v.v)))
    if isinstance(v,Unit): return jnull()
    if isinstance(v,VecO): return jarr([ser_value(e,run,x) for x in v.items])
    if isinstance(v,MapO):
        if v.is_set: return jarr([ser_value(e,run,v.e[i][0]) for i in map_order(run,v)])
        # entries in the map's iteration order (key order for a BTreeMap; for a HashMap whatever order the run is exploring)
        return jobj([(ser_key(e,run,v.e[i][0]),ser_value(e,run,v.e[i][1])) for i in map_order(run,v)])
    if isinstance(v,Agg):
        if v.ty=='Option': return jnull() if v.vname=='None' else ser_value(e,run,v.f[0])
        if v.ty=='()': return jarr([ser_value(e,run,x) for x in v.f])
        if v.ty=='serde_json::Value': return v
        c=e.impl_index.get(('Serialize',v.ty,'serialize'))
        if not c and run.stack:
            caller=run.stack[-1][0]
            c=[b for b in e.nested_impls.get(('Serialize',v.ty,'serialize'),[]) if b.name.startswith(caller+'::')]
        if c and len(c)==1:
            r=e.call_fn(run,c[0],[Ref(Cell(v)),value_ser()])
            if r.vname=='Err': raise SerError(r.f[0])
            return r.f[0]
        if v.ty=='PathBuf': return jstr(StringO(deref(v.f[0]).b))
    raise Unsupported('serialize of '+repr(v)[:80])

def ser_key(e,run,k):
    jv=ser_value(e,run,k)
    if jv.vname=='String': return deref(jv.f[0])
    if jv.vname=='Number':
        n=jv.f[0].f[0]
        if n.f[0].conc(): return mk_string(str(n.f[0].signed_val() if n.vname=='NegInt' else n.f[0].v))
    raise SerError(Opaque('serde_json::Error','key must be a string'))

def wrap(fn):
    def m(e,run,a,f):
        try: return ok(fn(e,run,a,f))
        except SerError as se: return err(se.v)
    return m

def st_new(kind,parent):
    return Opaque(kind,{'entries':[],'items':[],'pending':None,'parent':parent})
def target_entries(state):
    """entries list of the map/struct state, following FlatMapSerializer to its parent"""
    state=deref(state)
    if isinstance(state,Agg) and state.ty=='FlatMapSerializer': return target_entries(state.f[0])
    return state.p['entries']

def m_serialize_struct(e,run,a,f):
    s=deref(a[0])
    if isinstance(s,Agg) and s.ty=='FlatMapSerializer': return ok(Agg('FlatMapSerializeStruct',[s.f[0]]))
    return ok(st_new('SerStruct',s))
def m_struct_field(e,run,a,f):
    ent=target_entries(a[0])
    ent.append((StringO(byte_list(a[1])),ser_value(e,run,a[2]))); return UNIT
def m_struct_end(e,run,a,f):
    s=deref(a[0])
    if isinstance(s,Agg): return UNIT
    return jobj(s.p['entries'])
def m_serialize_map(e,run,a,f):
    s=deref(a[0])
    if isinstance(s,Agg) and s.ty=='FlatMapSerializer': return ok(Agg('FlatMapSerializeMap',[s.f[0]]))
    return ok(st_new('SerMap',s))
def m_map_entry(e,run,a,f):
    target_entries(a[0]).append((ser_key(e,run,a[1]),ser_value(e,run,a[2]))); return UNIT
def m_map_key(e,run,a,f):
    st=deref(a[0]); st.p['pending']=ser_key(e,run,a[1]); return UNIT
def m_map_value(e,run,a,f):
    st=deref(a[0]); st.p['entries'].append((st.p['pending'],ser_value(e,run,a[1]))); st.p['pending']=None; return UNIT
def m_serialize_seq(e,run,a,f): return ok(st_new('SerSeq',deref(a[0])))
def m_seq_element(e,run,a,f): deref(a[0]).p['items'].append(ser_value(e,run,a[1])); return UNIT
def m_seq_end(e,run,a,f): return jarr(deref(a[0]).p['items'])
def m_ser_str(e,run,a,f):
    s=deref(a[1]); return jstr(StringO(s.b,s.taint,s.ghost))
def m_ser_scalar(e,run,a,f): return ser_value(e,run,a[1])
def m_ser_none(e,run,a,f): return jnull()
def m_ser_unit_variant(e,run,a,f): return jstr(StringO(byte_list(a[3])))
def m_ser_newtype_variant(e,run,a,f): return jobj([(StringO(byte_list(a[3])),ser_value(e,run,a[4]))])
def m_ser_newtype_struct(e,run,a,f): return ser_value(e,run,a[2])
def m_ser_bytes(e,run,a,f): return jarr([jnum('PosInt',Int(64,False,x)) for x in byte_list(a[1])])
def m_collect_str(e,run,a,f):
    from .models import m_to_string
    return jstr(m_to_string(e,run,[a[1]],f))
def m_collect_seq(e,run,a,f):
    from .models import drain,to_iter
    return jarr([ser_value(e,run,x) for x in drain(e,run,to_iter(e,run,a[1]))])
def m_collect_map(e,run,a,f):
    from .models import drain,to_iter
    return jobj([(ser_key(e,run,x.f[0]),ser_value(e,run,x.f[1])) for x in drain(e,run,to_iter(e,run,a[1]))])
def m_std_serialize(e,run,a,f):
    """<T as Serialize>::serialize(&T, S) for std / dependency T"""
    s=deref(a[1]) if len(a)>1 else None
    if isinstance(s,Agg) and s.ty=='FlatMapSerializer':
        v=deref(a[0])
        if isinstance(v,MapO):
            ent=target_entries(s)
            for k,x in v.e: ent.append((ser_key(e,run,k),ser_value(e,run,x)))
            return UNIT
        raise Unsupported('flatten of '+repr(v)[:60])
    return ser_value(e,run,a[0])
def m_to_value(e,run,a,f): return ser_value(e,run,a[0])
# ---- serde_json's text writers: to_string / to_vec / to_writer (+ _pretty)
def json_text(v,pretty=False,ind=0):
    """bytes of a serde_json::Value tree in the member order it has (compact, or serde_json's pretty form: two-space indent);
    concrete content only"""
    import json as _j
    v=deref(v); k=v.vname
    if k=='Null': return b'null'
    if k=='Bool':
        b=v.f[0]
        if not b.conc(): raise Unsupported('text of a symbolic boolean')
        return b'true' if b.v else b'false'
    if k=='Number':
        n=v.f[0].f[0]
        if n.vname=='Float' or not n.f[0].conc(): raise Unsupported('text of a symbolic / float number')
        return str(n.f[0].signed_val() if n.vname=='NegInt' else n.f[0].v).encode()
    if k=='String':
        so=deref(v.f[0])
        if getattr(so,'taint',False) or not all(isinstance(x,int) for x in so.b): raise Unsupported('text of a symbolic string')
        return _j.dumps(bytes(so.b).decode(),ensure_ascii=False).encode()
    nl=(b'\n'+b'  '*(ind+1)) if pretty else b''; end=(b'\n'+b'  '*ind) if pretty else b''
    if k=='Array':
        items=[json_text(x,pretty,ind+1) for x in deref(v.f[0]).items]
        if not items: return b'[]'
        return b'['+nl+((b','+nl).join(items))+end+b']'
    if k=='Object':
        ents=[]
        for kk,x in deref(v.f[0]).e:
            kb=deref(kk).b
            if not all(isinstance(c,int) for c in kb): raise Unsupported('text of a symbolic member name')
            ents.append(_j.dumps(bytes(kb).decode(),ensure_ascii=False).encode()+(b': ' if pretty else b':')+json_text(x,pretty,ind+1))
        if not ents: return b'{}'
        return b'{'+nl+((b','+nl).join(ents))+end+b'}'
    raise Unsupported('json text of '+str(k))
def _tree_of(e,run,x):
    from .models_de import value_tree
    d=deref(x)
    # a `serde_json::Value` argument is a tree (members in key order); any other Serialize value is written in the order its
    # Serialize impl emits (struct fields as declared, HashMap entries in iteration order)
    if isinstance(d,Agg) and d.ty=='serde_json::Value': return value_tree(run,d)
    return ser_value(e,run,x)
def m_json_to_text(pretty,kind):
    def m(e,run,a,f):
        try: t=_tree_of(e,run,a[-1])
        except SerError as se: return err(se.v)
        bs=json_text(t,pretty)
        if kind=='string': return ok(mk_string(bs.decode()))
        if kind=='vec': return ok(u8vec(list(bs)))
        w=deref(a[0])
        if not isinstance(w,VecO): raise Unsupported('serde_json::to_writer into '+repr(w)[:40])
        w.items.extend(Int(8,False,c) for c in bs); return ok(UNIT)
    return m
def m_ser_error_custom(e,run,a,f): return Opaque('serde_json::Error','custom')
def m_json_error_into(e,run,a,f):
    from .build import B
    return Agg('Error',[mk_string('<serde_json error>',True)],e.enums['Error'].index('Opaque'),'Opaque')
def register(E):
    M=E.model; W=wrap
    S=r'^<(__S|S|[A-Za-z_:<>\' ]*Serializer[A-Za-z_:<>\' ]*) as (crypto::_::_serde::|serde::)?Serializer>::'
    M(S+r'serialize_struct$',m_serialize_struct); M(S+r'serialize_map$',m_serialize_map)
    M(S+r'serialize_(seq|tuple|tuple_struct)$',m_serialize_seq)
    M(S+r'serialize_str$',W(m_ser_str)); M(S+r'serialize_(bool|u8|u16|u32|u64|i8|i16|i32|i64|char|some)$',W(m_ser_scalar))
    M(S+r'serialize_(none|unit|unit_struct)$',W(m_ser_none)); M(S+r'serialize_unit_variant$',W(m_ser_unit_variant))
    M(S+r'serialize_newtype_variant$',W(m_ser_newtype_variant)); M(S+r'serialize_newtype_struct$',W(m_ser_newtype_struct))
    M(S+r'serialize_bytes$',W(m_ser_bytes)); M(S+r'collect_str$',W(m_collect_str)); M(S+r'collect_seq$',W(m_collect_seq)); M(S+r'collect_map$',W(m_collect_map))
    M(r' as SerializeStruct>::serialize_field$',W(m_struct_field)); M(r' as SerializeStruct>::skip_field$',lambda e,run,a,f: ok(UNIT)); M(r' as SerializeStruct>::end$',W(m_struct_end))
    M(r' as SerializeMap>::serialize_entry$',W(m_map_entry)); M(r' as SerializeMap>::serialize_key$',W(m_map_key)); M(r' as SerializeMap>::serialize_value$',W(m_map_value)); M(r' as SerializeMap>::end$',W(m_struct_end))
    M(r' as Serialize(Seq|Tuple|TupleStruct)>::serialize_(element|field)$',W(m_seq_element)); M(r' as Serialize(Seq|Tuple|TupleStruct)>::end$',W(m_seq_end))
    M(r' as (crypto::_::_serde::|serde::)?Serialize>::serialize$',W(m_std_serialize))
    M(r'^(serde_json::)?to_value$',W(m_to_value))
    M(r'^(serde_json::)?to_writer$',m_json_to_text(False,'writer')); M(r'^(serde_json::)?to_writer_pretty$',m_json_to_text(True,'writer'))
    M(r'^(serde_json::)?to_vec$',m_json_to_text(False,'vec')); M(r'^(serde_json::)?to_vec_pretty$',m_json_to_text(True,'vec'))
    M(r' as (crypto::_::_serde::|serde::)?ser::Error>::custom$',m_ser_error_custom)
    M(r'^<serde_json::Error as Into<error::Error>>::into$',m_json_error_into)
