"""Library models: the trusted base of mirsym (DESIGN.md §3.4).

Every model is a hand-written summary of a std / dependency function.  Models are registered by
regex on the callee path (turbofish removed).  Each run records which models were invoked.
"""
import re, itertools, copy
from .parse import split_top
import z3
from .values import *

# ----------------------------------------------------------------------------- helpers
def bytes_eq(a,b):
    """equality of two byte-term lists as Bool"""
    if len(a)!=len(b): return Bool(False)
    conj=[]
    for x,y in zip(a,b):
        if isinstance(x,int) and isinstance(y,int):
            if x!=y: return Bool(False)
        else:
            ax=allowed(x); ay=allowed(y)
            if ax is not None and ay is not None and not (ax&ay): return Bool(False)
            conj.append(bterm(x)==bterm(y))
    if not conj: return Bool(True)
    return Bool(z3.And(*conj) if len(conj)>1 else conj[0])

def b_and(*bs):
    out=[]
    for b in bs:
        if b.conc():
            if not b.v: return Bool(False)
        else: out.append(b.v)
    if not out: return Bool(True)
    return Bool(z3.And(*out) if len(out)>1 else out[0])
def b_or(*bs):
    out=[]
    for b in bs:
        if b.conc():
            if b.v: return Bool(True)
        else: out.append(b.v)
    if not out: return Bool(False)
    return Bool(z3.Or(*out) if len(out)>1 else out[0])
def b_not(b): return Bool((not b.v) if b.conc() else z3.Not(b.v))

def val_eq(a,b):
    """structural equality (derived PartialEq semantics) as Bool, possibly symbolic"""
    a=deref(a); b=deref(b)
    if isinstance(a,Int) and isinstance(b,Int):
        if a.conc() and b.conc(): return Bool(a.v==b.v)
        return Bool(a.z()==b.z())
    if isinstance(a,Bool) and isinstance(b,Bool):
        if a.conc() and b.conc(): return Bool(a.v==b.v)
        return Bool(a.z()==b.z())
    if isinstance(a,Char) and isinstance(b,Char): return Bool(a.v==b.v)
    if isinstance(a,(Str,StringO)) and isinstance(b,(Str,StringO)):
        if a.taint or b.taint: raise Unsupported('equality on an opaque formatted string')
        return bytes_eq(a.b,b.b)
    if isinstance(a,Unit) and isinstance(b,Unit): return Bool(True)
    if isinstance(a,Agg) and isinstance(b,Agg):
        if a.variant!=b.variant or len(a.f)!=len(b.f): return Bool(False)
        return b_and(*[val_eq(x,y) for x,y in zip(a.f,b.f)])
    if isinstance(a,VecO) and isinstance(b,VecO):
        if len(a.items)!=len(b.items): return Bool(False)
        return b_and(*[val_eq(x,y) for x,y in zip(a.items,b.items)])
    if isinstance(a,VecO) and isinstance(b,(Str,StringO)) or isinstance(b,VecO) and isinstance(a,(Str,StringO)):
        return bytes_eq(byte_list(a),byte_list(b))
    if isinstance(a,MapO) and isinstance(b,MapO):
        if len(a.e)!=len(b.e): return Bool(False)
        conj=[]
        for ka,va in a.e:
            conj.append(b_or(*[b_and(val_eq(ka,kb),val_eq(va,vb)) for kb,vb in b.e]))
        return b_and(*conj)
    if isinstance(a,Opaque) and isinstance(b,Opaque):
        if a.kind==b.kind and a.p is not None and a.p==b.p: return Bool(True)
        if a is b: return Bool(True)
        raise Unsupported('equality on opaque '+a.kind)
    raise Unsupported('val_eq %r %r'%(a,b))

def bytes_cmp(run,a,b):
    """lexicographic comparison of byte lists -> -1/0/1 (forks on symbolic bytes)"""
    for x,y in zip(a,b):
        if isinstance(x,int) and isinstance(y,int):
            if x<y: return -1
            if x>y: return 1
            continue
        k=run.choose([z3.ULT(bterm(x),bterm(y)), bterm(x)==bterm(y), z3.UGT(bterm(x),bterm(y))],'bytecmp')
        if k==0: return -1
        if k==2: return 1
    return -1 if len(a)<len(b) else (1 if len(a)>len(b) else 0)

def val_cmp(run,a,b):
    """derived Ord semantics -> -1/0/1"""
    a=deref(a); b=deref(b)
    if isinstance(a,(Str,StringO)) and isinstance(b,(Str,StringO)): return bytes_cmp(run,a.b,b.b)
    if isinstance(a,Int) and isinstance(b,Int):
        if a.conc() and b.conc():
            x,y=a.signed_val(),b.signed_val()
            return -1 if x<y else (1 if x>y else 0)
        lt=(a.z()<b.z()) if a.s else z3.ULT(a.z(),b.z())
        k=run.choose([lt,a.z()==b.z(),z3.Not(z3.Or(lt,a.z()==b.z()))],'intcmp')
        return k-1
    if isinstance(a,Agg) and isinstance(b,Agg):
        if a.variant is not None and a.variant!=b.variant: return -1 if a.variant<b.variant else 1
        for x,y in zip(a.f,b.f):
            c=val_cmp(run,x,y)
            if c: return c
        return 0
    if isinstance(a,VecO) and isinstance(b,VecO):
        for x,y in zip(a.items,b.items):
            c=val_cmp(run,x,y)
            if c: return c
        return -1 if len(a.items)<len(b.items) else (1 if len(a.items)>len(b.items) else 0)
    raise Unsupported('val_cmp %r %r'%(a,b))

def ordering(c): return Agg('Ordering',[],['Less','Equal','Greater'].index({-1:'Less',0:'Equal',1:'Greater'}[c]),{-1:'Less',0:'Equal',1:'Greater'}[c])

def clone_val(v):
    """Clone of std values (deep copy of owned structure; pointers are shared)"""
    if isinstance(v,Ref): return v
    if isinstance(v,Agg):
        a=Agg(v.ty,[clone_val(x) for x in v.f],v.variant,v.vname); a.ghost=v.ghost; return a
    if isinstance(v,StringO): return StringO(v.b,v.taint,v.ghost)
    if isinstance(v,VecO): return VecO([clone_val(x) for x in v.items])
    if isinstance(v,MapO):
        m=MapO(v.ordered,v.is_set,v.tag); m.e=[[clone_val(k),clone_val(x)] for k,x in v.e]; return m
    return v

def map_find(run,m,key):
    """index of entry with key == key (forks on symbolic equality) or None"""
    eng=getattr(run,'eng',None); kd=deref(key)
    custom=None
    if eng is not None and isinstance(kd,Agg) and getattr(eng,'custom_cmp',None):
        # a key type with hand-written equality (HashMap) / ordering (BTreeMap): the collection sees keys through it
        if not m.ordered and ('PartialEq',kd.ty) in eng.custom_cmp: custom='eq'
        if m.ordered and ('Ord',kd.ty) in eng.custom_cmp: custom='cmp'
    for i,ent in enumerate(m.e):
        if custom=='eq': same=eng.eq(run,ent[0],key)
        elif custom=='cmp':
            r=deref(eng.call_fn(run,eng.custom_cmp[('Ord',kd.ty)],[ent[0] if isinstance(ent[0],Ref) else Ref(Cell(ent[0])),key if isinstance(key,Ref) else Ref(Cell(key))]))
            same=Bool(r.vname=='Equal')
        else: same=val_eq(ent[0],key)
        if run.branch_bool(same,'mapkey'): return i
    return None

def map_insert(run,m,k,v):
    i=map_find(run,m,k)
    if i is not None:
        old=m.e[i][1]; m.e[i][1]=v; return some(old)
    m.e.append([k,v]); return none()

def map_order(run,m):
    """iteration order of a map: sorted for BTree, nondeterministic for Hash"""
    n=len(m.e)
    if m.ordered:
        import functools
        idx=list(range(n))
        idx.sort(key=functools.cmp_to_key(lambda i,j: val_cmp(run,m.e[i][0],m.e[j][0])))
        return idx
    if n<=1: return list(range(n))
    mode=getattr(run,'hash_order',None) or run.eng.hash_order
    if mode=='fixed': return list(range(n))
    if mode=='rot':
        orders=[list(range(r,n))+list(range(r)) for r in range(n)]
        rv=list(reversed(range(n)))
        if rv not in orders: orders.append(rv)
    else:
        orders=[list(p) for p in itertools.permutations(range(n))]
    k=run.pick(len(orders),'hashorder')
    return orders[k]

def hash_mode(run,m):
    """None if the iteration order of m is determined (BTree, <= 1 entry, 'fixed' mode), else the enumeration mode"""
    if m.ordered or len(m.e)<=1: return None
    mode=getattr(run,'hash_order',None) or run.eng.hash_order
    return None if mode=='fixed' else mode
def lazy_map_iter(run,m,fn,keep=None):
    """iterator over a map whose order is chosen only when a consumer depends on it (force_order); order-insensitive
    consumers (count, min, max, sum, all, any, collect into a set) take the entries as they are"""
    mode=hash_mode(run,m)
    if mode is None: return Iter([fn(i) for i in map_order(run,m) if keep is None or keep(i)])
    it=Iter([fn(i) for i in range(len(m.e)) if keep is None or keep(i)])
    if len(it.items)>1: it.lazy=mode
    return it
def force_order(run,it):
    if it.lazy is None: return it
    if it.lazy=='parts':
        a1,a2=it.extra; it.extra=None; it.lazy=None
        it.items=list(force_order(run,a1).items)+list(force_order(run,a2).items); return it
    mode=it.lazy; it.lazy=None; n=len(it.items)
    if mode=='rot':
        orders=[list(range(r,n))+list(range(r)) for r in range(n)]
        rv=list(reversed(range(n)))
        if rv not in orders: orders.append(rv)
    else: orders=[list(p) for p in itertools.permutations(range(n))]
    k=run.pick(len(orders),'hashorder')
    it.items=[it.items[i] for i in orders[k]]
    return it
def tuple2(a,b): return Agg('()',[a,b])

# ----------------------------------------------------------------------------- iterators
def iter_next(e,run,it):
    """advance a (possibly adapted) iterator; returns value or None"""
    if it.lazy is not None: force_order(run,it)
    while True:
        if it.inner is not None:
            x=iter_next(e,run,it.inner)
            if x is not None: return x
            it.inner=None
        if it.pos>=it.back: return None
        x=it.items[it.pos]; it.pos+=1
        if callable(x): x=x()
        drop=False
        for kind,f in it.adapt:
            if kind=='map': x=e.call_value(run,f,[x])
            elif kind=='filter':
                keep=e.call_value(run,f,[Ref(Cell(x))])
                if not run.branch_bool(keep,'filter'): drop=True; break
            elif kind=='filter_map':
                r=e.call_value(run,f,[x])
                if r.vname=='None': drop=True; break
                x=r.f[0]
            elif kind=='cloned': x=x.get() if (isinstance(x,Ref) and isinstance(x.get(),Ref)) else e.clone(run,x)      # items &&T -> &T
            elif kind=='flatten':
                sub=to_iter(e,run,x)
                it2=Iter([],it.adapt[it.adapt.index((kind,f))+1:]); it2.inner=None
                # flatten: remaining adaptors apply to inner items
                rest=it.adapt[it.adapt.index((kind,f))+1:]
                sub.adapt=sub.adapt+rest
                it.inner=sub; drop=True; break
            elif kind=='enumerate':
                x=tuple2(Int(64,False,it.pos-1),x)
            else: raise Unsupported('adaptor '+kind)
        if not drop: return x

def to_iter(e,run,v,lazy_ok=False):
    d=deref(v)
    if isinstance(d,Iter): return d if lazy_ok else force_order(run,d)
    byref=isinstance(v,Ref)
    if isinstance(d,VecO):
        if byref: return Iter([Ref(d,i) for i in range(len(d.items))])
        return Iter(d.items)
    if isinstance(d,MapO):
        if d.is_set: fn=(lambda i: Ref(d.e[i],0)) if byref else (lambda i: d.e[i][0])
        else: fn=(lambda i: tuple2(Ref(d.e[i],0),Ref(d.e[i],1))) if byref else (lambda i: tuple2(d.e[i][0],d.e[i][1]))
        it=lazy_map_iter(run,d,fn)
        return it if lazy_ok else force_order(run,it)
    if isinstance(d,Agg) and d.ty=='Option':
        return Iter([Ref(d,0)] if byref and d.vname=='Some' else (d.f[:1] if d.vname=='Some' else []))
    if isinstance(d,Agg) and d.ty=='Result':
        return Iter(d.f[:1] if d.vname=='Ok' else [])
    if isinstance(d,(Str,StringO)) :
        return Iter([Ref(Cell(Int(8,False,x))) for x in d.b] if byref else [Int(8,False,x) for x in d.b])
    if isinstance(d,Opaque) and d.kind.startswith('const:'): return Iter([])
    if isinstance(d,Agg) and d.ty in ('Range','RangeInclusive') and len(d.f)>=2 and isinstance(deref(d.f[0]),Int) and isinstance(deref(d.f[1]),Int):
        lo,hi=deref(d.f[0]),deref(d.f[1])
        if not (lo.conc() and hi.conc()): raise Unsupported('iteration over a symbolic range')
        top=hi.v+(1 if d.ty=='RangeInclusive' else 0)
        if top-lo.v>100000: raise Unsupported('range too long')
        return Iter([Int(lo.w,lo.s,i) for i in range(lo.v,top)])
    raise Unsupported('into_iter of '+repr(d)[:80])

def m_into_iter(e,run,a,f):
    d=deref(a[0])
    if isinstance(d,Agg) and e.impl_index.get(('Iterator',d.ty,'next')): return a[0]      # in-crate iterator: IntoIterator is the identity
    return to_iter(e,run,a[0],lazy_ok=True)
def m_slice_iter(e,run,a,f):
    d=deref(a[0])
    if isinstance(d,VecO): return Iter([Ref(d,i) for i in range(len(d.items))])
    if isinstance(d,(Str,StringO)): return Iter([Ref(Cell(Int(8,False,x))) for x in d.b])
    if isinstance(d,MapO): return to_iter(e,run,a[0] if isinstance(a[0],Ref) else Ref(Cell(d)),lazy_ok=True)
    raise Unsupported('iter of '+repr(d)[:60])
def m_iter_mut(e,run,a,f): return m_slice_iter(e,run,a,f)
def adaptor(kind):
    def m(e,run,a,f):
        it=to_iter(e,run,a[0],lazy_ok=(kind in ('map','filter','filter_map','cloned','flatten'))); it.adapt.append((kind,a[1] if len(a)>1 else None)); return it
    return m
def m_next(e,run,a,f):
    it=deref(a[0]); x=iter_next(e,run,it)
    return none() if x is None else some(x)
def drain(e,run,it):
    out=[]
    while True:
        x=iter_next(e,run,it)
        if x is None: return out
        out.append(x)
def m_last(e,run,a,f):
    xs=drain(e,run,to_iter(e,run,a[0]))
    return some(xs[-1]) if xs else none()
def any_order(e,run,v):
    """the iterator for a consumer whose result does not depend on the order of the items"""
    it=to_iter(e,run,v,lazy_ok=True); it.lazy=None
    if it.extra is not None and isinstance(it.extra,tuple) and len(it.extra)==2 and isinstance(it.extra[0],Iter): it.extra=None
    return it
def m_count(e,run,a,f): return Int(64,False,len(drain(e,run,any_order(e,run,a[0]))))
def collect_into(e,run,kind,xs):
    if kind in ('HashMap','BTreeMap'):
        m=MapO(kind=='BTreeMap')
        for x in xs: map_insert(run,m,x.f[0],x.f[1])
        return m
    if kind in ('HashSet','BTreeSet'):
        m=MapO(kind=='BTreeSet',True)
        for x in xs: map_insert(run,m,x,UNIT)
        return m
    if kind=='Vec': return VecO(xs)
    if kind=='String':
        out=[]
        for x in xs:
            x=deref(x)
            if isinstance(x,Char): out.extend(chr(x.v).encode())
            else: out.extend(byte_list(x))
        return StringO(out)
    raise Unsupported('collect into '+kind)
def collect_kind(f):
    m=re.search(r'::collect::<(.*)>$',f)
    t=m.group(1) if m else ''
    t=t.strip()
    res=None
    mm=re.match(r'^(?:std::result::)?Result<(.*)>$',t)
    if mm: res='Result'; t=mm.group(1)
    for k in ('HashMap','BTreeMap','HashSet','BTreeSet','Vec','std::string::String','String'):
        if re.match(r'^(std::collections::|std::vec::)?'+re.escape(k)+r'\b',t): return res,k.split('::')[-1]
    raise Unsupported('collect kind '+f[-100:])
def m_collect(e,run,a,f):
    res,kind=collect_kind(f)
    xs=drain(e,run,any_order(e,run,a[0]) if (kind in ('HashSet','BTreeSet') and not res) else to_iter(e,run,a[0]))
    if res:
        out=[]
        for x in xs:
            if x.vname=='Err': return x
            out.append(x.f[0])
        return ok(collect_into(e,run,kind,out))
    return collect_into(e,run,kind,xs)
def m_try_for_each(e,run,a,f):
    it=to_iter(e,run,a[0])
    while True:
        x=iter_next(e,run,it)
        if x is None: return ok(UNIT)
        r=e.call_value(run,a[1],[x])
        if r.vname in ('Err','Break'): return r
def m_for_each(e,run,a,f):
    it=to_iter(e,run,a[0])
    while True:
        x=iter_next(e,run,it)
        if x is None: return UNIT
        e.call_value(run,a[1],[x])
def m_any(e,run,a,f):
    it=any_order(e,run,a[0])
    while True:
        x=iter_next(e,run,it)
        if x is None: return Bool(False)
        if run.branch_bool(e.call_value(run,a[1],[x]),'any'): return Bool(True)
def m_all(e,run,a,f):
    it=any_order(e,run,a[0])
    while True:
        x=iter_next(e,run,it)
        if x is None: return Bool(True)
        if not run.branch_bool(e.call_value(run,a[1],[x]),'all'): return Bool(False)
def m_position(e,run,a,f):
    it=to_iter(e,run,a[0]); i=0
    while True:
        x=iter_next(e,run,it)
        if x is None: return none()
        if run.branch_bool(e.call_value(run,a[1],[x]),'position'): return some(Int(64,False,i))
        i+=1
def m_find(e,run,a,f):
    it=to_iter(e,run,a[0])
    while True:
        x=iter_next(e,run,it)
        if x is None: return none()
        if run.branch_bool(e.call_value(run,a[1],[Ref(Cell(x))]),'find'): return some(x)
def m_extend(e,run,a,f):
    dst=deref(a[0]); xs=drain(e,run,to_iter(e,run,a[1]))
    if isinstance(dst,VecO):
        for x in xs:
            dst.items.append(deref(x) if isinstance(deref(x),Int) else x)
        return UNIT
    if isinstance(dst,MapO):
        for x in xs:
            if dst.is_set: map_insert(run,dst,x,UNIT)
            else: map_insert(run,dst,x.f[0],x.f[1])
        return UNIT
    if isinstance(dst,StringO):
        for x in xs:
            x=deref(x)
            if isinstance(x,Char): dst.b.extend(chr(x.v).encode())
            else: dst.b.extend(byte_list(x))
        return UNIT
    raise Unsupported('extend '+repr(dst)[:60])
def m_size_hint(e,run,a,f):
    it=deref(a[0]); n=it.back-it.pos
    return Agg('()',[Int(64,False,0),some(Int(64,False,n))])

# ----------------------------------------------------------------------------- Option / Result / control
def m_branch(e,run,a,f):
    r=a[0]
    if r.ty=='Result':
        if r.vname=='Ok': return Agg('ControlFlow',[r.f[0]],0,'Continue')
        return Agg('ControlFlow',[Agg('Result',[r.f[0]],1,'Err')],1,'Break')
    if r.ty=='Option':
        if r.vname=='Some': return Agg('ControlFlow',[r.f[0]],0,'Continue')
        return Agg('ControlFlow',[Agg('Option',[],0,'None')],1,'Break')
    raise Unsupported('branch on '+repr(r)[:60])
def m_from_residual(e,run,a,f):
    r=a[0]
    if r.ty=='Option': return none()
    # error conversion: From<E> for the target error type
    m=re.match(r'^<(?:std::result::)?Result<(.*)> as FromResidual<(?:std::result::)?Result<(?:std::convert::)?Infallible, (.*)>>>::from_residual$',strip_t(f))
    ev=r.f[0]
    if m:
        dst_err=split_top_last(m.group(1)); src_err=m.group(2).strip()
        if dst_err!=src_err:
            ev=e.call_named(run,'<%s as From<%s>>::from'%(dst_err,src_err),[ev])
    return err(ev)
def strip_t(f):
    from .engine import strip_generics
    return strip_generics(f)
def split_top_last(s):
    from .parse import split_top
    return split_top(s)[-1].strip()
def m_map_err(e,run,a,f):
    r=a[0]
    if r.vname=='Ok': return r
    return err(e.call_value(run,a[1],[r.f[0]]))
def m_res_map(e,run,a,f):
    r=a[0]
    if r.vname=='Err': return r
    return ok(e.call_value(run,a[1],[r.f[0]]))
def m_opt_map(e,run,a,f):
    r=a[0]
    if r.vname=='None': return r
    return some(e.call_value(run,a[1],[r.f[0]]))
def m_and_then(e,run,a,f):
    r=a[0]
    if r.vname in ('None','Err'): return r
    return e.call_value(run,a[1],[r.f[0]])
def m_ok_or_else(e,run,a,f):
    r=a[0]
    if r.vname=='Some': return ok(r.f[0])
    return err(e.call_value(run,a[1],[]))
def m_ok_or(e,run,a,f):
    r=a[0]
    if r.vname=='Some': return ok(r.f[0])
    return err(a[1])
def m_unwrap_or_else(e,run,a,f):
    r=a[0]
    if r.vname in ('Some','Ok'): return r.f[0]
    return e.call_value(run,a[1],[] if r.vname=='None' else [r.f[0]])
def m_unwrap_or(e,run,a,f):
    r=a[0]
    if r.vname in ('Some','Ok'): return r.f[0]
    return a[1]
def m_unwrap_or_default(e,run,a,f):
    r=a[0]
    if r.vname in ('Some','Ok'): return r.f[0]
    m=re.search(r'(?:Option|Result)::<(.*)>::unwrap_or_default$',f)
    t=split_top(m.group(1))[0].strip() if m else None
    mi=re.match(r'^(u|i)(8|16|32|64|128|size)$',t or '')
    if mi: return Int(64 if mi.group(2)=='size' else int(mi.group(2)),mi.group(1)=='i',0)
    if t=='bool': return Bool(False)
    if t in ('String','std::string::String','alloc::string::String'): return mk_string('')
    if t and re.match(r'^(std::vec::)?Vec<',t): return VecO([])
    if t and re.match(r'^(std::option::)?Option<',t): return none()
    raise Unsupported('unwrap_or_default of '+str(t)+' in '+f[-80:])
def m_or_else(e,run,a,f):
    r=a[0]
    if r.vname in ('Some','Ok'): return r
    return e.call_value(run,a[1],[] if r.vname=='None' else [r.f[0]])
def m_unwrap(e,run,a,f):
    r=a[0]
    if r.vname in ('Some','Ok'): return r.f[0]
    raise Panic('unwrap/expect on %s: %s'%(r.vname,strip_t(f)[:60]),'unwrap')
def m_is_variant(names):
    def m(e,run,a,f): return Bool(deref(a[0]).vname in names)
    return m
def m_res_ok(e,run,a,f):
    r=a[0]; return some(r.f[0]) if r.vname=='Ok' else none()
def m_opt_as_ref(e,run,a,f):
    r=deref(a[0])
    if r.vname in ('None',): return none()
    if r.ty=='Result': return Agg('Result',[Ref(r,0)],r.variant,r.vname)
    return some(Ref(r,0))
def m_opt_as_deref(e,run,a,f):
    r=deref(a[0])
    if r.vname=='None': return none()
    return some(e.call_named(run,'<%s as Deref>::deref'%e.type_of(r.f[0]),[Ref(r,0)]))
def m_opt_cloned(e,run,a,f):
    r=a[0]
    if r.vname=='None': return r
    x=r.f[0]
    if isinstance(x,Ref) and isinstance(x.get(),Ref): return some(x.get())       # Option<&&T>::copied() -> Option<&T>
    return some(e.clone(run,x))
def m_opt_take(e,run,a,f):
    r=a[0]; v=r.get(); r.set(none()); return v
def m_then_some(e,run,a,f):
    return some(a[1]) if run.branch_bool(a[0],'then_some') else none()
def m_ident(e,run,a,f): return a[0]
def m_unit(e,run,a,f): return UNIT
def m_box_new(e,run,a,f): return Ref(Cell(a[0]))
def m_call_once(e,run,a,f):
    args=a[1].f if isinstance(a[1],Agg) and a[1].ty=='()' else [a[1]]
    return e.call_value(run,a[0],args)

# ----------------------------------------------------------------------------- clone / eq / cmp / default
def m_clone(e,run,a,f): return e.clone(run,a[0])
def m_eq(e,run,a,f):
    # containers of in-crate element types compare their elements with the in-crate PartialEq
    x=deref(a[0]); y=deref(a[1])
    if isinstance(x,VecO) and isinstance(y,VecO) and x.items and isinstance(deref(x.items[0]),Agg):
        if len(x.items)!=len(y.items): return Bool(False)
        return b_and(*[e.eq(run,p,q) for p,q in zip(x.items,y.items)])
    if isinstance(x,Agg) and x.ty=='Option' and isinstance(y,Agg) and x.vname=='Some' and y.vname=='Some':
        return e.eq(run,x.f[0],y.f[0])
    return val_eq(a[0],a[1])
def m_ne(e,run,a,f): return b_not(m_eq(e,run,a,f))
def m_cmp(e,run,a,f): return ordering(val_cmp(run,a[0],a[1]))
def m_partial_cmp(e,run,a,f): return some(ordering(val_cmp(run,a[0],a[1])))
def m_lt(op):
    def m(e,run,a,f):
        x=deref(a[0]); y=deref(a[1])
        if isinstance(x,Int) and isinstance(y,Int): return e.binop(op,x,y)
        c=val_cmp(run,x,y)
        return Bool({'Lt':c<0,'Le':c<=0,'Gt':c>0,'Ge':c>=0}[op])
    return m

# ----------------------------------------------------------------------------- strings / slices / vec
def m_to_string(e,run,a,f):
    d=deref(a[0])
    if isinstance(d,Opaque) and d.kind=='DelayedFormat': return mk_string(render_delayed(e,run,d))
    if isinstance(d,(Str,StringO)): return StringO(d.b,d.taint,d.ghost)
    if isinstance(d,Int) and d.conc(): return mk_string(str(d.signed_val()))
    if isinstance(d,Int): return mk_string('<sym-int>',True)
    if isinstance(d,Char): return mk_string(chr(d.v))
    # Display impl of an in-crate type
    return e.display(run,a[0])
def m_string_deref(e,run,a,f):
    d=deref(a[0]); return Ref(Cell(Str(d.b,True,d.taint,d.ghost)))
def m_as_bytes(e,run,a,f):
    d=deref(a[0]); return Ref(Cell(Str(d.b,False,getattr(d,'taint',False))))
def m_vec_deref(e,run,a,f): return a[0] if isinstance(a[0],Ref) else Ref(Cell(a[0]))
def m_len(e,run,a,f): return Int(64,False,e.len_of(deref(a[0])) if not isinstance(deref(a[0]),MapO) else len(deref(a[0]).e))
def m_is_empty(e,run,a,f):
    d=deref(a[0])
    n=len(d.e) if isinstance(d,MapO) else e.len_of(d)
    return Bool(n==0)
def m_string_new(e,run,a,f): return StringO([])
def m_vec_new(e,run,a,f): return VecO([])
def m_vec_push(e,run,a,f): deref(a[0]).items.append(a[1]); return UNIT
def m_string_push(e,run,a,f):
    c=a[1]
    if isinstance(c,Str): deref(a[0]).b.extend(c.b); return UNIT
    if not isinstance(c,Char): raise Unsupported('push symbolic char')
    deref(a[0]).b.extend(chr(c.v).encode()); return UNIT
def m_string_push_str(e,run,a,f):
    s=deref(a[1]); d=deref(a[0]); d.b.extend(s.b); d.taint=d.taint or s.taint; return UNIT
def m_vec_append(e,run,a,f):
    d=deref(a[0]); s=deref(a[1]); d.items.extend(s.items); s.items=[]; return UNIT
def m_to_vec(e,run,a,f):
    d=deref(a[0])
    if isinstance(d,VecO): return VecO([clone_val(x) for x in d.items])
    return u8vec(d.b)
def m_from_utf8(e,run,a,f):
    bl=byte_list(a[0])
    owned='String::from_utf8' in strip_t(f)
    okv,why=utf8_valid(run,bl)
    if okv: return ok(StringO(bl) if owned else Ref(Cell(Str(bl))))
    return err(Opaque('FromUtf8Error' if owned else 'Utf8Error'))
def utf8_valid(run,bl):
    """decide UTF-8 validity of a byte-term list (forks on symbolic lead bytes)"""
    i=0;n=len(bl)
    def rng(x,lo,hi):
        if isinstance(x,int): return Bool(lo<=x<=hi)
        ax=allowed(x)
        if ax is not None:
            if all(lo<=v<=hi for v in ax): return Bool(True)
            if not any(lo<=v<=hi for v in ax): return Bool(False)
        return Bool(z3.And(z3.UGE(x,lo),z3.ULE(x,hi)))
    while i<n:
        x=bl[i]
        if run.branch_bool(rng(x,0,0x7f),'utf8'): i+=1; continue
        if run.branch_bool(rng(x,0xc2,0xdf),'utf8'):
            if i+1<n and run.branch_bool(rng(bl[i+1],0x80,0xbf),'utf8'): i+=2; continue
            return False,i
        if run.branch_bool(rng(x,0xe0,0xef),'utf8'):
            if i+2>=n: return False,i
            lo,hi=0x80,0xbf
            if run.branch_bool(rng(x,0xe0,0xe0),'utf8'): lo=0xa0
            elif run.branch_bool(rng(x,0xed,0xed),'utf8'): hi=0x9f
            if run.branch_bool(rng(bl[i+1],lo,hi),'utf8') and run.branch_bool(rng(bl[i+2],0x80,0xbf),'utf8'): i+=3; continue
            return False,i
        if run.branch_bool(rng(x,0xf0,0xf4),'utf8'):
            if i+3>=n: return False,i
            lo,hi=0x80,0xbf
            if run.branch_bool(rng(x,0xf0,0xf0),'utf8'): lo=0x90
            elif run.branch_bool(rng(x,0xf4,0xf4),'utf8'): hi=0x8f
            if run.branch_bool(rng(bl[i+1],lo,hi),'utf8') and run.branch_bool(rng(bl[i+2],0x80,0xbf),'utf8') and run.branch_bool(rng(bl[i+3],0x80,0xbf),'utf8'): i+=4; continue
            return False,i
        return False,i
    return True,None
def is_char_boundary(run,bl,i):
    if i==0 or i==len(bl): return True
    if i>len(bl): return False
    x=bl[i]
    if isinstance(x,int): return not (0x80<=x<=0xbf)
    return not run.branch_bool(Bool(z3.And(z3.UGE(x,0x80),z3.ULE(x,0xbf))),'charboundary')
def m_replace(e,run,a,f):
    s=deref(a[0]); pat=deref(a[1]); to=deref(a[2]).b
    pat=list(chr(pat.v).encode()) if isinstance(pat,Char) else pat.b
    if s.taint: return StringO(s.b,True)
    out=[]; i=0; b=s.b; n=len(b); m=len(pat)
    if m==0: raise Unsupported('replace empty pattern')
    while i<n:
        if i+m<=n and run.branch_bool(bytes_eq(b[i:i+m],pat),'replace'):
            out.extend(to); i+=m
        else:
            out.append(b[i]); i+=1
    return StringO(out)
def m_starts_with(e,run,a,f):
    s=deref(a[0]); p=deref(a[1])
    if isinstance(p,Char): pb=list(chr(p.v).encode())
    else: pb=byte_list(p)
    sb=byte_list(s)
    if len(pb)>len(sb): return Bool(False)
    return bytes_eq(sb[:len(pb)],pb)
def m_ends_with(e,run,a,f):
    s=deref(a[0]); p=deref(a[1])
    pb=list(chr(p.v).encode()) if isinstance(p,Char) else byte_list(p)
    sb=byte_list(s)
    if len(pb)>len(sb): return Bool(False)
    return bytes_eq(sb[len(sb)-len(pb):],pb)
def m_strip_prefix(e,run,a,f):
    s=deref(a[0]); p=deref(a[1])
    pb=list(chr(p.v).encode()) if isinstance(p,Char) else byte_list(p)
    sb=byte_list(s)
    if len(pb)<=len(sb) and run.branch_bool(bytes_eq(sb[:len(pb)],pb),'strip_prefix'):
        rest=sb[len(pb):]
        return some(Ref(Cell(Str(rest,getattr(s,'is_str',True))) if not isinstance(s,VecO) else Cell(u8vec(rest))))
    return none()
def _is_closure(p): return type(p).__name__=='Closure' or (isinstance(p,Agg) and str(p.ty).startswith('{closure'))
def m_contains_str(e,run,a,f):
    p=deref(a[1])
    if _is_closure(p) or isinstance(p,VecO):
        # pattern = predicate on characters (`|c| ..`) or a set of characters (`['*','?']`)
        for ch in m_str_chars(e,run,[a[0]],f).items:
            if isinstance(p,VecO): hit=b_or(*[e.eq(run,ch,x) for x in p.items])
            else: hit=e.call_value(run,a[1],[ch])
            if run.branch_bool(hit,'contains.pred'): return Bool(True)
        return Bool(False)
    sb=byte_list(a[0])
    pb=list(chr(p.v).encode()) if isinstance(p,Char) else byte_list(p)
    for i in range(0,len(sb)-len(pb)+1):
        if run.branch_bool(bytes_eq(sb[i:i+len(pb)],pb),'contains'): return Bool(True)
    return Bool(False)
def pat_bytes(p):
    p=deref(p)
    if isinstance(p,Char): return list(chr(p.v).encode())
    return byte_list(p)
def m_trim_end_matches(e,run,a,f):
    sb=list(byte_list(a[0])); pb=pat_bytes(a[1])
    if not pb: raise Unsupported('trim empty')
    while len(sb)>=len(pb) and run.branch_bool(bytes_eq(sb[len(sb)-len(pb):],pb),'trim_end'): sb=sb[:len(sb)-len(pb)]
    return Ref(Cell(Str(sb)))
def m_trim_start_matches(e,run,a,f):
    sb=list(byte_list(a[0])); pb=pat_bytes(a[1])
    if not pb: return Ref(Cell(Str(sb)))
    while len(sb)>=len(pb) and run.branch_bool(bytes_eq(sb[:len(pb)],pb),'trim_start'): sb=sb[len(pb):]
    return Ref(Cell(Str(sb)))
def m_str_parse(e,run,a,f):
    key=f
    sb=byte_list(a[0])
    m=re.search(r'parse::<(.*)>$',f)
    ty=m.group(1) if m else ''
    if ty in ('std::string::String','String'): return ok(StringO(sb))
    if ty=='usize' or ty=='u64':
        # FromStr for unsigned: optional leading '+', then 1.. ASCII digits, overflow -> Err
        i=0
        if not sb: return err(Opaque('ParseIntError'))
        def isb(x,c): return Bool(x==c) if isinstance(x,int) else Bool(x==z3.BitVecVal(c,8))
        if run.branch_bool(isb(sb[0],0x2b),'parse+'):
            i=1
            if len(sb)==1: return err(Opaque('ParseIntError'))
        val=0
        digs=[]
        for x in sb[i:]:
            if isinstance(x,int):
                if not (0x30<=x<=0x39): return err(Opaque('ParseIntError'))
                digs.append(x-0x30)
            else:
                if not run.branch_bool(Bool(z3.And(z3.UGE(x,0x30),z3.ULE(x,0x39))),'parsedigit'): return err(Opaque('ParseIntError'))
                digs.append(z3.ZeroExt(120,x-0x30))
        if all(isinstance(d,int) for d in digs):
            for d in digs: val=val*10+d
            if val>=(1<<64): return err(Opaque('ParseIntError'))
            return ok(Int(64,False,val))
        if len(digs)>20:
            # more than 20 digits: overflow unless all leading digits are zero
            head=digs[:len(digs)-20]; digs=digs[len(digs)-20:]
            nz=[(d!=0) if not isinstance(d,int) else z3.BoolVal(d!=0) for d in head]
            if run.branch_bool(Bool(z3.Or(*nz)),'parseoverflow'): return err(Opaque('ParseIntError'))
        acc=z3.BitVecVal(0,128)
        for d in digs: acc=acc*10+(z3.BitVecVal(d,128) if isinstance(d,int) else d)
        if len(digs)>=20:
            if run.branch_bool(Bool(z3.UGE(acc,z3.BitVecVal(1<<64,128))),'parseoverflow'): return err(Opaque('ParseIntError'))
        return ok(Int(64,False,z3.simplify(z3.Extract(63,0,acc))))
    c=e.impl_index.get(('FromStr',e.src.qualify(last_ident_(ty),ty),'from_str'))
    if c and len(c)==1: return e.call_fn(run,c[0],[a[0] if isinstance(a[0],Ref) else Ref(Cell(a[0]))])
    raise Unsupported('parse::<%s>'%ty)

def last_ident_(t):
    from .srcindex import last_ident
    return last_ident(t)
def range_of(r,n):
    """(lo,hi) of a Range/RangeFrom/RangeTo/RangeFull Agg, concrete"""
    r=deref(r)
    def cv(x):
        x=deref(x)
        if not x.conc(): raise SymRange(x)
        return x.v
    if r.ty=='Range': return cv(r.f[0]),cv(r.f[1])
    if r.ty=='RangeFrom': return cv(r.f[0]),n
    if r.ty=='RangeTo': return 0,cv(r.f[0])
    if r.ty=='RangeFull': return 0,n
    if r.ty=='RangeInclusive': return cv(r.f[0]),cv(r.f[1])+1
    if r.ty=='RangeToInclusive': return 0,cv(r.f[0])+1
    raise Unsupported('range '+r.ty)
class SymRange(Exception):
    def __init__(self,x): self.x=x
def concretize_small(run,x,limit):
    """fork a symbolic usize into 0..limit or 'larger' (returns int or None)"""
    opts=[x.v==k for k in range(limit+1)]+[z3.UGT(x.v,limit)]
    k=run.choose(opts,'concretize')
    return k if k<=limit else None
def m_index_range(e,run,a,f):
    """<[T]/str/String/Vec as Index<Range*>>::index with bounds and char-boundary panics"""
    base=deref(a[0]); r=deref(a[1])
    if isinstance(r,Int):
        # Index<usize>
        if not r.conc():
            k=concretize_small(run,r,e.len_of(base))
            if k is None: raise Panic('index out of bounds (symbolic)','index')
            r=Int(64,False,k)
        if isinstance(base,VecO):
            if r.v>=len(base.items): raise Panic('index out of bounds: '+strip_t(f)[:50],'index')
            return Ref(base,r.v)
        if r.v>=len(base.b): raise Panic('index out of bounds','index')
        return Ref(Cell(Int(8,False,base.b[r.v])))
    n=e.len_of(base)
    # symbolic bounds: fork over feasible small values, everything larger than n panics
    for i,x in enumerate(r.f):
        x=deref(x)
        if isinstance(x,Int) and not x.conc():
            k=concretize_small(run,x,n+1)
            if k is None: raise Panic('slice index out of range (symbolic bound): '+strip_t(f)[:60],'slice')
            r=Agg(r.ty,[y if j!=i else Int(64,False,k) for j,y in enumerate(r.f)])
    lo,hi=range_of(r,n)
    if lo>hi: raise Panic('slice index starts at %d but ends at %d'%(lo,hi),'slice')
    if hi>n: raise Panic('range end index %d out of range for slice of length %d'%(hi,n),'slice')
    if isinstance(base,VecO):
        return Ref(Cell(VecO(base.items[lo:hi])))
    is_str=isinstance(base,StringO) or base.is_str
    if is_str:
        if not is_char_boundary(run,base.b,lo) or not is_char_boundary(run,base.b,hi):
            raise Panic('byte index is not a char boundary','charboundary')
    return Ref(Cell(Str(base.b[lo:hi],is_str,base.taint)))
def m_get_range(e,run,a,f):
    try: return some(m_index_range(e,run,a,f))
    except Panic: return none()
def m_concat(e,run,a,f):
    d=deref(a[0]); out=[]
    for x in d.items: out.extend(byte_list(x))
    if 'str' in f.split('concat')[0][-12:]: return StringO(out)
    return u8vec(out)
def m_join(e,run,a,f):
    d=deref(a[0]); sep=byte_list(a[1]); out=[]
    for i,x in enumerate(d.items):
        if i: out.extend(sep)
        out.extend(byte_list(x))
    return StringO(out)
def m_splitn(e,run,a,f):
    """[u8]::splitn(n, pred) -> iterator of subslices"""
    bl=byte_list(a[0]); n=deref(a[1]); pred=a[2]
    if not n.conc(): raise Unsupported('splitn symbolic n')
    parts=[]; cur=[]; i=0
    while i<len(bl):
        if len(parts)<n.v-1 and run.branch_bool(e.call_value(run,pred,[Ref(Cell(Int(8,False,bl[i])))]),'splitn'):
            parts.append(cur); cur=[]
        else: cur.append(bl[i])
        i+=1
    parts.append(cur)
    return Iter([Ref(Cell(Str(p,False))) for p in parts])
def m_split_whitespace(e,run,a,f):
    bl=byte_list(a[0]); c=conc_bytes(bl)
    if c is None:
        # symbolic bytes: forks on `byte is ASCII white space` (TAB LF VT FF CR SPACE); a symbolic byte >= 0x80 is taken to be part
        # of a non-space character (the multi-byte Unicode spaces U+0085, U+00A0, U+1680, U+2000.. are outside this model)
        parts=[]; cur=[]
        for x in bl:
            if isinstance(x,int): ws=x in (9,10,11,12,13,32)
            else: ws=run.branch_bool(Bool(z3.Or(z3.And(z3.UGE(x,9),z3.ULE(x,13)),x==32)),'split_whitespace')
            if ws:
                if cur: parts.append(cur); cur=[]
            else: cur.append(x)
        if cur: parts.append(cur)
        return Iter([Ref(Cell(Str(p))) for p in parts])
    return Iter([Ref(Cell(Str(list(p.encode())))) for p in c.decode().split()])
def m_str_split_char(e,run,a,f):
    bl=byte_list(a[0]); pb=pat_bytes(a[1]); parts=[]; cur=[]; i=0
    while i<len(bl):
        if i+len(pb)<=len(bl) and run.branch_bool(bytes_eq(bl[i:i+len(pb)],pb),'split'):
            parts.append(cur); cur=[]; i+=len(pb)
        else: cur.append(bl[i]); i+=1
    parts.append(cur)
    return Iter([Ref(Cell(Str(p))) for p in parts])
def m_str_rsplit(e,run,a,f):
    it=m_str_split_char(e,run,a,f); it.items.reverse(); return it
def m_str_split_terminator(e,run,a,f):
    it=m_str_split_char(e,run,a,f)
    if it.items and not deref(it.items[-1]).b: it.items.pop(); it.back=len(it.items)
    return it
def m_str_rsplit_once(e,run,a,f):
    bl=byte_list(a[0]); pb=pat_bytes(a[1])
    for i in range(len(bl)-len(pb),-1,-1):
        if run.branch_bool(bytes_eq(bl[i:i+len(pb)],pb),'rsplit_once'): return some(tuple2(Ref(Cell(Str(bl[:i]))),Ref(Cell(Str(bl[i+len(pb):])))))
    return none()
def m_from_str_into_string(e,run,a,f):
    d=deref(a[0]); return StringO(d.b,getattr(d,'taint',False),getattr(d,'ghost',None))
def m_string_from_string_ref(e,run,a,f): return StringO(deref(a[0]).b)
def m_str_to_owned(e,run,a,f):
    d=deref(a[0])
    if isinstance(d,VecO): return VecO([clone_val(x) for x in d.items])
    if isinstance(d,Str) and not d.is_str: return u8vec(d.b)
    return StringO(d.b,getattr(d,'taint',False),getattr(d,'ghost',None))
def m_into_bytes(e,run,a,f): return u8vec(deref(a[0]).b)
def m_vec_from_slice(e,run,a,f): return m_to_vec(e,run,a,f)
def m_vec_extend_from_slice(e,run,a,f):
    d=deref(a[0]); s=deref(a[1])
    if isinstance(s,VecO): d.items.extend(clone_val(x) for x in s.items)
    else: d.items.extend(Int(8,False,x) for x in s.b)
    return UNIT
def m_from_elem(e,run,a,f):
    n=deref(a[1])
    if not n.conc(): raise Unsupported('from_elem symbolic n')
    return VecO([copy_val(a[0]) for _ in range(n.v)])
def m_box_uninit(e,run,a,f): return Ref(Cell(Agg('MaybeUninit',[UNIT,Agg('ManuallyDrop',[Agg('MaybeDangling',[None])])])))
def m_box_assume_init_vec(e,run,a,f):
    v=deref(a[0])
    while isinstance(v,Agg) and v.ty in ('MaybeUninit','ManuallyDrop','MaybeDangling'): v=v.f[1] if v.ty=='MaybeUninit' else v.f[0]
    if isinstance(v,VecO): return v
    raise Unsupported('box_assume_init_into_vec '+repr(v)[:60])
def m_vec_contains(e,run,a,f):
    d=deref(a[0])
    return b_or(*[val_eq(x,a[1]) for x in d.items])
def m_vec_first(e,run,a,f):
    d=deref(a[0])
    if isinstance(d,(Str,StringO)): return some(Ref(Cell(Int(8,False,d.b[0])))) if d.b else none()      # byte slice
    return some(Ref(d,0)) if d.items else none()
def m_vec_last(e,run,a,f):
    d=deref(a[0])
    if isinstance(d,(Str,StringO)): return some(Ref(Cell(Int(8,False,d.b[-1])))) if d.b else none()
    return some(Ref(d,len(d.items)-1)) if d.items else none()
def m_vec_get(e,run,a,f):
    d=deref(a[0]); i=deref(a[1])
    if isinstance(i,Int):
        if not i.conc(): raise Unsupported('get symbolic')
        return some(Ref(d,i.v)) if i.v<len(d.items) else none()
    return m_get_range(e,run,a,f)
def m_vec_sort(e,run,a,f):
    import functools
    d=deref(a[0]); d.items.sort(key=functools.cmp_to_key(lambda x,y: val_cmp(run,x,y))); return UNIT
def m_vec_pop(e,run,a,f):
    d=deref(a[0]); return some(d.items.pop()) if d.items else none()
def m_vec_clear(e,run,a,f):
    d=deref(a[0])
    if isinstance(d,VecO): d.items=[]
    elif isinstance(d,MapO): d.e=[]
    else: d.b=[]
    return UNIT
def m_vec_with_capacity(e,run,a,f): return VecO([])
def m_string_with_capacity(e,run,a,f): return StringO([])

# ----------------------------------------------------------------------------- maps
def m_map_new(ordered,is_set=False):
    def m(e,run,a,f): return MapO(ordered,is_set)
    return m
def m_map_insert(e,run,a,f):
    m=deref(a[0])
    if m.is_set:
        r=map_insert(run,m,a[1],UNIT); return Bool(r.vname=='None')
    return map_insert(run,m,a[1],a[2])
def m_map_get(e,run,a,f):
    m=deref(a[0]); i=map_find(run,m,a[1])
    return none() if i is None else some(Ref(m.e[i],1))
def m_map_get_mut(e,run,a,f): return m_map_get(e,run,a,f)
def m_map_remove(e,run,a,f):
    m=deref(a[0]); i=map_find(run,m,a[1])
    if i is None: return Bool(False) if m.is_set else none()
    v=m.e.pop(i)[1]
    return Bool(True) if m.is_set else some(v)
def m_map_contains(e,run,a,f):
    m=deref(a[0]); return Bool(map_find(run,m,a[1]) is not None)
def m_map_index(e,run,a,f):
    m=deref(a[0]); i=map_find(run,m,a[1])
    if i is None: raise Panic('map index: key not found ('+strip_t(f)[:70]+')','mapindex')
    return Ref(m.e[i],1)
def m_map_iter(e,run,a,f): return to_iter(e,run,a[0] if isinstance(a[0],Ref) else Ref(Cell(a[0])),lazy_ok=True)
def m_map_keys(e,run,a,f):
    m=deref(a[0]); return lazy_map_iter(run,m,lambda i: Ref(m.e[i],0))
def m_map_values(e,run,a,f):
    m=deref(a[0]); return lazy_map_iter(run,m,lambda i: Ref(m.e[i],1))
def m_map_into_values(e,run,a,f):
    m=deref(a[0]); return lazy_map_iter(run,m,lambda i: m.e[i][1])
def m_map_into_keys(e,run,a,f):
    m=deref(a[0]); return lazy_map_iter(run,m,lambda i: m.e[i][0])
def m_set_difference(e,run,a,f):
    x=deref(a[0]); y=deref(a[1])
    return lazy_map_iter(run,x,lambda i: Ref(x.e[i],0),lambda i: map_find(run,y,x.e[i][0]) is None)
def m_set_intersection(e,run,a,f):
    x=deref(a[0]); y=deref(a[1])
    return lazy_map_iter(run,x,lambda i: Ref(x.e[i],0),lambda i: map_find(run,y,x.e[i][0]) is not None)
def m_set_is_subset(e,run,a,f):
    x=deref(a[0]); y=deref(a[1])
    return Bool(all(map_find(run,y,k) is not None for k,_ in x.e))
def m_set_symmetric_difference(e,run,a,f):
    x=deref(a[0]); y=deref(a[1])
    # (x - y) then (y - x), each part in its own hash order: chained lazily (order-insensitive consumers take them as they are)
    a1=lazy_map_iter(run,x,lambda i: Ref(x.e[i],0),lambda i: map_find(run,y,x.e[i][0]) is None); a2=lazy_map_iter(run,y,lambda i: Ref(y.e[i],0),lambda i: map_find(run,x,y.e[i][0]) is None)
    if a1.lazy is None and a2.lazy is None: return Iter(a1.items+a2.items)
    def part(p): return lambda: force_order(run,p).items
    it=Iter(a1.items+a2.items); it.lazy='parts'; it.extra=(a1,a2)
    return it
def m_set_union(e,run,a,f):
    x=deref(a[0]); y=deref(a[1])
    out=[Ref(x.e[i],0) for i in map_order(run,x)]+[Ref(y.e[i],0) for i in map_order(run,y) if map_find(run,x,y.e[i][0]) is None]
    return Iter(out)
def m_set_is_disjoint(e,run,a,f):
    x=deref(a[0]); y=deref(a[1])
    return Bool(all(map_find(run,y,k) is None for k,_ in x.e))
def m_set_is_superset(e,run,a,f): return m_set_is_subset(e,run,[a[1],a[0]],f)
def m_map_entry_or_insert(e,run,a,f): raise Unsupported('entry api')

# ----------------------------------------------------------------------------- formatting
def m_arg_new(kind):
    def m(e,run,a,f): return Opaque('fmtarg',(kind,a[0]))
    return m
def m_arguments_new(e,run,a,f):
    tmpl=deref(a[0]); args=deref(a[1])
    return Opaque('fmtargs',(list(tmpl.b),[deref(x) for x in args.items] if isinstance(args,VecO) else []))
def m_arguments_from_str(e,run,a,f):
    s=deref(a[0]); return Opaque('fmtargs_lit',list(s.b))
def render_args(e,run,fa):
    """decode the rustc 1.9x `format_args!` byte-code: len-prefixed literal pieces, 0xC0 next arg,
    0xC8 lo hi = arg by index, 0x00 end.  Anything else -> Unsupported."""
    if fa.kind=='fmtargs_lit': return list(fa.p),False
    tmpl,args=fa.p
    out=[]; taint=False; i=0; nxt=0
    def put(k):
        nonlocal taint
        if k>=len(args): raise Unsupported('fmt arg index')
        kind,val=args[k].p
        bl,t=e.fmt_value(run,kind,val); out.extend(bl); taint=taint or t
    while i<len(tmpl):
        c=tmpl[i]
        if c==0: break
        if c==0xc0: put(nxt); nxt+=1; i+=1
        elif c==0xc8:
            k=tmpl[i+1]|(tmpl[i+2]<<8); put(k); nxt=k+1; i+=3
        elif c<0x80:
            out.extend(tmpl[i+1:i+1+c]); i+=1+c
        else: raise Unsupported('format template opcode 0x%02x'%c)
    return out,taint
def m_fmt_format(e,run,a,f):
    bl,t=render_args(e,run,a[0]); return StringO(bl,t)
def m_as_display(e,run,a,f): return a[0]

# ----------------------------------------------------------------------------- logging
def m_max_level(e,run,a,f): return Agg('LevelFilter',[],0,'Off')
def m_level_le(e,run,a,f):
    x=deref(a[0]); y=deref(a[1])
    return Bool(x.variant<=y.variant)

# ----------------------------------------------------------------------------- paths
def path_push(base,comp):
    """std::path::PathBuf::push on Unix, on byte lists (concrete separators only)"""
    if comp and comp[0]==0x2f: return list(comp)
    if base and base[-1]!=0x2f: return base+[0x2f]+comp
    return base+comp
def need_conc(bl,what):
    c=conc_bytes(bl)
    if c is None: raise Unsupported(what+' on symbolic bytes')
    return c
def m_pathbuf_new(e,run,a,f): return Agg('PathBuf',[StringO([])])
def m_pathbuf_from(e,run,a,f): return Agg('PathBuf',[StringO(byte_list(a[0]))])
def pb_bytes(v):
    v=deref(v)
    if isinstance(v,Agg) and v.ty in ('PathBuf','Path','OsString','OsStr'): return deref(v.f[0]).b
    return byte_list(v)
def m_pathbuf_push(e,run,a,f):
    p=deref(a[0]); comp=pb_bytes(a[1])
    base=p.f[0].b
    if comp and not isinstance(comp[0],int): raise Unsupported('path push symbolic first byte')
    if base and not isinstance(base[-1],int): raise Unsupported('path push symbolic last byte')
    p.f[0]=StringO(path_push(list(base),list(comp))); return UNIT
def m_path_join(e,run,a,f):
    base=pb_bytes(a[0]); comp=pb_bytes(a[1])
    return Agg('PathBuf',[StringO(path_push(list(base),list(comp)))])
def m_path_deref(e,run,a,f): return a[0]
def m_path_to_str(e,run,a,f):
    bl=pb_bytes(a[0]); okv,_=utf8_valid(run,bl)
    return some(Ref(Cell(Str(bl)))) if okv else none()
def m_path_to_string_lossy(e,run,a,f):
    bl=pb_bytes(a[0]); okv,_=utf8_valid(run,bl)
    if not okv: raise Unsupported('lossy conversion of invalid utf8')
    return Agg('Cow',[Ref(Cell(Str(bl)))],0,'Borrowed')
def m_cow_deref(e,run,a,f):
    c=deref(a[0]); v=c.f[0]
    if c.vname=='Owned': return Ref(Cell(Str(deref(v).b)))
    return v
def m_cow_to_string(e,run,a,f):
    c=deref(a[0]); return StringO(deref(c.f[0]).b)
def m_path_new(e,run,a,f): return Ref(Cell(Agg('Path',[StringO(byte_list(a[0]))])))
def m_into_os_string(e,run,a,f): return Agg('OsString',[StringO(pb_bytes(a[0]))])
def m_os_into_string(e,run,a,f):
    bl=pb_bytes(a[0]); okv,_=utf8_valid(run,bl)
    return ok(StringO(bl)) if okv else err(a[0])
def m_path_clean(e,run,a,f):
    """path_clean::clean (Plan 9 cleanname, as implemented by path-clean 1.0)"""
    s=need_conc(byte_list(a[0]),'path_clean').decode()
    return Agg('PathBuf',[mk_string(path_clean(s))])
def path_clean(path):
    if path=='': return '.'
    rooted=path.startswith('/')
    out=[]
    for comp in path.split('/'):
        if comp=='' or comp=='.': continue
        if comp=='..':
            if out and out[-1]!='..': out.pop()
            elif not rooted: out.append('..')
        else: out.append(comp)
    r='/'.join(out)
    if rooted: return '/'+r
    return r if r else '.'

# ----------------------------------------------------------------------------- glob
def glob_compile(pat):
    """glob::Pattern::new for the portable subset; returns token list or None (PatternError)"""
    toks=[]; i=0; n=len(pat)
    while i<n:
        c=pat[i]
        if c=='?': toks.append(('any1',)); i+=1
        elif c=='*':
            j=i
            while j<n and pat[j]=='*': j+=1
            cnt=j-i
            if cnt>2: return None                      # "wildcards are either regular `*` or recursive `**`"
            if cnt==2:
                # recursive: must be a whole path component
                before_ok=(i==0 or pat[i-1]=='/')
                after_ok=(j==n or pat[j]=='/')
                if not(before_ok and after_ok): return None
                if j<n: j+=1
                if not (toks and toks[-1]==('anyrec',)): toks.append(('anyrec',))
            else: toks.append(('anyseq',))
            i=j
        elif c=='[':
            # character class
            if i+3<n and pat[i+1]=='!':
                k=pat.find(']',i+3)
                if k>=0: toks.append(('notin',parse_class(pat[i+2:k]))); i=k+1; continue
            elif i+2<n and pat[i+1]!='!':
                k=pat.find(']',i+2)
                if k>=0: toks.append(('in',parse_class(pat[i+1:k]))); i=k+1; continue
            return None
        else: toks.append(('ch',c)); i+=1
    return toks
def parse_class(s):
    out=[]; i=0
    while i<len(s):
        if i+2<len(s) and s[i+1]=='-': out.append((s[i],s[i+2])); i+=3
        else: out.append((s[i],s[i])); i+=1
    return out
def glob_match(toks,s):
    """glob::Pattern::matches with default MatchOptions (case sensitive, `*`/`?` match `/`, leading dot ok):
    a transcription of glob 0.3 `Pattern::matches_from` (recursion only at wildcard tokens, so subjects may be long).
    Returns True for Match; SubPatternDoesntMatch / EntirePatternDoesntMatch are both False at the top."""
    MATCH,SUB,ENTIRE=0,1,2
    nt=len(toks); n=len(s)
    def mf(follows_sep,si,ti0):
        for ti in range(ti0,nt):
            t=toks[ti]
            if t[0] in ('anyseq','anyrec'):
                r=mf(follows_sep,si,ti+1)
                if r!=SUB: return r
                while si<n:
                    c=s[si]; si+=1
                    follows_sep=(c=='/')
                    if t[0]=='anyrec' and not follows_sep: continue
                    r=mf(follows_sep,si,ti+1)
                    if r!=SUB: return r
            else:
                if si>=n: return ENTIRE
                c=s[si]; si+=1
                if t[0]=='any1': ok_=True
                elif t[0]=='ch': ok_=(c==t[1])
                elif t[0]=='in': ok_=any(lo<=c<=hi for lo,hi in t[1])
                elif t[0]=='notin': ok_=not any(lo<=c<=hi for lo,hi in t[1])
                else: ok_=False
                if not ok_: return SUB
                follows_sep=(c=='/')
        return MATCH if si>=n else SUB
    return mf(True,0,0)==MATCH
def m_glob_new(e,run,a,f):
    p=need_conc(byte_list(a[0]),'glob pattern').decode()
    t=glob_compile(p)
    if t is None: return err(Opaque('PatternError'))
    return ok(Opaque('GlobPattern',(p,t)))
def m_glob_matches(e,run,a,f):
    p=deref(a[0]); s=need_conc(byte_list(a[1]),'glob subject').decode()
    return Bool(glob_match(p.p[1],s))

# ----------------------------------------------------------------------------- registration
def register_all(E):
    M=E.model
    # control / option / result
    M(r' as Try>::branch$',m_branch)
    M(r' as FromResidual<.*>>::from_residual$',m_from_residual)
    M(r'(^|::)Result::map_err$',m_map_err)
    M(r'(^|::)Result::map$',m_res_map)
    M(r'(^|::)Option::map$',m_opt_map)
    M(r'(^|::)(Option|Result)::and_then$',m_and_then)
    M(r'(^|::)Option::ok_or_else$',m_ok_or_else)
    M(r'(^|::)Option::ok_or$',m_ok_or)
    M(r'(^|::)(Option|Result)::unwrap_or_else$',m_unwrap_or_else)
    M(r'(^|::)(Option|Result)::unwrap_or$',m_unwrap_or)
    M(r'(^|::)(Option|Result)::or_else$',m_or_else)
    M(r'(^|::)(Option|Result)::(unwrap|expect)$',m_unwrap)
    M(r'(^|::)Option::is_some$',m_is_variant(('Some',)))
    M(r'(^|::)Option::is_none$',m_is_variant(('None',)))
    M(r'(^|::)Result::is_ok$',m_is_variant(('Ok',)))
    M(r'(^|::)Result::is_err$',m_is_variant(('Err',)))
    M(r'(^|::)Result::ok$',m_res_ok)
    M(r'(^|::)(Option|Result)::as_ref$',m_opt_as_ref)
    M(r'(^|::)(Option|Result)::as_mut$',m_opt_as_ref)
    M(r'(^|::)Option::as_deref$',m_opt_as_deref)
    M(r'(^|::)Option::cloned$',m_opt_cloned)
    M(r'(^|::)Option::take$',m_opt_take)
    M(r'(^|::)bool::(<impl bool>::)?then_some$',m_then_some)
    M(r'(^|::)bool::(<impl bool>::)?then$',lambda e,run,a,f: some(e.call_value(run,a[1],[])) if run.branch_bool(a[0],'then') else none())
    M(r'^must_use$',m_ident)
    M(r'^(std::boxed::)?Box::new$',m_box_new)
    M(r'^(std::boxed::)?Box::new_uninit$',m_box_uninit)
    M(r'box_assume_init_into_vec_unsafe$',m_box_assume_init_vec)
    M(r' as FnOnce<.*>>::call_once$',m_call_once)
    M(r' as FnMut<.*>>::call_mut$',m_call_once)
    M(r' as Fn<.*>>::call$',m_call_once)
    M(r'^std::mem::drop$',m_unit)
    M(r'^<.* as Drop>::drop$',m_unit)
    M(r'^std::hint::black_box$',m_ident)
    # conversions of std types
    M(r'^<&str as Into<std::string::String>>::into$',m_from_str_into_string)
    M(r'^<std::string::String as From<&str>>::from$',m_from_str_into_string)
    M(r'^<std::string::String as From<&std::string::String>>::from$',m_from_str_into_string)
    M(r'^<str as ToString>::to_string$',m_to_string)
    M(r'^<(std::string::)?String as ToString>::to_string$',m_to_string)
    M(r'^<(u8|u16|u32|u64|usize|i32|i64|char) as ToString>::to_string$',m_to_string)
    M(r'^<str as ToOwned>::to_owned$',m_str_to_owned)
    M(r'^<\[.*\] as ToOwned>::to_owned$',m_str_to_owned)
    M(r'^<(std::string::)?String as Deref>::deref$',m_string_deref)
    M(r'^<(std::string::)?String as AsRef<str>>::as_ref$',m_string_deref)
    M(r'^<str as AsRef<str>>::as_ref$',m_ident)
    M(r'^<(std::string::)?String as Borrow<str>>::borrow$',m_string_deref)
    M(r'^(std::string::)?String::as_str$',m_string_deref)
    M(r'^(std::string::)?String::as_bytes$',m_as_bytes)
    M(r'^(std::string::)?String::into_bytes$',m_into_bytes)
    M(r'^core::str::<impl str>::as_bytes$',m_as_bytes)
    M(r'^<(std::string::)?String as AsRef<\[u8\]>>::as_ref$',m_as_bytes)
    M(r'^<str as AsRef<\[u8\]>>::as_ref$',m_as_bytes)
    M(r'^<Vec<.*> as Deref>::deref$',m_vec_deref)
    M(r'^<Vec<.*> as DerefMut>::deref_mut$',m_vec_deref)
    M(r'^<Vec<.*> as AsRef<\[.*\]>>::as_ref$',m_vec_deref)
    M(r'^Vec::as_slice$',m_vec_deref)
    M(r'^<\[.*\] as AsRef<\[.*\]>>::as_ref$',m_ident)
    M(r'^<&.* as Into<&.*>>::into$',m_ident)
    M(r'^<(.*) as Into<\1>>::into$',m_ident)
    M(r'^<(.*) as From<\1>>::from$',m_ident)
    M(r'^<Vec<u8> as From<&\[u8\]>>::from$',m_to_vec)
    M(r'^<Vec<u8> as From<&str>>::from$',m_into_bytes)
    # strings / slices / vec
    M(r'^(std::string::)?String::new$',m_string_new)
    M(r'^(std::string::)?String::with_capacity$',m_string_with_capacity)
    M(r'^(std::string::)?String::push$',m_string_push)
    M(r'^(std::string::)?String::push_str$',m_string_push_str)
    M(r'^(std::string::)?String::(len)$',m_len)
    M(r'^(std::string::)?String::is_empty$',m_is_empty)
    M(r'^(std::string::)?String::from_utf8$',m_from_utf8)
    M(r'^((std::|core::)?str::)?from_utf8$',m_from_utf8)
    M(r'^core::str::<impl str>::len$',m_len)
    M(r'^core::str::<impl str>::is_empty$',m_is_empty)
    M(r'<impl str>::replace$',m_replace)
    M(r'<impl str>::starts_with$',m_starts_with)
    M(r'<impl str>::ends_with$',m_ends_with)
    M(r'<impl str>::strip_prefix$',m_strip_prefix)
    M(r'<impl \[.*\]>::strip_prefix$',m_strip_prefix)
    M(r'<impl \[.*\]>::starts_with$',m_starts_with)
    M(r'<impl str>::contains$',m_contains_str)
    M(r'<impl str>::trim_end_matches$',m_trim_end_matches)
    M(r'<impl str>::trim_start_matches$',m_trim_start_matches)
    M(r'<impl str>::parse$',m_str_parse)
    M(r'<impl str>::split_whitespace$',m_split_whitespace)
    M(r'<impl str>::split$',m_str_split_char); M(r'<impl str>::rsplit$',m_str_rsplit); M(r'<impl str>::split_terminator$',m_str_split_terminator); M(r'<impl str>::rsplit_once$',m_str_rsplit_once)
    M(r'<impl str>::to_string$',m_to_string)
    M(r'<impl str>::to_owned$',m_str_to_owned)
    M(r'<impl \[.*\]>::to_vec$',m_to_vec)
    M(r'<impl \[.*\]>::concat$',m_concat)
    M(r'<impl \[.*\]>::join$',m_join)
    M(r'<impl \[.*\]>::splitn$',m_splitn)
    M(r'<impl \[.*\]>::iter$',m_slice_iter)
    M(r'<impl \[.*\]>::iter_mut$',m_iter_mut)
    M(r'<impl \[.*\]>::len$',m_len)
    M(r'<impl \[.*\]>::is_empty$',m_is_empty)
    M(r'<impl \[.*\]>::contains$',m_contains_generic)
    M(r'<impl \[.*\]>::first$',m_vec_first)
    M(r'<impl \[.*\]>::last$',m_vec_last)
    M(r'<impl \[.*\]>::get$',m_vec_get)
    M(r'<impl \[.*\]>::sort$',m_vec_sort)
    M(r'<impl str>::get$',m_get_range)
    M(r' as (std::ops::)?Index<.*Range.*>>::index$',m_index_range)
    M(r'^<(Vec<.*>|\[.*\]) as (std::ops::)?Index(Mut)?<usize>>::index(_mut)?$',m_index_range)
    M(r'^Vec::new$',m_vec_new)
    M(r'^Vec::with_capacity$',m_vec_with_capacity)
    M(r'^Vec::push$',m_vec_push)
    M(r'^Vec::pop$',m_vec_pop)
    M(r'^Vec::len$',m_len)
    M(r'^Vec::is_empty$',m_is_empty)
    M(r'^Vec::append$',m_vec_append)
    M(r'^Vec::clear$',m_vec_clear)
    M(r'^Vec::extend_from_slice$',m_vec_extend_from_slice)
    M(r'^std::vec::from_elem$',m_from_elem)
    # iterators
    M(r' as IntoIterator>::into_iter$',m_into_iter)
    M(r' as Iterator>::map$',adaptor('map'))
    M(r' as Iterator>::filter$',adaptor('filter'))
    M(r' as Iterator>::filter_map$',adaptor('filter_map'))
    M(r' as Iterator>::cloned$',adaptor('cloned'))
    M(r' as Iterator>::copied$',adaptor('cloned'))
    M(r' as Iterator>::flatten$',adaptor('flatten'))
    M(r' as Iterator>::enumerate$',adaptor('enumerate'))
    M(r' as Iterator>::next$',m_next)
    M(r' as Iterator>::last$',m_last)
    M(r' as Iterator>::count$',m_count)
    M(r' as Iterator>::collect$',m_collect)
    M(r' as Iterator>::try_for_each$',m_try_for_each)
    M(r' as Iterator>::for_each$',m_for_each)
    M(r' as Iterator>::any$',m_any)
    M(r' as Iterator>::all$',m_all)
    M(r' as Iterator>::position$',m_position)
    M(r' as Iterator>::find$',m_find)
    M(r' as Iterator>::size_hint$',m_size_hint)
    M(r' as Extend<.*>>::extend$',m_extend)
    # maps / sets
    M(r'^(std::collections::)?HashMap::new$',m_map_new(False))
    M(r'^(std::collections::)?HashSet::new$',m_map_new(False,True))
    M(r'^<HashMap<.*> as Default>::default$',m_map_new(False))
    M(r'^BTreeMap::new$',m_map_new(True))
    M(r'^BTreeSet::new$',m_map_new(True,True))
    M(r'^<BTreeMap<.*> as Default>::default$',m_map_new(True))
    M(r'^(HashMap|BTreeMap|HashSet|BTreeSet)::insert$',m_map_insert)
    M(r'^(HashMap|BTreeMap|HashSet|BTreeSet)::get$',m_map_get)
    M(r'^(HashMap|BTreeMap)::get_mut$',m_map_get_mut)
    M(r'^(HashMap|BTreeMap|HashSet|BTreeSet)::remove$',m_map_remove)
    M(r'^(HashMap|BTreeMap)::contains_key$',m_map_contains)
    M(r'^(HashSet|BTreeSet)::contains$',m_map_contains)
    M(r'^(HashMap|BTreeMap|HashSet|BTreeSet)::len$',m_len)
    M(r'^(HashMap|BTreeMap|HashSet|BTreeSet)::is_empty$',m_is_empty)
    M(r'^(HashMap|BTreeMap|HashSet|BTreeSet)::iter$',m_map_iter)
    M(r'^(HashMap|BTreeMap)::keys$',m_map_keys)
    M(r'^(HashMap|BTreeMap)::values$',m_map_values)
    M(r'^(HashMap|BTreeMap)::values_mut$',m_map_values)
    M(r'^(HashMap|BTreeMap)::into_values$',m_map_into_values)
    M(r'^(HashMap|BTreeMap)::into_keys$',m_map_into_keys)
    M(r'^(HashSet|BTreeSet)::difference$',m_set_difference)
    M(r'^(HashSet|BTreeSet)::symmetric_difference$',m_set_symmetric_difference); M(r'^(HashSet|BTreeSet)::union$',m_set_union)
    M(r'^(HashSet|BTreeSet)::is_disjoint$',m_set_is_disjoint); M(r'^(HashSet|BTreeSet)::is_superset$',m_set_is_superset)
    M(r'^(std::collections::)?HashMap::with_capacity$',lambda e,run,a,f: m_map_new(False)(e,run,[],f)); M(r'^(std::collections::)?HashSet::with_capacity$',lambda e,run,a,f: m_map_new(False,True)(e,run,[],f))
    M(r'^(HashSet|BTreeSet)::intersection$',m_set_intersection)
    M(r'^(HashSet|BTreeSet)::is_subset$',m_set_is_subset)
    M(r'^<(HashMap|BTreeMap)<.*> as (std::ops::)?Index<.*>>::index$',m_map_index)
    # clone / eq / ord of std types (in-crate impls are resolved before models)
    M(r' as Clone>::clone$',m_clone)
    M(r' as PartialEq(<.*>)?>::eq$',m_eq)
    M(r' as PartialEq(<.*>)?>::ne$',m_ne)
    M(r' as Ord>::cmp$',m_cmp)
    M(r' as PartialOrd(<.*>)?>::partial_cmp$',m_partial_cmp)
    M(r'^<Level as PartialOrd<LevelFilter>>::le$',m_level_le)
    M(r' as PartialOrd(<.*>)?>::lt$',m_lt('Lt'))
    M(r' as PartialOrd(<.*>)?>::le$',m_lt('Le'))
    M(r' as PartialOrd(<.*>)?>::gt$',m_lt('Gt'))
    M(r' as PartialOrd(<.*>)?>::ge$',m_lt('Ge'))
    # formatting / logging
    M(r'^core::fmt::rt::Argument::new_display$',m_arg_new('display'))
    M(r'^core::fmt::rt::Argument::new_debug$',m_arg_new('debug'))
    M(r'^core::fmt::rt::Argument::new_lower_hex$',m_arg_new('lower_hex')); M(r'^core::fmt::rt::Argument::new_upper_hex$',m_arg_new('upper_hex'))
    M(r'^(std::fmt::)?Arguments::new$',m_arguments_new)
    M(r'^(std::fmt::)?Arguments::from_str$',m_arguments_from_str)
    M(r'^std::fmt::format$',m_fmt_format)
    M(r'^alloc::fmt::format$',m_fmt_format)
    M(r'thiserror::.*AsDisplay.*::as_display$',m_as_display)
    M(r'^(log::)?max_level$',m_max_level)
    M(r'^log::__private_api::(loc|log)$',m_unit)
    # paths
    M(r'^PathBuf::new$',m_pathbuf_new)
    M(r'^<PathBuf as From<.*>>::from$',m_pathbuf_from)
    M(r'^PathBuf::push$',m_pathbuf_push)
    M(r'^<PathBuf as Deref>::deref$',m_path_deref)
    M(r'^<PathBuf as AsRef<Path>>::as_ref$',m_path_deref)
    M(r'^Path::new$',m_path_new)
    M(r'^Path::join$',m_path_join)
    M(r'^Path::to_str$',m_path_to_str)
    M(r'^Path::to_string_lossy$',m_path_to_string_lossy)
    M(r'^PathBuf::into_os_string$',m_into_os_string)
    M(r'^OsString::into_string$',m_os_into_string)
    M(r'^<Cow<.*str> as Deref>::deref$',m_cow_deref)
    M(r'^<Cow<.*str> as ToString>::to_string$',m_cow_to_string)
    M(r'^path_clean::clean$|^clean$',m_path_clean)
    # glob
    M(r'^(glob::)?Pattern::new$',m_glob_new)
    M(r'^(glob::)?Pattern::matches$',m_glob_matches)

# ----------------------------------------------------------------------------- Formatter (used by in-crate Display impls)
def m_fmt_write_str(e,run,a,f):
    fm=deref(a[0]); s=deref(a[1]); fm.p.b.extend(s.b); fm.p.taint=fm.p.taint or s.taint
    return ok(UNIT)
def m_fmt_write_fmt(e,run,a,f):
    fm=deref(a[0]); bl,t=render_args(e,run,a[1]); fm.p.b.extend(bl); fm.p.taint=fm.p.taint or t
    return ok(UNIT)
def m_display_fmt_std(e,run,a,f):
    fm=deref(a[1]); bl,t=e.fmt_value(run,'display',a[0]); fm.p.b.extend(bl); fm.p.taint=fm.p.taint or t
    return ok(UNIT)
def register_fmt(E):
    M=E.model
    M(r'^(std::fmt::)?Formatter::write_str$',m_fmt_write_str)
    M(r'^(std::fmt::)?Formatter::write_fmt$',m_fmt_write_fmt)
    M(r'^<(str|std::string::String|String|u8|u32|u64|usize|i32|i64) as (std::fmt::)?Display>::fmt$',m_display_fmt_std)
_old_register_all=register_all
def register_all(E):
    _old_register_all(E); register_fmt(E)

# ----------------------------------------------------------------------------- chrono (DateTime<Utc> = (secs: i64, nanos: u32) absolute UTC instant)
def dt_cmp_term(a,b,op):
    a=deref(a); b=deref(b)
    s1,n1=a.f[0].z(),a.f[1].z(); s2,n2=b.f[0].z(),b.f[1].z()
    lt=z3.Or(s1<s2,z3.And(s1==s2,z3.ULT(n1,n2)))
    eq=z3.And(s1==s2,n1==n2)
    return {'lt':lt,'le':z3.Or(lt,eq),'gt':z3.Not(z3.Or(lt,eq)),'ge':z3.Not(lt),'eq':eq,'ne':z3.Not(eq)}[op]
def m_dt_cmp(op):
    def m(e,run,a,f): return Bool(dt_cmp_term(a[0],a[1],op))
    return m
def m_dt_clone(e,run,a,f): return copy_val(deref(a[0]))
# ----------------------------------------------------------------------------- more paths
def m_path_file_name(e,run,a,f):
    bl=pb_bytes(a[0]); c=need_conc(bl,'file_name')
    c=c.rstrip(b'/')
    if not c: return none()
    name=c.split(b'/')[-1]
    if name in (b'..',): return none()
    if name==b'.': return none()
    return some(Ref(Cell(Agg('OsStr',[StringO(list(name))]))))
def m_osstr_to_str(e,run,a,f):
    bl=pb_bytes(a[0]); okv,_=utf8_valid(run,bl)
    return some(Ref(Cell(Str(bl)))) if okv else none()
def register_ext(E):
    M=E.model
    for op in ('lt','le','gt','ge'):
        M(r'^<DateTime<.*> as PartialOrd(<.*>)?>::%s$'%op,m_dt_cmp(op))
    M(r'^<DateTime<.*> as PartialEq(<.*>)?>::eq$',m_dt_cmp('eq'))
    M(r'^<DateTime<.*> as PartialEq(<.*>)?>::ne$',m_dt_cmp('ne'))
    M(r'^<DateTime<.*> as Clone>::clone$',m_dt_clone)
    M(r'^Path::file_name$',m_path_file_name)
    M(r'^OsStr::to_str$',m_osstr_to_str)
_old_register_all2=register_all
def register_all(E):
    register_ext(E); _old_register_all2(E)

# ----------------------------------------------------------------------------- Default
def m_default(e,run,a,f):
    m=re.match(r'^<(.*) as Default>::default$',strip_t(f))
    t=m.group(1) if m else ''
    if re.match(r'^(std::vec::)?Vec<',t): return VecO([])
    if re.match(r'^(std::string::)?String$',t): return StringO([])
    if re.match(r'^(std::collections::)?(hash_map::)?HashMap<',t): return MapO(False)
    if re.match(r'^(std::collections::)?BTreeMap<',t): return MapO(True)
    if re.match(r'^(std::collections::)?HashSet<',t): return MapO(False,True)
    if re.match(r'^(std::collections::)?BTreeSet<',t): return MapO(True,True)
    if re.match(r'^(std::option::)?Option<',t): return none()
    if t in ('u8','u16','u32','u64','usize'): return Int({'u8':8,'u16':16,'u32':32,'u64':64,'usize':64}[t],False,0)
    if t in ('i8','i16','i32','i64','isize'): return Int({'i8':8,'i16':16,'i32':32,'i64':64,'isize':64}[t],True,0)
    if t=='bool': return Bool(False)
    raise Unsupported('Default for '+t)
def register_default(E): E.model(r' as Default>::default$',m_default)
_old_register_all3=register_all
def register_all(E):
    _old_register_all3(E); register_default(E)

# ----------------------------------------------------------------------------- more Vec / slice / iterator / Option methods
def _cmp_from_ordering(o):
    o=deref(o); return {'Less':-1,'Equal':0,'Greater':1}[o.vname]
def m_sort_by(e,run,a,f):
    import functools
    d=deref(a[0])
    d.items.sort(key=functools.cmp_to_key(lambda x,y: _cmp_from_ordering(e.call_value(run,a[1],[Ref(Cell(x)),Ref(Cell(y))]))))
    return UNIT
def m_sort_by_key(e,run,a,f):
    import functools
    d=deref(a[0])
    keyed=[(e.call_value(run,a[1],[Ref(Cell(x))]),x) for x in d.items]
    keyed.sort(key=functools.cmp_to_key(lambda p,q: val_cmp(run,p[0],q[0])))
    d.items=[x for _,x in keyed]; return UNIT
def m_dedup(e,run,a,f):
    d=deref(a[0]); out=[]
    for x in d.items:
        if out and run.branch_bool(e.eq(run,out[-1],x),'dedup'): continue
        out.append(x)
    d.items=out; return UNIT
def m_dedup_by_key(e,run,a,f):
    d=deref(a[0]); out=[]; lastk=None
    for x in d.items:
        k=e.call_value(run,a[1],[Ref(Cell(x))])
        if out and run.branch_bool(val_eq(lastk,k),'dedup'): continue
        out.append(x); lastk=k
    d.items=out; return UNIT
def m_dedup_by(e,run,a,f):
    d=deref(a[0]); out=[]
    for x in d.items:
        if out and run.branch_bool(e.call_value(run,a[1],[Ref(Cell(x)),Ref(Cell(out[-1]))]),'dedup'): continue
        out.append(x)
    d.items=out; return UNIT
def m_retain(e,run,a,f):
    d=deref(a[0])
    if isinstance(d,VecO):
        d.items=[x for x in d.items if run.branch_bool(e.call_value(run,a[1],[Ref(Cell(x))]),'retain')]
    else:
        d.e=[ent for ent in d.e if run.branch_bool(e.call_value(run,a[1],[Ref(ent,0)] if d.is_set else [Ref(ent,0),Ref(ent,1)]),'retain')]
    return UNIT
def m_contains_generic(e,run,a,f):
    d=deref(a[0])
    for x in d.items:
        if run.branch_bool(e.eq(run,x,a[1]),'contains'): return Bool(True)
    return Bool(False)
def m_vec_insert(e,run,a,f):
    d=deref(a[0]); i=deref(a[1])
    if not i.conc(): raise Unsupported('insert symbolic index')
    if i.v>len(d.items): raise Panic('insertion index out of bounds','index')
    d.items.insert(i.v,a[2]); return UNIT
def m_vec_remove(e,run,a,f):
    d=deref(a[0]); i=deref(a[1])
    if not i.conc(): raise Unsupported('remove symbolic index')
    if i.v>=len(d.items): raise Panic('removal index out of bounds','index')
    return d.items.pop(i.v)
def m_vec_truncate(e,run,a,f):
    d=deref(a[0]); n=deref(a[1])
    if not n.conc(): raise Unsupported('truncate symbolic')
    if isinstance(d,VecO): d.items=d.items[:n.v]
    else: d.b=d.b[:n.v]
    return UNIT
def m_vec_reverse(e,run,a,f): deref(a[0]).items.reverse(); return UNIT
def m_vec_swap_remove(e,run,a,f):
    d=deref(a[0]); i=deref(a[1])
    if i.v>=len(d.items): raise Panic('swap_remove index out of bounds','index')
    x=d.items[i.v]; d.items[i.v]=d.items[-1]; d.items.pop(); return x
def m_vec_drain_all(e,run,a,f):
    d=deref(a[0]); xs=list(d.items); d.items=[]; return Iter(xs)
def m_split_at(e,run,a,f):
    d=deref(a[0]); i=deref(a[1])
    n=e.len_of(d)
    if not i.conc():
        k=concretize_small(run,i,n)
        if k is None: raise Panic('split_at mid > len','slice')
        i=Int(i.w,i.s,k)
    if i.v>n: raise Panic('split_at mid > len','slice')
    if isinstance(d,VecO): return Agg('()',[Ref(Cell(VecO(d.items[:i.v]))),Ref(Cell(VecO(d.items[i.v:])))])
    return Agg('()',[Ref(Cell(Str(d.b[:i.v],d.is_str if isinstance(d,Str) else True))),Ref(Cell(Str(d.b[i.v:],d.is_str if isinstance(d,Str) else True)))])
def m_iter_rev(e,run,a,f):
    it=to_iter(e,run,a[0]); xs=drain(e,run,it); xs.reverse(); return Iter(xs)
def m_iter_take(e,run,a,f):
    it=to_iter(e,run,a[0]); n=deref(a[1])
    if not n.conc():
        # symbolic count: fork over the values that matter (0..remaining), anything larger takes everything
        rem=it.back-it.pos
        k=concretize_small(run,n,rem)
        n=Int(64,False,rem if k is None else k)
    xs=[]
    for _ in range(n.v):
        x=iter_next(e,run,it)
        if x is None: break
        xs.append(x)
    return Iter(xs)
def m_iter_skip(e,run,a,f):
    it=to_iter(e,run,a[0]); n=deref(a[1])
    if not n.conc():
        rem=it.back-it.pos
        k=concretize_small(run,n,rem)
        n=Int(64,False,rem if k is None else k)
    for _ in range(n.v):
        if iter_next(e,run,it) is None: break
    return it
def m_iter_take_while(e,run,a,f):
    it=to_iter(e,run,a[0]); xs=[]
    while True:
        x=iter_next(e,run,it)
        if x is None or not run.branch_bool(e.call_value(run,a[1],[Ref(Cell(x))]),'take_while'): break
        xs.append(x)
    return Iter(xs)
def m_iter_skip_while(e,run,a,f):
    it=to_iter(e,run,a[0]); xs=[]; skipping=True
    while True:
        x=iter_next(e,run,it)
        if x is None: break
        if skipping and run.branch_bool(e.call_value(run,a[1],[Ref(Cell(x))]),'skip_while'): continue
        skipping=False; xs.append(x)
    return Iter(xs)
def m_iter_chain(e,run,a,f):
    xs=drain(e,run,to_iter(e,run,a[0]))+drain(e,run,to_iter(e,run,a[1])); return Iter(xs)
def m_iter_zip(e,run,a,f):
    x=drain(e,run,to_iter(e,run,a[0])); y=drain(e,run,to_iter(e,run,a[1]))
    return Iter([tuple2(p,q) for p,q in zip(x,y)])
def m_iter_nth(e,run,a,f):
    it=to_iter(e,run,a[0]); n=deref(a[1])
    if not n.conc(): raise Unsupported('nth symbolic')
    x=None
    for _ in range(n.v+1):
        x=iter_next(e,run,it)
        if x is None: return none()
    return some(x)
def m_iter_fold(e,run,a,f):
    it=to_iter(e,run,a[0]); acc=a[1]
    while True:
        x=iter_next(e,run,it)
        if x is None: return acc
        acc=e.call_value(run,a[2],[acc,x])
def m_iter_min_max(which):
    def m(e,run,a,f):
        xs=drain(e,run,any_order(e,run,a[0]))
        if not xs: return none()
        best=xs[0]
        for x in xs[1:]:
            c=val_cmp(run,x,best)
            if (which=='min' and c<0) or (which=='max' and c>=0): best=x
        return some(best)
    return m
def m_iter_min_max_by_key(which):
    def m(e,run,a,f):
        xs=drain(e,run,to_iter(e,run,a[0]))
        if not xs: return none()
        best=xs[0]; bk=e.call_value(run,a[1],[Ref(Cell(best))])
        for x in xs[1:]:
            k=e.call_value(run,a[1],[Ref(Cell(x))]); c=val_cmp(run,k,bk)
            if (which=='min' and c<0) or (which=='max' and c>=0): best=x; bk=k
        return some(best)
    return m
def m_iter_find_map(e,run,a,f):
    it=to_iter(e,run,a[0])
    while True:
        x=iter_next(e,run,it)
        if x is None: return none()
        r=e.call_value(run,a[1],[x])
        if r.vname=='Some': return r
def m_iter_sum(e,run,a,f):
    xs=drain(e,run,to_iter(e,run,a[0]))
    if not xs: return Int(64,False,0)
    acc=deref(xs[0])
    for x in xs[1:]: acc=e.binop('Add',acc,deref(x))
    return acc
def m_iter_peekable(e,run,a,f):
    xs=drain(e,run,to_iter(e,run,a[0])); return Iter(xs)
def m_iter_peek(e,run,a,f):
    it=deref(a[0])
    if it.adapt or it.inner is not None: raise Unsupported('peek on adapted iterator')
    if it.pos>=it.back: return none()
    return some(Ref(it.items,it.pos))
def m_iter_next_back(e,run,a,f):
    it=deref(a[0])
    if it.adapt or it.inner is not None:
        xs=drain(e,run,it); it.items=xs; it.pos=0; it.back=len(xs); it.adapt=[]
    if it.pos>=it.back: return none()
    it.back-=1; return some(it.items[it.back])
def m_iter_by_ref(e,run,a,f): return a[0]
def m_opt_filter(e,run,a,f):
    r=a[0]
    if r.vname=='None': return r
    return r if run.branch_bool(e.call_value(run,a[1],[Ref(r,0)]),'optfilter') else none()
def m_opt_is_some_and(e,run,a,f):
    r=a[0]
    if r.vname in('None','Err'): return Bool(False)
    return e.call_value(run,a[1],[r.f[0]])
def m_opt_map_or(e,run,a,f):
    r=a[0]
    if r.vname in('None','Err'): return a[1]
    return e.call_value(run,a[2],[r.f[0]])
def m_opt_map_or_else(e,run,a,f):
    r=a[0]
    if r.vname=='None': return e.call_value(run,a[1],[])
    if r.vname=='Err': return e.call_value(run,a[1],[r.f[0]])
    return e.call_value(run,a[2],[r.f[0]])
def m_opt_or(e,run,a,f): return a[0] if a[0].vname in('Some','Ok') else a[1]
def m_opt_and(e,run,a,f): return a[1] if a[0].vname in('Some','Ok') else a[0]
def m_opt_xor(e,run,a,f):
    x,y=a[0],a[1]
    if x.vname=='Some' and y.vname=='None': return x
    if y.vname=='Some' and x.vname=='None': return y
    return none()
def m_opt_zip(e,run,a,f):
    if a[0].vname=='Some' and a[1].vname=='Some': return some(tuple2(a[0].f[0],a[1].f[0]))
    return none()
def m_opt_get_or_insert_with(e,run,a,f):
    r=a[0]; v=r.get()
    if v.vname=='None':
        v=some(e.call_value(run,a[1],[])); r.set(v)
    return Ref(v,0)
def m_opt_replace(e,run,a,f):
    r=a[0]; old=r.get(); r.set(some(a[1])); return old
def m_res_err(e,run,a,f):
    r=a[0]; return some(r.f[0]) if r.vname=='Err' else none()
def m_res_unwrap_err(e,run,a,f):
    r=a[0]
    if r.vname=='Err': return r.f[0]
    raise Panic('unwrap_err on Ok','unwrap')
def m_opt_ok_or_transpose(e,run,a,f):
    r=a[0]
    if r.vname=='None': return ok(none())
    inner=r.f[0]
    if inner.vname=='Ok': return ok(some(inner.f[0]))
    return inner
def m_mem_replace(e,run,a,f):
    r=a[0]; old=r.get(); r.set(a[1]); return old
def m_mem_swap(e,run,a,f):
    x=a[0].get(); a[0].set(a[1].get()); a[1].set(x); return UNIT
def m_mem_take(e,run,a,f):
    r=a[0]; old=r.get()
    if isinstance(old,VecO): r.set(VecO([]))
    elif isinstance(old,StringO): r.set(StringO([]))
    elif isinstance(old,MapO): r.set(MapO(old.ordered,old.is_set))
    elif isinstance(old,Agg) and old.ty=='Option': r.set(none())
    else: raise Unsupported('mem::take of '+repr(old)[:40])
    return old
def m_min_max(which):
    def m(e,run,a,f):
        c=val_cmp(run,a[0],a[1])
        if which=='min': return a[0] if c<=0 else a[1]
        return a[1] if c<=0 else a[0]
    return m
def m_str_chars(e,run,a,f):
    bl=byte_list(a[0]); c=conc_bytes(bl)
    if c is not None: return Iter([Char(ord(ch)) for ch in c.decode()])
    # symbolic content: split at character boundaries (forks on the class of each lead byte);
    # a symbolic character is carried as the Str of its UTF-8 bytes
    out=[]; i=0; n=len(bl)
    def rng(x,lo,hi):
        if isinstance(x,int): return lo<=x<=hi
        return run.branch_bool(Bool(z3.And(z3.UGE(x,lo),z3.ULE(x,hi))),'chars')
    while i<n:
        x=bl[i]
        if rng(x,0,0x7f): k=1
        elif rng(x,0xc0,0xdf): k=2
        elif rng(x,0xe0,0xef): k=3
        else: k=4
        seg=bl[i:i+k]; i+=k
        cs=conc_bytes(seg)
        out.append(Char(ord(cs.decode())) if cs is not None else Str(seg))
    return Iter(out)
def m_str_bytes(e,run,a,f): return Iter([Int(8,False,x) for x in byte_list(a[0])])
def m_str_trim(kind):
    def m(e,run,a,f):
        bl=byte_list(a[0]); c=conc_bytes(bl)
        if c is None: raise Unsupported('trim on symbolic string')
        s=c.decode(); s={'trim':s.strip(),'trim_start':s.lstrip(),'trim_end':s.rstrip()}[kind]
        return Ref(Cell(Str(list(s.encode()))))
    return m
def m_str_case(kind):
    def m(e,run,a,f):
        bl=byte_list(a[0]); c=conc_bytes(bl)
        if c is None:
            # symbolic bytes: ASCII letters are shifted, every other byte (incl. parts of multi-byte characters for the ascii variants) stays
            out=[]
            for x in bl:
                if isinstance(x,int): out.append((x+32 if 0x41<=x<=0x5a else x) if kind in ('lower','alower') else (x-32 if 0x61<=x<=0x7a else x)); continue
                if kind in ('lower','upper') and not (allowed(x) is not None and all(v<0x80 for v in allowed(x))):
                    if not run.branch_bool(Bool(z3.ULT(x,0x80)),'case.ascii'): raise Unsupported('Unicode case conversion of a symbolic non-ASCII character')
                if kind in ('lower','alower'): out.append(z3.simplify(z3.If(z3.And(z3.UGE(x,0x41),z3.ULE(x,0x5a)),x+32,x)))
                else: out.append(z3.simplify(z3.If(z3.And(z3.UGE(x,0x61),z3.ULE(x,0x7a)),x-32,x)))
            return StringO(out)
        s=c.decode(); s={'lower':s.lower(),'upper':s.upper(),'alower':''.join(ch.lower() if ord(ch)<128 else ch for ch in s),'aupper':''.join(ch.upper() if ord(ch)<128 else ch for ch in s)}[kind]
        return mk_string(s)
    return m
def m_str_find(e,run,a,f):
    sb=byte_list(a[0]); pb=pat_bytes(a[1])
    for i in range(0,len(sb)-len(pb)+1):
        if run.branch_bool(bytes_eq(sb[i:i+len(pb)],pb),'find'): return some(Int(64,False,i))
    return none()
def m_str_rfind(e,run,a,f):
    sb=byte_list(a[0]); pb=pat_bytes(a[1])
    for i in range(len(sb)-len(pb),-1,-1):
        if run.branch_bool(bytes_eq(sb[i:i+len(pb)],pb),'rfind'): return some(Int(64,False,i))
    return none()
def m_strip_suffix(e,run,a,f):
    s=deref(a[0]); pb=pat_bytes(a[1]); sb=byte_list(s)
    if len(pb)<=len(sb) and run.branch_bool(bytes_eq(sb[len(sb)-len(pb):],pb),'strip_suffix'):
        return some(Ref(Cell(Str(sb[:len(sb)-len(pb)],getattr(s,'is_str',True)))))
    return none()
def m_split_once(e,run,a,f):
    sb=byte_list(a[0]); pb=pat_bytes(a[1])
    for i in range(0,len(sb)-len(pb)+1):
        if run.branch_bool(bytes_eq(sb[i:i+len(pb)],pb),'split_once'):
            return some(tuple2(Ref(Cell(Str(sb[:i]))),Ref(Cell(Str(sb[i+len(pb):])))))
    return none()
def m_is_char_boundary(e,run,a,f):
    i=deref(a[1])
    if not i.conc(): raise Unsupported('is_char_boundary symbolic')
    return Bool(is_char_boundary(run,byte_list(a[0]),i.v))
def m_char_pred(fn):
    def m(e,run,a,f):
        c=deref(a[0])
        if isinstance(c,Char): return Bool(fn(chr(c.v)))
        if isinstance(c,Int) and c.conc(): return Bool(fn(chr(c.v)))
        raise Unsupported('char predicate on symbolic')
    return m
def m_saturating(op):
    def m(e,run,a,f):
        x,y=deref(a[0]),deref(a[1])
        r=e.binop(op+'WithOverflow',x,y)
        val,ov=r.f
        if ov.conc():
            if not ov.v: return val
            if op=='Sub' and not x.s: return Int(x.w,x.s,0)
            if op in ('Add','Mul') and not x.s: return Int(x.w,x.s,(1<<x.w)-1)
            raise Unsupported('saturating signed')
        if x.s: raise Unsupported('saturating signed symbolic')
        sat=z3.BitVecVal(0 if op=='Sub' else (1<<x.w)-1,x.w)
        return Int(x.w,x.s,z3.If(ov.v,sat,val.z()))
    return m
def m_checked(op):
    def m(e,run,a,f):
        x,y=deref(a[0]),deref(a[1])
        r=e.binop(op+'WithOverflow',x,y); val,ov=r.f
        if run.branch_bool(ov,'checked'): return none()
        return some(val)
    return m
def m_wrapping(op):
    def m(e,run,a,f): return e.binop(op,deref(a[0]),deref(a[1]))
    return m
def register_more(E):
    M=E.model
    M(r'<impl \[.*\]>::sort_by$',m_sort_by); M(r'<impl \[.*\]>::sort_unstable_by$',m_sort_by)
    M(r'<impl \[.*\]>::sort_by_key$',m_sort_by_key); M(r'<impl \[.*\]>::sort_unstable_by_key$',m_sort_by_key)
    M(r'<impl \[.*\]>::sort_unstable$',m_vec_sort)
    M(r'^Vec::dedup$',m_dedup); M(r'^Vec::dedup_by_key$',m_dedup_by_key); M(r'^Vec::dedup_by$',m_dedup_by)
    M(r'^(Vec|HashMap|BTreeMap|HashSet|BTreeSet)::retain$',m_retain)
    M(r'^Vec::insert$',m_vec_insert); M(r'^Vec::remove$',m_vec_remove); M(r'^Vec::truncate$',m_vec_truncate); M(r'^(std::string::)?String::truncate$',m_vec_truncate)
    M(r'<impl \[.*\]>::reverse$',m_vec_reverse); M(r'^Vec::swap_remove$',m_vec_swap_remove)
    M(r'<impl \[.*\]>::split_at$',m_split_at); M(r'<impl str>::split_at$',m_split_at)
    M(r' as Iterator>::rev$',m_iter_rev); M(r' as Iterator>::take$',m_iter_take); M(r' as Iterator>::skip$',m_iter_skip)
    M(r' as Iterator>::take_while$',m_iter_take_while); M(r' as Iterator>::skip_while$',m_iter_skip_while)
    M(r' as Iterator>::chain$',m_iter_chain); M(r' as Iterator>::zip$',m_iter_zip); M(r' as Iterator>::nth$',m_iter_nth)
    M(r' as Iterator>::fold$',m_iter_fold); M(r' as Iterator>::min$',m_iter_min_max('min')); M(r' as Iterator>::max$',m_iter_min_max('max'))
    M(r' as Iterator>::min_by_key$',m_iter_min_max_by_key('min')); M(r' as Iterator>::max_by_key$',m_iter_min_max_by_key('max'))
    M(r' as Iterator>::find_map$',m_iter_find_map); M(r' as Iterator>::sum$',m_iter_sum)
    M(r' as Iterator>::peekable$',m_iter_peekable); M(r'Peekable<.*>::peek$',m_iter_peek)
    M(r' as DoubleEndedIterator>::next_back$',m_iter_next_back); M(r' as Iterator>::by_ref$',m_iter_by_ref)
    M(r'(^|::)Option::filter$',m_opt_filter); M(r'(^|::)(Option::is_some_and|Result::is_ok_and)$',m_opt_is_some_and)
    M(r'(^|::)Option::is_none_or$',lambda e,run,a,f: Bool(True) if a[0].vname=='None' else e.call_value(run,a[1],[a[0].f[0]]))
    M(r'(^|::)(Option|Result)::map_or$',m_opt_map_or); M(r'(^|::)(Option|Result)::map_or_else$',m_opt_map_or_else)
    M(r'(^|::)(Option|Result)::or$',m_opt_or); M(r'(^|::)(Option|Result)::and$',m_opt_and); M(r'(^|::)Option::xor$',m_opt_xor)
    M(r'(^|::)Option::zip$',m_opt_zip); M(r'(^|::)Option::get_or_insert_with$',m_opt_get_or_insert_with); M(r'(^|::)Option::replace$',m_opt_replace)
    M(r'(^|::)Option::copied$',m_opt_cloned); M(r'(^|::)Option::unwrap_or_default$',m_unwrap_or_default)
    M(r'(^|::)Result::err$',m_res_err); M(r'(^|::)Result::(unwrap_err|expect_err)$',m_res_unwrap_err)
    M(r'(^|::)Option::transpose$',m_opt_ok_or_transpose)
    M(r'(^|::)Option::iter$',m_into_iter)
    M(r'^std::mem::replace$',m_mem_replace); M(r'^std::mem::swap$',m_mem_swap); M(r'^std::mem::take$',m_mem_take)
    M(r'^std::cmp::min$|as Ord>::min$',m_min_max('min')); M(r'^std::cmp::max$|as Ord>::max$',m_min_max('max'))
    M(r'<impl str>::chars$',m_str_chars); M(r'<impl str>::bytes$',m_str_bytes)
    M(r'<impl str>::trim$',m_str_trim('trim')); M(r'<impl str>::trim_start$',m_str_trim('trim_start')); M(r'<impl str>::trim_end$',m_str_trim('trim_end'))
    M(r'<impl str>::to_lowercase$',m_str_case('lower')); M(r'<impl str>::to_uppercase$',m_str_case('upper'))
    M(r'<impl str>::to_ascii_lowercase$',m_str_case('alower')); M(r'<impl str>::to_ascii_uppercase$',m_str_case('aupper'))
    M(r'<impl str>::find$',m_str_find); M(r'<impl str>::rfind$',m_str_rfind)
    M(r'<impl str>::strip_suffix$',m_strip_suffix); M(r'<impl \[.*\]>::strip_suffix$',m_strip_suffix); M(r'<impl str>::split_once$',m_split_once)
    M(r'<impl \[.*\]>::ends_with$',m_ends_with)
    M(r'<impl str>::is_char_boundary$',m_is_char_boundary)
    M(r'<impl char>::is_ascii_digit$|<impl u8>::is_ascii_digit$',m_char_pred(lambda c: c in '0123456789'))
    M(r'<impl char>::is_ascii_hexdigit$|<impl u8>::is_ascii_hexdigit$',m_char_pred(lambda c: c in '0123456789abcdefABCDEF'))
    M(r'<impl char>::is_alphanumeric$',m_char_pred(lambda c: c.isalnum())); M(r'<impl char>::is_whitespace$',m_char_pred(lambda c: c.isspace()))
    M(r'<impl char>::is_ascii$|<impl u8>::is_ascii$',m_char_pred(lambda c: ord(c)<128))
    for w in ('u8','u16','u32','u64','usize'):
        M(r'<impl %s>::saturating_sub$'%w,m_saturating('Sub')); M(r'<impl %s>::saturating_add$'%w,m_saturating('Add'))
        M(r'<impl %s>::checked_sub$'%w,m_checked('Sub')); M(r'<impl %s>::checked_add$'%w,m_checked('Add')); M(r'<impl %s>::checked_mul$'%w,m_checked('Mul'))
        M(r'<impl %s>::wrapping_sub$'%w,m_wrapping('Sub')); M(r'<impl %s>::wrapping_add$'%w,m_wrapping('Add'))
        M(r'<impl %s>::saturating_mul$'%w,m_saturating('Mul')); M(r'<impl %s>::wrapping_mul$'%w,m_wrapping('Mul'))
def _zi(x): return z3.BitVecVal(x.v,x.w) if x.conc() else x.v
def _mki(w,s,t):
    t=z3.simplify(t)
    return Int(w,s,t.as_long()) if z3.is_bv_value(t) else Int(w,s,t)
def m_int_abs(kind):
    # kind: abs (panics / wraps on MIN like the release build: overflow checks are on in the dump, so `abs` of MIN panics),
    # unsigned_abs, saturating_abs, wrapping_abs, checked_abs, wrapping_neg, checked_neg, saturating_neg
    def m(e,run,a,f):
        x=deref(a[0]); w=x.w; v=_zi(x); MIN=z3.BitVecVal(1<<(w-1),w); MAX=z3.BitVecVal((1<<(w-1))-1,w)
        is_min=Bool(z3.simplify(v==MIN)); neg=z3.If(v<0,-v,v)
        if kind=='unsigned_abs': return _mki(w,False,neg)
        if kind=='wrapping_abs': return _mki(w,True,neg)
        if kind=='saturating_abs': return _mki(w,True,z3.If(v==MIN,MAX,neg))
        if kind=='wrapping_neg': return _mki(w,x.s,-v)
        if kind=='saturating_neg': return _mki(w,True,z3.If(v==MIN,MAX,-v))
        if kind in ('checked_abs','checked_neg'):
            if run.branch_bool(is_min,'int.is_min'): return none()
            return some(_mki(w,True,neg if kind=='checked_abs' else -v))
        if kind=='abs':
            if run.branch_bool(is_min,'int.is_min'): raise Panic('attempt to negate with overflow')
            return _mki(w,True,neg)
        raise Unsupported(kind)
    return m
def m_int_signum(e,run,a,f):
    x=deref(a[0]); v=_zi(x); return _mki(x.w,True,z3.If(v<0,z3.BitVecVal(-1,x.w),z3.If(v==0,z3.BitVecVal(0,x.w),z3.BitVecVal(1,x.w))))
def m_int_sign(which):
    def m(e,run,a,f):
        x=deref(a[0]); v=_zi(x); t=z3.simplify(v<0 if which=='neg' else v>0)
        return Bool(z3.is_true(t)) if (z3.is_true(t) or z3.is_false(t)) else Bool(t)
    return m
def m_int_abs_diff(e,run,a,f):
    x,y=deref(a[0]),deref(a[1]); u,v=_zi(x),_zi(y)
    lt=(u<v) if x.s else z3.ULT(u,v)
    return _mki(x.w,False,z3.If(lt,v-u,u-v))
def m_signed_saturating(op):
    def m(e,run,a,f):
        x,y=deref(a[0]),deref(a[1]); w=x.w; u,v=z3.SignExt(1,_zi(x)),z3.SignExt(1,_zi(y))
        r=u+v if op=='Add' else u-v
        MIN=z3.BitVecVal(-(1<<(w-1)),w+1); MAX=z3.BitVecVal((1<<(w-1))-1,w+1)
        return _mki(w,True,z3.Extract(w-1,0,z3.If(r<MIN,MIN,z3.If(r>MAX,MAX,r))))
    return m
def register_int_more(E):
    M=E.model
    for w in ('i8','i16','i32','i64','i128','isize'):
        for k in ('abs','unsigned_abs','saturating_abs','wrapping_abs','checked_abs','wrapping_neg','checked_neg','saturating_neg'):
            M(r'<impl %s>::%s$'%(w,k),m_int_abs(k))
        M(r'<impl %s>::signum$'%w,m_int_signum); M(r'<impl %s>::is_negative$'%w,m_int_sign('neg')); M(r'<impl %s>::is_positive$'%w,m_int_sign('pos'))
        M(r'<impl %s>::abs_diff$'%w,m_int_abs_diff)
        M(r'<impl %s>::saturating_add$'%w,m_signed_saturating('Add')); M(r'<impl %s>::saturating_sub$'%w,m_signed_saturating('Sub'))
        M(r'<impl %s>::checked_sub$'%w,m_checked('Sub')); M(r'<impl %s>::checked_add$'%w,m_checked('Add')); M(r'<impl %s>::checked_mul$'%w,m_checked('Mul'))
        M(r'<impl %s>::wrapping_sub$'%w,m_wrapping('Sub')); M(r'<impl %s>::wrapping_add$'%w,m_wrapping('Add'))
    for w in ('u8','u16','u32','u64','usize'):
        M(r'<impl %s>::abs_diff$'%w,m_int_abs_diff); M(r'<impl %s>::wrapping_neg$'%w,m_int_abs('wrapping_neg'))
_old_register_all4=register_all
def register_all(E):
    _old_register_all4(E); register_more(E); register_int_more(E)
def register_misc(E):
    E.model(r' as ToOwned>::to_owned$',m_clone)
_old_register_all5=register_all
def register_all(E):
    _old_register_all5(E); register_misc(E)
def m_iter_min_max_by(which):
    def m(e,run,a,f):
        xs=drain(e,run,to_iter(e,run,a[0]))
        if not xs: return none()
        best=xs[0]
        for x in xs[1:]:
            c=_cmp_from_ordering(e.call_value(run,a[1],[Ref(Cell(x)),Ref(Cell(best))]))
            if (which=='min' and c<0) or (which=='max' and c>=0): best=x
        return some(best)
    return m
def register_misc2(E):
    E.model(r' as Iterator>::min_by$',m_iter_min_max_by('min')); E.model(r' as Iterator>::max_by$',m_iter_min_max_by('max'))
_old_register_all6=register_all
def register_all(E):
    _old_register_all6(E); register_misc2(E)

# ----------------------------------------------------------------------------- chrono text <-> instant (ghost strings)
# An RFC 3339 text is a string whose bytes are opaque (taint) and whose meaning is carried in .ghost:
#   {'kind':'rfc3339','local_secs': i64 term (wall-clock fields as seconds), 'nanos': u32 term, 'offset': i32 term (seconds east of UTC)}
# DateTime<FixedOffset> = Agg('DateTimeFixed',[utc_secs,nanos,offset]);  NaiveDateTime = Agg('NaiveDateTime',[secs,nanos])
def _parse_rfc3339_concrete(text):
    import datetime,re as _re
    m=_re.match(r'^(\d{4})-(\d\d)-(\d\d)[Tt ](\d\d):(\d\d):(\d\d)(\.\d+)?([Zz]|[+-]\d\d:\d\d)$',text)
    if not m: return None
    try:
        dt=datetime.datetime(int(m.group(1)),int(m.group(2)),int(m.group(3)),int(m.group(4)),int(m.group(5)),min(int(m.group(6)),59),tzinfo=datetime.timezone.utc)
    except ValueError: return None
    frac=m.group(7); nanos=int((frac[1:]+'000000000')[:9]) if frac else 0
    if int(m.group(6))==60: nanos+=1000000000          # chrono keeps a leap second as :59 plus a full extra second of nanoseconds
    if int(m.group(6))>60: return None
    z=m.group(8)
    off=0 if z in 'Zz' else (1 if z[0]=='+' else -1)*(int(z[1:3])*3600+int(z[4:6])*60)
    return int(dt.timestamp()),nanos,off
def m_parse_rfc3339(e,run,a,f):
    s=deref(a[0])
    if s.ghost and s.ghost.get('kind')=='rfc3339':
        g=s.ghost
        utc=g['local_secs']-z3.SignExt(32,g['offset']) if not isinstance(g['offset'],int) else g['local_secs']-g['offset']
        return ok(Agg('DateTimeFixed',[Int(64,True,utc),Int(32,False,g['nanos']),Int(32,True,g['offset'])]))
    if s.ghost and s.ghost.get('kind')=='not-rfc3339': return err(Opaque('chrono::ParseError'))
    c=conc_bytes(s.b)
    if c is None or s.taint: raise Unsupported('parse_from_rfc3339 of a symbolic string without ghost')
    r=_parse_rfc3339_concrete(c.decode(errors='replace'))
    if r is None: return err(Opaque('chrono::ParseError'))
    return ok(Agg('DateTimeFixed',[Int(64,True,r[0]-r[2]),Int(32,False,r[1]),Int(32,True,r[2])]))
def m_with_timezone_utc(e,run,a,f):
    d=deref(a[0]); return Agg('DateTime',[d.f[0],d.f[1]])
def _off64(d):
    o=d.f[2]
    return Int(64,True,o.signed_val()) if o.conc() else Int(64,True,z3.SignExt(32,o.v))
def m_naive_local(e,run,a,f):
    d=deref(a[0])
    if d.ty=='DateTime': return Agg('NaiveDateTime',[d.f[0],d.f[1]])
    return Agg('NaiveDateTime',[e.binop('Add',d.f[0],_off64(d)),d.f[1]])
def m_naive_utc(e,run,a,f):
    d=deref(a[0]); return Agg('NaiveDateTime',[d.f[0],d.f[1]])
def m_and_utc(e,run,a,f):
    d=deref(a[0]); return Agg('DateTime',[d.f[0],d.f[1]])
def m_dt_timestamp(e,run,a,f): return deref(a[0]).f[0]
def _fmt_rfc3339(utc,off,use_z,nanos=0):
    import datetime
    try: t=datetime.datetime(1970,1,1)+datetime.timedelta(seconds=utc+off)
    except OverflowError: raise Unsupported('rfc3339 out of range')
    s=t.strftime('%Y-%m-%dT%H:%M:%S')
    if nanos>=1000000000 and s.endswith(':59'): s=s[:-2]+'60'; nanos-=1000000000      # leap second
    if nanos: s+=('.%09d'%nanos).rstrip('0')
    if off==0 and use_z: return s+'Z'
    sign='+' if off>=0 else '-'; o=abs(off)
    return s+'%s%02d:%02d'%(sign,o//3600,(o%3600)//60)
def m_to_rfc3339_opts(e,run,a,f):
    d=deref(a[0]); fmt=deref(a[1])
    if fmt.vname in ('AutoSi','Nanos'):
        # the fraction is written (AutoSi: with as many digits - 0, 3, 6 or 9 - as it needs): the text carries the nanoseconds
        off=0 if d.ty=='DateTime' else d.f[2].v
        loc=d.f[0].z() if d.ty=='DateTime' else e.binop('Add',d.f[0],_off64(d)).z()
        if d.f[0].conc() and d.f[1].conc() and (isinstance(off,int) or d.f[2].conc()):
            o=off if isinstance(off,int) else d.f[2].signed_val(); uz=deref(a[2]); uz=uz.v if isinstance(uz,Bool) and uz.conc() else True
            n=d.f[1].v; txt=_fmt_rfc3339(d.f[0].signed_val(),o,uz,0)
            if n and fmt.vname=='AutoSi':
                fr='%09d'%(n%1000000000); fr=fr[:3] if fr[3:]=='000000' else (fr[:6] if fr[6:]=='000' else fr)
                i=txt.index('T')+9; txt=txt[:i]+'.'+fr+txt[i:]
            elif fmt.vname=='Nanos': i=txt.index('T')+9; txt=txt[:i]+'.%09d'%(n%1000000000)+txt[i:]
            return StringO(list(txt.encode()),False,{'kind':'rfc3339','local_secs':d.f[0].signed_val()+o,'nanos':n,'offset':o})
        return StringO(list(b'<rfc3339>'),True,{'kind':'rfc3339','local_secs':loc,'nanos':d.f[1].v,'offset':off})
    if fmt.vname!='Secs': raise Unsupported('to_rfc3339_opts '+str(fmt.vname))
    use_z=deref(a[2]); use_z=use_z.v if isinstance(use_z,Bool) and use_z.conc() else True
    offv=Int(32,True,0) if d.ty=='DateTime' else d.f[2]
    if d.f[0].conc() and offv.conc():
        off=offv.signed_val()
        leap=d.f[1].conc() and d.f[1].v>=1000000000
        txt=_fmt_rfc3339(d.f[0].signed_val(),off,use_z,1000000000 if leap else 0)
        return StringO(list(txt.encode()),False,{'kind':'rfc3339','local_secs':d.f[0].signed_val()+off,'nanos':1000000000 if leap else 0,'offset':off})
    loc=d.f[0].z() if d.ty=='DateTime' else e.binop('Add',d.f[0],_off64(d)).z()
    return StringO(list(b'<rfc3339>'),True,{'kind':'rfc3339','local_secs':loc,'nanos':0,'offset':offv.v,'zulu':use_z})
def m_to_rfc3339(e,run,a,f):
    d=deref(a[0])
    off=0 if d.ty=='DateTime' else d.f[2].v
    loc=d.f[0].z() if d.ty=='DateTime' else e.binop('Add',d.f[0],_off64(d)).z()
    return StringO(list(b'<rfc3339>'),True,{'kind':'rfc3339','local_secs':loc,'nanos':d.f[1].v,'offset':off})
def m_from_timestamp(e,run,a,f):
    return some(Agg('DateTime',[deref(a[0]),deref(a[1]) if len(a)>1 else Int(32,False,0)]))
def register_chrono(E):
    M=E.model
    M(r'^DateTime::parse_from_rfc3339$|^chrono::DateTime::parse_from_rfc3339$',m_parse_rfc3339)
    M(r'^DateTime::with_timezone$',m_with_timezone_utc); M(r'^DateTime::to_utc$',m_with_timezone_utc)
    M(r'^<DateTime<Utc> as From<DateTime<FixedOffset>>>::from$',m_with_timezone_utc)
    M(r'^<DateTime<FixedOffset> as Into<DateTime<Utc>>>::into$',m_with_timezone_utc)
    M(r'^DateTime::naive_local$',m_naive_local); M(r'^DateTime::naive_utc$',m_naive_utc)
    M(r'^NaiveDateTime::and_utc$',m_and_utc)
    M(r'^DateTime::timestamp$',m_dt_timestamp)
    M(r'^DateTime::to_rfc3339_opts$',m_to_rfc3339_opts); M(r'^DateTime::to_rfc3339$',m_to_rfc3339)
    M(r'^DateTime::from_timestamp$',m_from_timestamp)
_old_register_all7=register_all
def register_all(E):
    register_chrono(E); _old_register_all7(E)

# ----------------------------------------------------------------------------- more std::path (Unix semantics, concrete bytes)
def _split_file(p):
    """(dir part incl. trailing '/', file name) of a path string; trailing slashes ignored"""
    q=p.rstrip('/')
    if not q: return p,''
    i=q.rfind('/')
    return q[:i+1],q[i+1:]
def _stem_ext(name):
    if name in ('','..') : return name,None
    i=name.rfind('.')
    if i<=0: return name,None
    return name[:i],name[i+1:]
def _pstr(v): return need_conc(pb_bytes(v),'path operation').decode()
def m_path_with_extension(e,run,a,f):
    p=_pstr(a[0]); ext=_pstr(a[1]); d,name=_split_file(p)
    if not name: return Agg('PathBuf',[mk_string(p)])
    stem,_=_stem_ext(name)
    return Agg('PathBuf',[mk_string(d+stem+('.'+ext if ext else ''))])
def m_pathbuf_set_extension(e,run,a,f):
    pb=deref(a[0]); p=need_conc(pb.f[0].b,'set_extension').decode(); ext=_pstr(a[1]); d,name=_split_file(p)
    if not name: return Bool(False)
    stem,_=_stem_ext(name); pb.f[0]=mk_string(d+stem+('.'+ext if ext else '')); return Bool(True)
def m_path_extension(e,run,a,f):
    d,name=_split_file(_pstr(a[0])); _,ext=_stem_ext(name)
    return none() if ext is None else some(Ref(Cell(Agg('OsStr',[mk_string(ext)]))))
def m_path_file_stem(e,run,a,f):
    d,name=_split_file(_pstr(a[0]))
    if not name or name=='..': return none()
    stem,_=_stem_ext(name); return some(Ref(Cell(Agg('OsStr',[mk_string(stem)]))))
def m_path_parent(e,run,a,f):
    p=_pstr(a[0]); q=p.rstrip('/')
    if not q: return none()
    i=q.rfind('/')
    if i<0: return some(Ref(Cell(Agg('Path',[mk_string('')]))))
    return some(Ref(Cell(Agg('Path',[mk_string(q[:i] if i>0 else '/')]))))
def m_path_with_file_name(e,run,a,f):
    p=_pstr(a[0]); n=_pstr(a[1]); d,name=_split_file(p)
    return Agg('PathBuf',[mk_string(d+n)])
def m_path_to_path_buf(e,run,a,f): return Agg('PathBuf',[mk_string(_pstr(a[0]))])
def m_path_is_absolute(e,run,a,f): return Bool(_pstr(a[0]).startswith('/'))
def _sym_components(run,bl):
    """(has_root, components as byte lists) of a path whose bytes may be symbolic: forks on `byte == '/'`; empty components and
    `.` components (other than a leading one) are dropped, as std::path::Components does"""
    comps=[]; cur=[]; root=False
    for i,x in enumerate(bl):
        sep=(x==0x2f) if isinstance(x,int) else run.branch_bool(Bool(x==0x2f),'path.sep')
        if sep:
            if i==0: root=True
            if cur: comps.append(cur); cur=[]
        else: cur.append(x)
    if cur: comps.append(cur)
    out=[]
    for k,c in enumerate(comps):
        if len(c)==1:
            dot=(c[0]==0x2e) if isinstance(c[0],int) else run.branch_bool(Bool(c[0]==0x2e),'path.dot')
            if dot and (k>0 or root): continue
        out.append(c)
    return root,out
def m_path_starts_with(e,run,a,f):
    b0,b1=pb_bytes(a[0]),pb_bytes(a[1])
    if conc_bytes(b0) is None or conc_bytes(b1) is None:
        r0,c0=_sym_components(run,b0); r1,c1=_sym_components(run,b1)
        if r0!=r1 or len(c1)>len(c0): return Bool(False)
        return b_and(*[bytes_eq(x,y) if len(x)==len(y) else Bool(False) for x,y in zip(c0,c1)]) if c1 else Bool(True)
    p=[c for c in _pstr(a[0]).split('/') if c not in('','.')]; q=[c for c in _pstr(a[1]).split('/') if c not in('','.')]
    return Bool(p[:len(q)]==q and _pstr(a[0]).startswith('/')==_pstr(a[1]).startswith('/'))
def m_path_display(e,run,a,f): return mk_string(_pstr(a[0]))
def m_osstr_to_string_lossy(e,run,a,f): return Agg('Cow',[Ref(Cell(Str(pb_bytes(a[0]))))],0,'Borrowed')
def m_path_as_os_str(e,run,a,f): return Ref(Cell(Agg('OsStr',[StringO(pb_bytes(a[0]))])))
def register_path2(E):
    M=E.model
    M(r'^Path::with_extension$',m_path_with_extension); M(r'^PathBuf::set_extension$',m_pathbuf_set_extension)
    M(r'^Path::extension$',m_path_extension); M(r'^Path::file_stem$',m_path_file_stem); M(r'^Path::parent$',m_path_parent)
    M(r'^Path::with_file_name$',m_path_with_file_name); M(r'^Path::to_path_buf$',m_path_to_path_buf); M(r'^Path::is_absolute$',m_path_is_absolute)
    M(r'^Path::starts_with$',m_path_starts_with); M(r'^Path::as_os_str$',m_path_as_os_str); M(r'^OsStr::to_string_lossy$',m_osstr_to_string_lossy)
    M(r'^<PathBuf as AsRef<OsStr>>::as_ref$|^<Path as AsRef<OsStr>>::as_ref$',m_path_as_os_str)
    M(r'^<(str|std::string::String|String|&str) as AsRef<(std::path::)?Path>>::as_ref$',m_path_new)
    M(r'^<(str|std::string::String|String) as AsRef<OsStr>>::as_ref$',m_path_as_os_str)
    M(r'^PathBuf::as_path$',m_path_deref)
_old_register_all8=register_all
def register_all(E):
    _old_register_all8(E); register_path2(E)
def register_misc3(E):
    M=E.model
    M(r'^(Vec|std::string::String|String|HashMap|HashSet)::(reserve|reserve_exact|shrink_to_fit|shrink_to)$',m_unit)
    M(r'^(Vec|std::string::String|String)::capacity$',m_len)
    M(r'^Vec::extend_from_within$',lambda e,run,a,f: (_ for _ in ()).throw(Unsupported('extend_from_within')))
_old_register_all9=register_all
def register_all(E):
    _old_register_all9(E); register_misc3(E)
def _first_generic(f,meth):
    m=re.search(r'::'+meth+r'::<(.*)>$',f)
    if not m: return 'Vec'
    from .parse import split_top
    t=split_top(m.group(1))[0].strip()
    for k in ('HashMap','BTreeMap','HashSet','BTreeSet','Vec','String'):
        if re.match(r'^(std::collections::|std::vec::|std::string::)?'+k+r'\b',t): return k
    raise Unsupported(meth+' into '+t)
def m_iter_partition(e,run,a,f):
    kind=_first_generic(f,'partition'); yes=[]; no=[]
    for x in drain(e,run,to_iter(e,run,a[0])):
        (yes if run.branch_bool(e.call_value(run,a[1],[Ref(Cell(x))]),'partition') else no).append(x)
    return Agg('()',[collect_into(e,run,kind,yes),collect_into(e,run,kind,no)])
def m_iter_unzip(e,run,a,f):
    xs=drain(e,run,to_iter(e,run,a[0]))
    return Agg('()',[VecO([x.f[0] for x in xs]),VecO([x.f[1] for x in xs])])
def register_misc4(E):
    E.model(r' as Iterator>::partition$',m_iter_partition); E.model(r' as Iterator>::unzip$',m_iter_unzip)
_old_register_all10=register_all
def register_all(E):
    _old_register_all10(E); register_misc4(E)
def m_box_as_ref(e,run,a,f):
    b=deref_once(a[0]); return b if isinstance(b,Ref) else a[0]
def deref_once(v): return v.get() if isinstance(v,Ref) else v
def register_misc5(E):
    M=E.model
    M(r'^<Box<.*> as AsRef<.*>>::as_ref$',m_box_as_ref); M(r'^<Box<.*> as AsMut<.*>>::as_mut$',m_box_as_ref)
    M(r'^<Box<.*> as Deref>::deref$',m_box_as_ref); M(r'^<Box<.*> as DerefMut>::deref_mut$',m_box_as_ref)
    M(r'^<Box<.*> as Borrow<.*>>::borrow$',m_box_as_ref)
    M(r'^<(Rc|Arc)<.*> as Deref>::deref$',m_box_as_ref); M(r'^(Rc|Arc)::new$',m_box_new)
_old_register_all11=register_all
def register_all(E):
    _old_register_all11(E); register_misc5(E)

# ----------------------------------------------------------------------------- data_encoding::HEXLOWER
def hex_char(n):
    """n: BV8 term or int in 0..15 -> ASCII of the lowercase hex digit"""
    if isinstance(n,int): return b'0123456789abcdef'[n]
    return note_allowed(z3.simplify(z3.If(z3.ULT(n,10),n+0x30,n+0x57)),b'0123456789abcdef')
def _encoding_name(v):
    """which data_encoding constant is the receiver (HEXLOWER, BASE64, ...)"""
    d=deref(v); r=repr(d)
    for n in ('HEXLOWER_PERMISSIVE','HEXLOWER','HEXUPPER','BASE64URL_NOPAD','BASE64URL','BASE64_NOPAD','BASE64_MIME','BASE64','BASE32'):
        if n in r or (isinstance(d,Opaque) and n in str(d.kind)+str(d.p)): return n
    return None
def m_hex_encode(e,run,a,f):
    enc=_encoding_name(a[0])
    if enc=='BASE64':
        c=conc_bytes(byte_list(a[1]))
        if c is None: raise Unsupported('BASE64.encode of symbolic bytes')
        import base64 as _b64
        return mk_string(_b64.b64encode(c).decode())
    if enc!='HEXLOWER': raise Unsupported('data_encoding::Encoding::encode for '+str(enc)+' '+repr(deref(a[0]))[:60])
    out=[]
    for x in byte_list(a[1]):
        if isinstance(x,int): out+=[hex_char(x>>4),hex_char(x&15)]
        else: out+=[hex_char(z3.LShR(x,4)),hex_char(x&0x0f)]
    return StringO(out)
def m_hex_decode(e,run,a,f):
    enc=_encoding_name(a[0])
    if enc=='BASE64':
        c=conc_bytes(byte_list(a[1]))
        if c is None: raise Unsupported('BASE64.decode of symbolic bytes')
        import base64 as _b64, binascii
        try: return ok(u8vec(list(_b64.b64decode(c,validate=True))))
        except (binascii.Error,ValueError): return err(Opaque('DecodeError'))
    if enc!='HEXLOWER': raise Unsupported('data_encoding::Encoding::decode for '+str(enc)+' '+repr(deref(a[0]))[:60])
    bl=byte_list(a[1])
    if len(bl)%2: return err(Opaque('DecodeError'))
    vals=[]
    for x in bl:
        if isinstance(x,int):
            c=chr(x)
            if c not in '0123456789abcdef': return err(Opaque('DecodeError'))
            vals.append(int(c,16))
        else:
            k=run.choose([z3.And(z3.UGE(x,0x30),z3.ULE(x,0x39)),z3.And(z3.UGE(x,0x61),z3.ULE(x,0x66)),z3.Not(z3.Or(z3.And(z3.UGE(x,0x30),z3.ULE(x,0x39)),z3.And(z3.UGE(x,0x61),z3.ULE(x,0x66))))],'hexdigit')
            if k==2: return err(Opaque('DecodeError'))
            vals.append(x-0x30 if k==0 else x-0x57)
    out=[]
    for i in range(0,len(vals),2):
        h,l=vals[i],vals[i+1]
        out.append((h<<4)|l if isinstance(h,int) and isinstance(l,int) else z3.simplify(((h if not isinstance(h,int) else z3.BitVecVal(h,8))<<4)|(l if not isinstance(l,int) else z3.BitVecVal(l,8))))
    return ok(u8vec(out))
def register_hex(E):
    E.model(r'^(data_encoding::)?Encoding::encode$',m_hex_encode); E.model(r'^(data_encoding::)?Encoding::decode$',m_hex_decode)
_old_register_all12=register_all
def register_all(E):
    _old_register_all12(E); register_hex(E)
def register_misc6(E):
    E.model(r' as ToString>::to_string$',m_to_string)
_old_register_all13=register_all
def register_all(E):
    _old_register_all13(E); register_misc6(E)

# ----------------------------------------------------------------------------- ring::digest (injective function of exactly the bytes fed)
def m_digest_new(e,run,a,f):
    alg=deref(a[0])
    name=alg.kind.split(':')[-1] if isinstance(alg,Opaque) else 'SHA256'
    return Opaque('DigestCtx',{'alg':name,'b':[]})
def m_digest_update(e,run,a,f):
    deref(a[0]).p['b'].extend(byte_list(a[1])); return UNIT
def digest_value(run,alg,bl):
    import hashlib
    n={'SHA256':32,'SHA512':64,'SHA384':48,'SHA1_FOR_LEGACY_USE_ONLY':20}.get(alg,32)
    c=conc_bytes(bl)
    if c is not None:
        h={'SHA256':hashlib.sha256,'SHA512':hashlib.sha512,'SHA384':hashlib.sha384}.get(alg,hashlib.sha256)(c).digest()
        return Str(list(h),False,False,{'kind':'digest','alg':alg,'pre':list(bl)})
    # a digest is a function of its input: syntactically identical pre-images share their digest bytes within a run
    memo=run.ghost.setdefault('digest_memo',{})
    key=(alg,tuple(x if isinstance(x,int) else ('t',x.get_id()) for x in bl))
    if key in memo: return Str(list(memo[key][1]),False,False,{'kind':'digest','alg':alg,'pre':list(bl)})
    k=run.fresh_n['digest']; run.fresh_n['digest']+=1
    out=[z3.BitVec('digest%d_%d'%(k,i),8) for i in range(n)]
    memo[key]=(list(bl),out)      # keeps the terms alive, so the ids stay unique
    return Str(list(out),False,False,{'kind':'digest','alg':alg,'pre':list(bl)})
def m_digest_finish(e,run,a,f):
    c=deref(a[0]); return Opaque('Digest',digest_value(run,c.p['alg'],c.p['b']))
def m_digest_as_ref(e,run,a,f): return Ref(Cell(deref(a[0]).p))
def m_digest_oneshot(e,run,a,f):
    alg=deref(a[0]); name=alg.kind.split(':')[-1] if isinstance(alg,Opaque) else 'SHA256'
    return Opaque('Digest',digest_value(run,name,byte_list(a[1])))
def m_digest_clone(e,run,a,f):
    c=deref(a[0]); return Opaque('DigestCtx',{'alg':c.p['alg'],'b':list(c.p['b'])})
def register_digest(E):
    M=E.model
    M(r'^(ring::)?digest::Context::new$',m_digest_new); M(r'^(ring::)?digest::Context::update$',m_digest_update); M(r'^(ring::)?digest::Context::finish$',m_digest_finish)
    M(r'^<((ring::)?digest::)?Digest as AsRef<\[u8\]>>::as_ref$',m_digest_as_ref); M(r'^(ring::)?digest::digest$',m_digest_oneshot)
    M(r'^<(ring::)?digest::Context as Clone>::clone$',m_digest_clone)
_old_register_all14=register_all
def register_all(E):
    register_digest(E); _old_register_all14(E)
def m_into_vec_u8(e,run,a,f):
    v=deref(a[0])
    if isinstance(v,VecO): return v
    return u8vec(byte_list(v))
def register_misc7(E):
    E.model(r'^<.* as Into<Vec<u8>>>::into$',m_into_vec_u8)
    E.model(r'^<.* as Into<(std::string::)?String>>::into$',m_from_str_into_string)
_old_register_all15=register_all
def register_all(E):
    _old_register_all15(E); register_misc7(E)
def m_into_generic(e,run,a,f):
    m=re.match(r'^<(.*) as Into<(.*)>>::into$',strip_t(f))
    if m:
        src,dst=m.group(1).strip(),m.group(2).strip()
        try: return e.call_named(run,'<%s as From<%s>>::from'%(dst,src),[a[0]])
        except Unsupported: pass
    d=deref(a[0])
    if isinstance(d,(Str,StringO)): return StringO(d.b,d.taint,d.ghost)
    return a[0]
def register_misc8(E):
    E.models=[x for x in E.models if x[2] not in (r'^<.* as Into<(std::string::)?String>>::into$',)]
    E.model(r'^<.* as Into<.*>>::into$',m_into_generic)
    E.model(r'^std::io::_print$|^std::io::_eprint$',m_unit)
_old_register_all16=register_all
def register_all(E):
    _old_register_all16(E); register_misc8(E)
def m_map_drain(e,run,a,f):
    m=deref(a[0]); order=map_order(run,m); ents=[m.e[i] for i in order]; m.e=[]
    if m.is_set: return Iter([k for k,_ in ents])
    return Iter([tuple2(k,v) for k,v in ents])
def m_vec_drain(e,run,a,f):
    d=deref(a[0]); n=len(d.items)
    lo,hi=range_of(a[1],n)
    if lo>hi or hi>n: raise Panic('drain range out of bounds','slice')
    xs=d.items[lo:hi]; d.items=d.items[:lo]+d.items[hi:]; return Iter(xs)
def register_misc9(E):
    E.model(r'^(HashMap|HashSet|BTreeMap)::drain$',m_map_drain); E.model(r'^Vec::drain$',m_vec_drain)
    E.model(r'^(HashMap|BTreeMap)::into_iter$',m_into_iter)
_old_register_all17=register_all
def register_all(E):
    _old_register_all17(E); register_misc9(E)
def m_io_error_kind(e,run,a,f):
    d=deref(a[0]); k='NotFound' if (isinstance(d,Opaque) and d.p=='not found') else 'Other'
    tab=e.enums['ErrorKind']; return Agg('ErrorKind',[],tab.index(k),k)
def m_io_error_new(e,run,a,f): return Opaque('io::Error','other')
def register_misc10(E):
    E.model(r'^std::io::Error::kind$',m_io_error_kind); E.model(r'^std::io::Error::(new|other)$',m_io_error_new)
_old_register_all18=register_all
def register_all(E):
    _old_register_all18(E); register_misc10(E)
def m_map_append(e,run,a,f):
    dst=deref(a[0]); src=deref(a[1])
    for k,v in src.e: map_insert(run,dst,k,v)
    src.e=[]; return UNIT
def m_map_entry(e,run,a,f):
    m=deref(a[0]); i=map_find(run,m,a[1])
    return Opaque('MapEntry',{'m':m,'i':i,'k':a[1]})
def _entry_slot(run,en,mk):
    p=en.p
    if p['i'] is None:
        p['m'].e.append([p['k'],mk()]); p['i']=len(p['m'].e)-1
    return Ref(p['m'].e[p['i']],1)
def m_entry_or_insert(e,run,a,f): return _entry_slot(run,deref(a[0]),lambda: a[1])
def m_entry_or_insert_with(e,run,a,f): return _entry_slot(run,deref(a[0]),lambda: e.call_value(run,a[1],[]))
def m_entry_or_default(e,run,a,f):
    m=re.search(r'Entry<[^,]*, (.*)>::or_default$',strip_t(f))
    def mk():
        t=(m.group(1) if m else '')
        if t.startswith('Vec') or 'Vec<' in t: return VecO([])
        if 'String' in t: return StringO([])
        if 'Map<' in t: return MapO('BTree' in t)
        if 'Set<' in t: return MapO('BTree' in t,True)
        return Int(64,False,0)
    return _entry_slot(run,deref(a[0]),mk)
def m_entry_and_modify(e,run,a,f):
    en=deref(a[0])
    if en.p['i'] is not None: e.call_value(run,a[1],[Ref(en.p['m'].e[en.p['i']],1)])
    return a[0]
def m_map_first_last(which):
    def m(e,run,a,f):
        mm=deref(a[0])
        if not mm.e: return none()
        order=map_order(run,mm); i=order[0] if which=='first' else order[-1]
        return some(tuple2(Ref(mm.e[i],0),Ref(mm.e[i],1))) if not mm.is_set else some(Ref(mm.e[i],0))
    return m
def m_map_pop(which):
    def m(e,run,a,f):
        mm=deref(a[0])
        if not mm.e: return none()
        order=map_order(run,mm); i=order[0] if which=='first' else order[-1]
        ent=mm.e.pop(i)
        return some(tuple2(ent[0],ent[1])) if not mm.is_set else some(ent[0])
    return m
def register_misc11(E):
    M=E.model
    M(r'^(BTreeMap|BTreeSet)::pop_first$',m_map_pop('first')); M(r'^(BTreeMap|BTreeSet)::pop_last$',m_map_pop('last'))
    M(r'^(BTreeMap|BTreeSet|HashMap)::append$',m_map_append)
    M(r'^(HashMap|BTreeMap)::entry$',m_map_entry)
    M(r'Entry<.*>::or_insert$',m_entry_or_insert); M(r'Entry<.*>::or_insert_with$',m_entry_or_insert_with); M(r'Entry<.*>::or_default$',m_entry_or_default); M(r'Entry<.*>::and_modify$',m_entry_and_modify)
    M(r'^(BTreeMap)::first_key_value$|^BTreeSet::first$',m_map_first_last('first')); M(r'^(BTreeMap)::last_key_value$|^BTreeSet::last$',m_map_first_last('last'))
_old_register_all19=register_all
def register_all(E):
    _old_register_all19(E); register_misc11(E)

# ----------------------------------------------------------------------------- pem (concrete contents only)
def m_pem_new(e,run,a,f): return Agg('Pem',[StringO(byte_list(a[0])),u8vec(byte_list(a[1]))])
def m_pem_encode(e,run,a,f):
    import base64
    p=deref(a[0]); tag=need_conc(byte_list(p.f[0]),'pem tag').decode(); c=need_conc(byte_list(p.f[1]),'pem contents (symbolic key material cannot be base64-encoded by this model)')
    b64=base64.b64encode(c).decode(); lines=[b64[i:i+64] for i in range(0,len(b64),64)]
    out='-----BEGIN %s-----\r\n'%tag+''.join(l+'\r\n' for l in lines)+'-----END %s-----\r\n'%tag
    return mk_string(out)
def m_pem_parse(e,run,a,f):
    import base64,re as _re
    t=need_conc(byte_list(a[0]),'pem text').decode(errors='replace')
    m=_re.search(r'-----BEGIN ([^-]+)-----\s*(.*?)\s*-----END \1-----',t,_re.S)
    if not m: return err(Opaque('PemError'))
    try: c=base64.b64decode(''.join(m.group(2).split()),validate=True)
    except Exception: return err(Opaque('PemError'))
    return ok(Agg('Pem',[mk_string(m.group(1)),u8vec(list(c))]))
def m_pem_contents(e,run,a,f): return Ref(Cell(deref(a[0]).f[1]))
def m_pem_tag(e,run,a,f): return Ref(Cell(Str(byte_list(deref(a[0]).f[0]))))
def register_pem(E):
    M=E.model
    M(r'^(pem::)?Pem::new$',m_pem_new); M(r'^(pem::)?encode$',m_pem_encode); M(r'^pem::parse$|^parse$',m_pem_parse)
    M(r'^(pem::)?Pem::contents$',m_pem_contents); M(r'^(pem::)?Pem::tag$',m_pem_tag)
_old_register_all20=register_all
def register_all(E):
    _old_register_all20(E); register_pem(E)

def m_str_char_indices(e,run,a,f):
    it=m_str_chars(e,run,a,f); out=[]; pos=0
    for c in it.items:
        out.append(tuple2(Int(64,False,pos),c))
        pos+=len(chr(c.v).encode()) if isinstance(c,Char) else len(c.b)
    return Iter(out)
def m_char_len_utf8(e,run,a,f):
    c=deref(a[0]); return Int(64,False,len(chr(c.v).encode()) if isinstance(c,Char) else len(c.b))
def m_string_insert_str(e,run,a,f): raise Unsupported('String::insert_str')
# chrono strftime-style formatting (concrete instants only)
def m_dt_format(e,run,a,f):
    return Opaque('DelayedFormat',(deref(a[0]),need_conc(byte_list(a[1]),'format string').decode()))
def render_delayed(e,run,d):
    dt,fmt=d.p
    off=0 if dt.ty=='DateTime' else dt.f[2]
    if not dt.f[0].conc() or (not isinstance(off,int) and not off.conc()): raise Unsupported('strftime formatting of a symbolic instant')
    offv=off if isinstance(off,int) else off.signed_val()
    import datetime
    t=datetime.datetime(1970,1,1)+datetime.timedelta(seconds=dt.f[0].signed_val()+offv)
    out=''; i=0
    while i<len(fmt):
        c=fmt[i]
        if c!='%': out+=c; i+=1; continue
        sp=fmt[i+1]; i+=2
        if sp==':' and fmt[i:i+1]=='z':
            i+=1; s='+' if offv>=0 else '-'; o=abs(offv); out+='%s%02d:%02d'%(s,o//3600,(o%3600)//60); continue
        if sp=='z':
            s='+' if offv>=0 else '-'; o=abs(offv); out+='%s%02d%02d'%(s,o//3600,(o%3600)//60); continue
        if sp in 'YmdHMSjyebGVuUWaAwC': out+=t.strftime('%'+sp); continue
        if sp=='F': out+=t.strftime('%Y-%m-%d'); continue
        if sp=='T': out+=t.strftime('%H:%M:%S'); continue
        if sp=='s': out+=str(dt.f[0].signed_val()); continue
        if sp=='%': out+='%'; continue
        raise Unsupported('strftime specifier %'+sp)
    return out
def register_misc12(E):
    M=E.model
    M(r'<impl str>::char_indices$',m_str_char_indices); M(r'<impl char>::len_utf8$',m_char_len_utf8)
    M(r'^DateTime::format$',m_dt_format)
_old_register_all21=register_all
def register_all(E):
    _old_register_all21(E); register_misc12(E)

# ---- [u8]::trim_ascii_start / trim_ascii_end / trim_ascii (ASCII whitespace: space, \t, \n, \x0c, \r), str::encode_utf16, fs::Metadata::len
def _is_ascii_ws(run,x,tag):
    if isinstance(x,int): return x in (0x20,0x09,0x0a,0x0c,0x0d)
    return run.branch_bool(Bool(z3.Or(x==0x20,x==0x09,x==0x0a,x==0x0c,x==0x0d)),tag)
def m_trim_ascii(kind):
    def m(e,run,a,f):
        src=deref(a[0]); bl=list(byte_list(src))
        if kind in ('start','both'):
            while bl and _is_ascii_ws(run,bl[0],'trim_ascii'): bl=bl[1:]
        if kind in ('end','both'):
            while bl and _is_ascii_ws(run,bl[-1],'trim_ascii'): bl=bl[:-1]
        if isinstance(src,(Str,StringO)) and getattr(src,'is_str',True) and 'impl str' in f: return Ref(Cell(Str(bl,True)))
        return Ref(Cell(Str(bl,False)))
    return m
def m_encode_utf16(e,run,a,f):
    bl=byte_list(a[0]); c=conc_bytes(bl)
    if c is not None:
        u=c.decode().encode('utf-16-be'); return Iter([Int(16,False,(u[i]<<8)|u[i+1]) for i in range(0,len(u),2)])
    out=[]
    for x in bl:
        if isinstance(x,int):
            if x>=0x80: raise Unsupported('encode_utf16 of a partly symbolic non-ASCII string')
            out.append(Int(16,False,x)); continue
        ax=allowed(x)
        if ax is None or not all(v<0x80 for v in ax):
            if run.branch_bool(Bool(z3.UGE(x,0x80)),'utf16.nonascii'): raise Unsupported('encode_utf16 of a symbolic non-ASCII byte')
        out.append(Int(16,False,z3.ZeroExt(8,x)))
    return Iter(out)
def register_misc13(E):
    M=E.model
    M(r'<impl \[u8\]>::trim_ascii_start$',m_trim_ascii('start')); M(r'<impl \[u8\]>::trim_ascii_end$',m_trim_ascii('end')); M(r'<impl \[u8\]>::trim_ascii$',m_trim_ascii('both'))
    M(r'<impl str>::trim_ascii_start$',m_trim_ascii('start')); M(r'<impl str>::trim_ascii_end$',m_trim_ascii('end')); M(r'<impl str>::trim_ascii$',m_trim_ascii('both'))
    M(r'<impl str>::encode_utf16$',m_encode_utf16)
_old_register_all22=register_all
def register_all(E):
    _old_register_all22(E); register_misc13(E)

def _drain(e,run,it):
    it=deref(it); out=[]
    while True:
        x=iter_next(e,run,it)
        if x is None: break
        out.append(x)
    return out
def m_iter_cmp(e,run,a,f):
    xs=_drain(e,run,a[0]); ys=_drain(e,run,a[1])
    return ordering(val_cmp(run,VecO(xs),VecO(ys)))
def m_iter_eq(e,run,a,f):
    xs=_drain(e,run,a[0]); ys=_drain(e,run,a[1])
    return val_eq(VecO(xs),VecO(ys))
def register_misc14(E):
    E.model(r' as Iterator>::cmp$',m_iter_cmp); E.model(r' as Iterator>::eq$',m_iter_eq)
_old_register_all23=register_all
def register_all(E):
    _old_register_all23(E); register_misc14(E)

# ---- std::sync::OnceLock / std::cell::OnceCell (single-threaded semantics: the first initialiser wins)
def m_once_new(e,run,a,f): return Agg('OnceLock',[none()])
class _OnceSlot:
    """the Option inside a OnceLock, whether the lock value is our Agg or an opaque constant of a static initialiser"""
    def __init__(self,d): self.d=d
    def get(self):
        if isinstance(self.d,Agg): return self.d.f[0]
        if not isinstance(self.d.p,dict): self.d.p={'once':none()}
        return self.d.p.setdefault('once',none())
    def put(self,v):
        if isinstance(self.d,Agg): self.d.f[0]=v
        else: self.get(); self.d.p['once']=v
def m_once_get_or_init(e,run,a,f):
    sl=_OnceSlot(deref(a[0]))
    if sl.get().vname=='None': sl.put(some(e.call_value(run,a[1],[])))
    return Ref(Cell(sl.get().f[0]))
def m_once_get(e,run,a,f):
    sl=_OnceSlot(deref(a[0]))
    return none() if sl.get().vname=='None' else some(Ref(Cell(sl.get().f[0])))
def m_once_set(e,run,a,f):
    sl=_OnceSlot(deref(a[0]))
    if sl.get().vname=='None': sl.put(some(a[1])); return ok(UNIT)
    return err(a[1])
def register_misc15(E):
    M=E.model
    M(r'^(std::sync::)?(OnceLock|OnceCell)::new$',m_once_new); M(r'^(std::sync::)?(OnceLock|OnceCell)::get_or_init$',m_once_get_or_init)
    M(r'^(std::sync::)?(OnceLock|OnceCell)::get$',m_once_get); M(r'^(std::sync::)?(OnceLock|OnceCell)::set$',m_once_set)
_old_register_all24=register_all
def register_all(E):
    _old_register_all24(E); register_misc15(E)

# ---- Iterator::flat_map, [T]::binary_search_by (transcribed from core::slice, the version without early exit)
def m_flat_map(e,run,a,f):
    it=to_iter(e,run,a[0],lazy_ok=True); it.adapt.append(('map',a[1])); it.adapt.append(('flatten',None)); return it
def m_binary_search_by(e,run,a,f):
    sl=deref(a[0]); fn=a[1]
    n=len(sl.items) if isinstance(sl,VecO) else None
    if n is None: raise Unsupported('binary_search_by on '+repr(sl)[:60])
    def cmp(i):
        r=deref(e.call_value(run,fn,[Ref(sl,i)]))
        return r.vname
    if n==0: return err(Int(64,False,0))
    size=n; base=0
    while size>1:
        half=size//2; mid=base+half
        if cmp(mid)!='Greater': base=mid
        size-=half
    c=cmp(base)
    if c=='Equal': return ok(Int(64,False,base))
    return err(Int(64,False,base+(1 if c=='Less' else 0)))
def register_misc16(E):
    E.model(r' as Iterator>::flat_map$',m_flat_map)
    E.model(r'<impl \[.*\]>::binary_search_by$',m_binary_search_by)
_old_register_all25=register_all
def register_all(E):
    _old_register_all25(E); register_misc16(E)

# ---- char::from(u8), char::to_digit (a symbolic ASCII character is carried as a one-byte Str, see the integer cast in the engine)
def m_char_from_u8(e,run,a,f):
    x=deref(a[0])
    if x.conc(): return Char(x.v)
    if run.branch_bool(Bool(z3.UGE(x.v,0x80)),'char.from.latin1'): raise Unsupported('char::from of a symbolic byte >= 0x80')
    return Str([x.v],True)
def m_char_to_digit(e,run,a,f):
    c=deref(a[0]); radix=deref(a[1])
    if not radix.conc() or radix.v not in (10,16): raise Unsupported('to_digit radix')
    if isinstance(c,Char):
        ch=chr(c.v)
        try: v=int(ch,radix.v) if ch.isalnum() and ord(ch)<128 else None
        except ValueError: v=None
        return none() if v is None else some(Int(32,False,v))
    b=c.b[0] if isinstance(c,(Str,StringO)) and len(c.b)==1 else None
    if b is None: return none()
    if isinstance(b,int): return m_char_to_digit(e,run,[Char(b),radix],f)
    opts=[z3.And(z3.UGE(b,0x30),z3.ULE(b,0x39))]
    if radix.v==16: opts+=[z3.And(z3.UGE(b,0x61),z3.ULE(b,0x66)),z3.And(z3.UGE(b,0x41),z3.ULE(b,0x46))]
    opts.append(z3.Not(z3.Or(*opts)))
    k=run.choose(opts,'to_digit')
    if k==len(opts)-1: return none()
    off=[0x30,0x57,0x37][k]
    return some(Int(32,False,z3.ZeroExt(24,b-off)))
def register_misc17(E):
    E.model(r'^<char as From<u8>>::from$',m_char_from_u8); E.model(r'<impl char>::to_digit$|^char::to_digit$',m_char_to_digit)
_old_register_all26=register_all
def register_all(E):
    _old_register_all26(E); register_misc17(E)

# ---- str::eq_ignore_ascii_case / to_ascii_lowercase / to_ascii_uppercase
def _ascii_lower_term(x):
    if isinstance(x,int): return x+32 if 0x41<=x<=0x5a else x
    return z3.If(z3.And(z3.UGE(x,0x41),z3.ULE(x,0x5a)),x+32,x)
def m_eq_ignore_ascii_case(e,run,a,f):
    x=byte_list(a[0]); y=byte_list(a[1])
    if len(x)!=len(y): return Bool(False)
    return bytes_eq([_ascii_lower_term(b) for b in x],[_ascii_lower_term(b) for b in y])
def m_to_ascii_case(lower):
    def m(e,run,a,f):
        bl=byte_list(a[0]); out=[]
        for x in bl:
            if lower: out.append(_ascii_lower_term(x) if not isinstance(x,int) else _ascii_lower_term(x))
            else:
                if isinstance(x,int): out.append(x-32 if 0x61<=x<=0x7a else x)
                else: out.append(z3.If(z3.And(z3.UGE(x,0x61),z3.ULE(x,0x7a)),x-32,x))
        return StringO([z3.simplify(t) if not isinstance(t,int) else t for t in out])
    return m
def register_misc18(E):
    M=E.model
    M(r'<impl (str|\[u8\])>::eq_ignore_ascii_case$',m_eq_ignore_ascii_case)
    M(r'<impl str>::to_ascii_lowercase$|^String::to_ascii_lowercase$',m_to_ascii_case(True)); M(r'<impl str>::to_ascii_uppercase$|^String::to_ascii_uppercase$',m_to_ascii_case(False))
_old_register_all27=register_all
def register_all(E):
    _old_register_all27(E); register_misc18(E)

# ---- chrono: DateTime::signed_duration_since -> TimeDelta; TimeDelta::{num_nanoseconds,num_seconds}
# A TimeDelta is kept as (whole seconds S: 72-bit signed, nanoseconds N in [0,1e9): 40-bit) - no multiplication by 10^9
# anywhere (a 128-bit product makes z3 give up); num_nanoseconds returns a value whose *sign and zero-ness* are exact and
# whose magnitude is otherwise unconstrained (noted in the model list; a use of the magnitude would surface in the native replay).
def _sx(v,w,to):
    if isinstance(v,int): return z3.BitVecVal(v,to)
    return z3.SignExt(to-w,v)
def m_signed_duration_since(e,run,a,f):
    x=deref(a[0]); y=deref(a[1])
    xs=_sx(x.f[0].signed_val() if x.f[0].conc() else x.f[0].v,64,72); ys=_sx(y.f[0].signed_val() if y.f[0].conc() else y.f[0].v,64,72)
    xn=z3.BitVecVal(x.f[1].v,40) if x.f[1].conc() else z3.ZeroExt(8,x.f[1].v); yn=z3.BitVecVal(y.f[1].v,40) if y.f[1].conc() else z3.ZeroExt(8,y.f[1].v)
    S=xs-ys; N=xn-yn
    neg=N<0
    S=z3.If(neg,S-1,S); N=z3.If(neg,N+1000000000,N)
    return Agg('TimeDelta',[Int(72,True,z3.simplify(S)),Int(40,True,z3.simplify(N))])
def _delta_parts(d):
    d=deref(d); S=d.f[0].v if not isinstance(d.f[0].v,int) else z3.BitVecVal(d.f[0].v,72); N=d.f[1].v if not isinstance(d.f[1].v,int) else z3.BitVecVal(d.f[1].v,40)
    adj=z3.And(S<0,N>0)
    return z3.If(adj,S+1,S), z3.If(adj,N-1000000000,N)       # chrono's num_seconds() / subsec_nanos(): rounded toward zero
def m_delta_num_nanoseconds(e,run,a,f):
    ns,sub=_delta_parts(a[0]); L=9223372036
    fits=z3.And(ns>=-L,ns<=L,z3.Not(z3.And(ns==L,sub>854775807)),z3.Not(z3.And(ns==-L,sub<-854775808)))
    if not run.branch_bool(Bool(z3.simplify(fits)),'delta.fits_i64'): return none()
    k=run.fresh_n['delta']; run.fresh_n['delta']+=1
    v=z3.BitVec('delta_nanos_%d'%k,64)
    isneg=z3.Or(ns<0,z3.And(ns==0,sub<0)); iszero=z3.And(ns==0,sub==0)
    run.add((v<0)==isneg,(v==0)==iszero)
    return some(Int(64,True,v))
def m_delta_num_seconds(e,run,a,f):
    ns,_=_delta_parts(a[0])
    return Int(64,True,z3.simplify(z3.Extract(63,0,ns)))
def m_delta_div(k):
    # num_minutes / num_hours / num_days / num_weeks: num_seconds() / k, truncated toward zero
    def m(e,run,a,f):
        ns,_=_delta_parts(a[0]); q=z3.Extract(63,0,ns)
        return Int(64,True,z3.simplify(z3.If(q<0,-z3.UDiv(-q,z3.BitVecVal(k,64)),z3.UDiv(q,z3.BitVecVal(k,64)))))
    return m
def m_delta_num_millis(e,run,a,f):
    ns,sub=_delta_parts(a[0])
    sm=z3.If(sub<0,-z3.UDiv(-sub,z3.BitVecVal(1000000,40)),z3.UDiv(sub,z3.BitVecVal(1000000,40)))
    return Int(64,True,z3.simplify(z3.Extract(63,0,ns)*1000+z3.SignExt(24,sm)))
def m_delta_subsec_nanos(e,run,a,f):
    if getattr(deref(a[0]),'ty',None)=='StdDuration': return deref(a[0]).f[1]
    _,sub=_delta_parts(a[0]); return Int(32,True,z3.simplify(z3.Extract(31,0,sub)))
def m_delta_const(mult):
    def m(e,run,a,f):
        x=deref(a[0]) if a else Int(64,True,0)
        v=_sx(x.signed_val() if x.conc() else x.v,64,72)*z3.BitVecVal(mult,72) if a else z3.BitVecVal(0,72)
        d=Agg('TimeDelta',[Int(72,True,z3.simplify(v)),Int(40,True,0)])
        return some(d) if '::try_' in f else d
    return m
def _delta_key(d):
    d=deref(d); S=d.f[0].v if not isinstance(d.f[0].v,int) else z3.BitVecVal(d.f[0].v,72); N=d.f[1].v if not isinstance(d.f[1].v,int) else z3.BitVecVal(d.f[1].v,40)
    return S,N
# ---- std::time::Duration = Agg('StdDuration',[secs u64, nanos u32 < 1e9]); SystemTime = Agg('SystemTime',[secs i64, nanos u32])
def _std_dur(secs,nanos): return Agg('StdDuration',[secs,nanos])
def m_std_duration_new(e,run,a,f):
    s=deref(a[0]); n=deref(a[1])
    if n.conc() and n.v<1000000000: return _std_dur(s,n)
    nz=_zi(n); sz=_zi(s); carry=z3.UDiv(nz,z3.BitVecVal(1000000000,32))
    s2=sz+z3.ZeroExt(32,carry)
    if run.branch_bool(Bool(z3.simplify(z3.ULT(s2,sz))),'duration.new.overflow'): raise Panic('overflow in Duration::new')
    return _std_dur(_mki(64,False,s2),_mki(32,False,z3.URem(nz,z3.BitVecVal(1000000000,32))))
def m_std_duration_from(mult_ns):
    def m(e,run,a,f):
        x=deref(a[0]); xz=z3.ZeroExt(64,_zi(x)) if x.w==64 else z3.ZeroExt(128-x.w,_zi(x))
        tot=xz*z3.BitVecVal(mult_ns,128)
        return _std_dur(_mki(64,False,z3.Extract(63,0,z3.UDiv(tot,z3.BitVecVal(1000000000,128)))),_mki(32,False,z3.Extract(31,0,z3.URem(tot,z3.BitVecVal(1000000000,128)))))
    return m
def m_std_duration_get(which):
    def m(e,run,a,f):
        d=deref(a[0])
        if which=='as_secs': return d.f[0]
        if which=='subsec_nanos': return d.f[1]
        if which=='subsec_millis': return _mki(32,False,z3.UDiv(_zi(d.f[1]),z3.BitVecVal(1000000,32)))
        if which=='subsec_micros': return _mki(32,False,z3.UDiv(_zi(d.f[1]),z3.BitVecVal(1000,32)))
        if which=='is_zero': return Bool(z3.simplify(z3.And(_zi(d.f[0])==0,_zi(d.f[1])==0)))
        raise Unsupported(which)
    return m
def _std_cmp(op,x,y):
    s1,n1,s2,n2=_zi(x.f[0]),_zi(x.f[1]),_zi(y.f[0]),_zi(y.f[1])
    lt=z3.Or(z3.ULT(s1,s2),z3.And(s1==s2,z3.ULT(n1,n2))); eq=z3.And(s1==s2,n1==n2)
    t=z3.simplify({'lt':lt,'le':z3.Or(lt,eq),'gt':z3.Not(z3.Or(lt,eq)),'ge':z3.Not(lt),'eq':eq,'ne':z3.Not(eq)}[op])
    return Bool(z3.is_true(t)) if (z3.is_true(t) or z3.is_false(t)) else Bool(t)
def m_systemtime_duration_since(e,run,a,f):
    x=deref(a[0]); y=deref(a[1])
    if isinstance(y,Opaque) or (isinstance(y,Agg) and y.ty!='SystemTime'):
        ys,yn=z3.BitVecVal(0,64),z3.BitVecVal(0,32)          # UNIX_EPOCH
    else: ys,yn=_zi(y.f[0]),(_zi(y.f[1]) if len(y.f)>1 else z3.BitVecVal(0,32))
    xs,xn=_zi(x.f[0]),(_zi(x.f[1]) if len(x.f)>1 else z3.BitVecVal(0,32))
    earlier=z3.Or(xs<ys,z3.And(xs==ys,z3.ULT(xn,yn)))
    if run.branch_bool(Bool(z3.simplify(earlier)),'systemtime.before'): return err(Opaque('SystemTimeError'))
    borrow=z3.ULT(xn,yn)
    return ok(_std_dur(_mki(64,False,z3.If(borrow,xs-ys-1,xs-ys)),_mki(32,False,z3.If(borrow,xn+1000000000-yn,xn-yn))))
def register_std_time(E):
    M=E.model
    M(r'^(std::time::)?Duration::new$',m_std_duration_new)
    M(r'^(std::time::)?Duration::from_secs$',m_std_duration_from(1000000000)); M(r'^(std::time::)?Duration::from_millis$',m_std_duration_from(1000000))
    M(r'^(std::time::)?Duration::from_micros$',m_std_duration_from(1000)); M(r'^(std::time::)?Duration::from_nanos$',m_std_duration_from(1))
    for w in ('as_secs','subsec_millis','subsec_micros'): M(r'^(std::time::)?Duration::%s$'%w,m_std_duration_get(w))
    M(r'^(std::time::)?SystemTime::duration_since$',m_systemtime_duration_since)
def m_delta_cmp(op):
    def m(e,run,a,f):
        if getattr(deref(a[0]),'ty',None)=='StdDuration': return _std_cmp(op,deref(a[0]),deref(a[1]))
        S1,N1=_delta_key(deref(a[0])); S2,N2=_delta_key(deref(a[1]))
        lt=z3.Or(S1<S2,z3.And(S1==S2,N1<N2)); eq=z3.And(S1==S2,N1==N2)
        return Bool(z3.simplify({'lt':lt,'le':z3.Or(lt,eq),'gt':z3.Not(z3.Or(lt,eq)),'ge':z3.Not(lt),'eq':eq,'ne':z3.Not(eq)}[op]))
    return m
def m_delta_is_zero(e,run,a,f):
    if getattr(deref(a[0]),'ty',None)=='StdDuration': return m_std_duration_get('is_zero')(e,run,a,f)
    S,N=_delta_key(a[0]); return Bool(z3.simplify(z3.And(S==0,N==0)))
def m_dt_add_delta(sign):
    def m(e,run,a,f):
        x=deref(a[0]); S,N=_delta_key(a[1])
        xs=_sx(x.f[0].signed_val() if x.f[0].conc() else x.f[0].v,64,72); xn=z3.BitVecVal(x.f[1].v,40) if x.f[1].conc() else z3.ZeroExt(8,x.f[1].v)
        if sign<0: S2=-S-z3.If(N>0,z3.BitVecVal(1,72),z3.BitVecVal(0,72)); N2=z3.If(N>0,1000000000-N,N); S,N=S2,N2
        s=xs+S; n=xn+N; carry=n>=1000000000
        s=z3.If(carry,s+1,s); n=z3.If(carry,n-1000000000,n)
        fits=z3.And(s>=z3.BitVecVal(-8334601228800,72),s<=z3.BitVecVal(8210266876799,72))       # chrono's DateTime range (years -262143..262142)
        okv=run.branch_bool(Bool(z3.simplify(fits)),'datetime.add.in_range')
        r=Agg(x.ty,[Int(64,True,z3.simplify(z3.Extract(63,0,s))),Int(32,False,z3.simplify(z3.Extract(31,0,n)))]+list(x.f[2:]))
        if 'checked_' in f: return some(r) if okv else none()
        if not okv: raise Panic('`DateTime + TimeDelta` overflowed')
        return r
    return m
def m_vec_write_fmt(e,run,a,f):
    v=deref(a[0]); run.precise_debug=True
    try: bl,t=render_args(e,run,a[1])
    finally: run.precise_debug=False
    if t: raise Unsupported('an opaque formatted value is written into a byte buffer')
    v.items.extend(Int(8,False,x) for x in bl)
    return ok(UNIT)
def m_vec_write_all(e,run,a,f):
    v=deref(a[0]); v.items.extend(Int(8,False,x) for x in byte_list(a[1])); return ok(UNIT)
def m_vec_write(e,run,a,f):
    v=deref(a[0]); bl=byte_list(a[1]); v.items.extend(Int(8,False,x) for x in bl); return ok(Int(64,False,len(bl)))
def m_map_get_key_value(e,run,a,f):
    m=deref(a[0]); i=map_find(run,m,a[1])
    return none() if i is None else some(tuple2(Ref(m.e[i],0),Ref(m.e[i],1)))
def m_dt_round_subsecs(mode):
    # SubsecRound::{round,trunc}_subsecs(digits) on a DateTime (digits concrete); leap-second nanoseconds (>= 1e9) stay as they are
    def m(e,run,a,f):
        x=deref(a[0]); d=deref(a[1])
        if not d.conc(): raise Unsupported('round_subsecs with a symbolic digit count')
        if d.v>=9: return x
        span=10**(9-d.v); S=x.f[0]; N=x.f[1]
        s=z3.BitVecVal(S.signed_val(),64) if S.conc() else S.v; n=z3.BitVecVal(N.v,32) if N.conc() else N.v
        rem=z3.URem(n,z3.BitVecVal(span,32)); down=n-rem
        if mode=='trunc': n2=down; s2=s
        else:
            up=z3.UGE(rem+rem,z3.BitVecVal(span,32))          # chrono: delta_down > delta_up -> round up; ties round up
            n3=z3.If(up,down+z3.BitVecVal(span,32),down)
            carry=z3.UGE(n3,z3.BitVecVal(1000000000,32))
            n2=z3.If(carry,n3-z3.BitVecVal(1000000000,32),n3); s2=z3.If(carry,s+1,s)
        leap=z3.UGE(n,z3.BitVecVal(1000000000,32))
        return Agg(x.ty,[_mki(64,True,z3.If(leap,s,s2)),_mki(32,False,z3.If(leap,n,n2))]+list(x.f[2:]))
    return m
def m_dt_with_nanosecond(e,run,a,f):
    x=deref(a[0]); n=deref(a[1])
    okc=e.binop('Lt',n,Int(32,False,2000000000))
    if not run.branch_bool(okc,'with_nanosecond.range'): return none()
    return some(Agg(x.ty,[x.f[0],n]+list(x.f[2:])))
def m_dt_subsec(which):
    def m(e,run,a,f):
        x=deref(a[0]); n=x.f[1]; k={'nanosecond':1,'timestamp_subsec_nanos':1,'timestamp_subsec_micros':1000,'timestamp_subsec_millis':1000000}[which]
        if k==1: return n
        return _mki(32,False,z3.UDiv(_zi(n),z3.BitVecVal(k,32)))
    return m
def register_misc19(E):
    M=E.model
    register_std_time(E)
    M(r'round_subsecs$',m_dt_round_subsecs('round')); M(r'trunc_subsecs$',m_dt_round_subsecs('trunc'))
    M(r'(^|::)with_nanosecond$',m_dt_with_nanosecond)
    for w in ('nanosecond','timestamp_subsec_nanos','timestamp_subsec_micros','timestamp_subsec_millis'): M(r'(^|>::|DateTime::)%s$'%w,m_dt_subsec(w))
    M(r'^<(std::vec::)?Vec<u8> as (std::io::)?Write>::write_fmt$',m_vec_write_fmt); M(r'^<(std::vec::)?Vec<u8> as (std::io::)?Write>::write_all$',m_vec_write_all)
    M(r'^<(std::vec::)?Vec<u8> as (std::io::)?Write>::write$',m_vec_write); M(r'^<(std::vec::)?Vec<u8> as (std::io::)?Write>::flush$',lambda e,run,a,f: ok(UNIT))
    M(r'^(HashMap|BTreeMap)::get_key_value$',m_map_get_key_value)
    # a generic writer `W: Write` bound to a byte vector by the harness (run.ghost['tysubst'])
    def gen_w(fn):
        def m(e,run,a,f):
            if not isinstance(deref(a[0]),VecO): raise Unsupported('generic io::Write on '+repr(deref(a[0]))[:40])
            return fn(e,run,a,f)
        return m
    M(r'^<W as (std::io::)?Write>::write_all$',gen_w(m_vec_write_all)); M(r'^<W as (std::io::)?Write>::write_fmt$',gen_w(m_vec_write_fmt))
    M(r'^<W as (std::io::)?Write>::write$',gen_w(m_vec_write)); M(r'^<W as (std::io::)?Write>::flush$',lambda e,run,a,f: ok(UNIT))
    D=r'^(chrono::)?(TimeDelta|Duration)::'
    M(D+r'num_minutes$',m_delta_div(60)); M(D+r'num_hours$',m_delta_div(3600)); M(D+r'num_days$',m_delta_div(86400)); M(D+r'num_weeks$',m_delta_div(604800))
    M(D+r'num_milliseconds$',m_delta_num_millis); M(D+r'subsec_nanos$',m_delta_subsec_nanos); M(D+r'is_zero$',m_delta_is_zero)
    M(D+r'zero$',m_delta_const(0)); M(D+r'(try_)?seconds$',m_delta_const(1)); M(D+r'(try_)?minutes$',m_delta_const(60)); M(D+r'(try_)?hours$',m_delta_const(3600))
    M(D+r'(try_)?days$',m_delta_const(86400)); M(D+r'(try_)?weeks$',m_delta_const(604800))
    for op in ('lt','le','gt','ge'): M(r'^<(chrono::)?(TimeDelta|Duration) as (std::cmp::)?PartialOrd>::'+op+'$',m_delta_cmp(op))
    for op in ('eq','ne'): M(r'^<(chrono::)?(TimeDelta|Duration) as (std::cmp::)?PartialEq>::'+op+'$',m_delta_cmp(op))
    M(r'^DateTime::checked_add_signed$|^<DateTime<.*> as (std::ops::)?Add<(chrono::)?(TimeDelta|Duration)>>::add$',m_dt_add_delta(1))
    M(r'^DateTime::checked_sub_signed$|^<DateTime<.*> as (std::ops::)?Sub<(chrono::)?(TimeDelta|Duration)>>::sub$',m_dt_add_delta(-1))
    M(r'^DateTime::signed_duration_since$|^<DateTime<.*> as Sub<.*DateTime<.*>>>::sub$',m_signed_duration_since)
    M(r'^(TimeDelta|Duration)::num_nanoseconds$',m_delta_num_nanoseconds); M(r'^(TimeDelta|Duration)::num_seconds$',m_delta_num_seconds)
_old_register_all28=register_all
def register_all(E):
    _old_register_all28(E); register_misc19(E)

# ---- explicit panics: panic!(), assert!(), unreachable!(), todo!() ... all end in one of these
def m_explicit_panic(e,run,a,f):
    msg=''
    try:
        if a: msg=bytes(x for x in byte_list(a[0]) if isinstance(x,int)).decode(errors='replace')
    except Exception: msg=''
    raise Panic('explicit panic (%s): %s'%(strip_t(f)[-40:],msg[:80]),'explicit')
def register_misc20(E):
    E.model(r'^(core::panicking::|std::panicking::|std::rt::)?(panic|panic_fmt|panic_explicit|panic_display|panic_str|panic_str_2015|begin_panic|begin_panic_fmt|panic_nounwind|unreachable_display|assert_failed|assert_failed_inner|panic_cold_explicit|panic_cold_display)$',m_explicit_panic)
    E.model(r'^(core::panicking::)?panic_const::[a-z_0-9]+$',m_explicit_panic)
_old_register_all29=register_all
def register_all(E):
    _old_register_all29(E); register_misc20(E)

# ---- HashMap / BTreeMap / HashSet from an array of pairs
def m_map_from_array(e,run,a,f):
    src=deref(a[0]); ordered='BTreeMap' in f.split(' as ')[0]
    m=MapO(ordered)
    for it in (src.items if isinstance(src,VecO) else src.f):
        t=deref(it); map_insert(run,m,t.f[0],t.f[1])
    return m
def register_misc21(E):
    E.model(r'^<(std::collections::)?(HashMap|BTreeMap)<.*> as From<\[\(.*\); \d+\]>>::from$',m_map_from_array)
_old_register_all30=register_all
def register_all(E):
    _old_register_all30(E); register_misc21(E)

# ---- String::from_utf8_lossy: every maximal invalid prefix of a sequence becomes U+FFFD (std's Utf8Chunks), decided per
# byte class with the same range forks as utf8_valid
def m_from_utf8_lossy_std(e,run,a,f):
    bl=list(byte_list(a[0])); n=len(bl); out=[]; i=0
    def rng(x,lo,hi):
        if isinstance(x,int): return lo<=x<=hi
        ax=allowed(x)
        if ax is not None:
            if all(lo<=v<=hi for v in ax): return True
            if not any(lo<=v<=hi for v in ax): return False
        return run.branch_bool(Bool(z3.And(z3.UGE(x,lo),z3.ULE(x,hi))),'utf8lossy')
    REP=[0xef,0xbf,0xbd]
    while i<n:
        x=bl[i]
        if rng(x,0,0x7f): out.append(x); i+=1; continue
        if rng(x,0xc2,0xdf):
            if i+1<n and rng(bl[i+1],0x80,0xbf): out+=bl[i:i+2]; i+=2
            else: out+=REP; i+=1
            continue
        three=None
        if rng(x,0xe0,0xe0): three=(0xa0,0xbf)
        elif rng(x,0xe1,0xec) or rng(x,0xee,0xef): three=(0x80,0xbf)
        elif rng(x,0xed,0xed): three=(0x80,0x9f)
        if three is not None:
            if i+1<n and rng(bl[i+1],three[0],three[1]):
                if i+2<n and rng(bl[i+2],0x80,0xbf): out+=bl[i:i+3]; i+=3
                else: out+=REP; i+=2
            else: out+=REP; i+=1
            continue
        four=None
        if rng(x,0xf0,0xf0): four=(0x90,0xbf)
        elif rng(x,0xf1,0xf3): four=(0x80,0xbf)
        elif rng(x,0xf4,0xf4): four=(0x80,0x8f)
        if four is not None:
            if i+1<n and rng(bl[i+1],four[0],four[1]):
                if i+2<n and rng(bl[i+2],0x80,0xbf):
                    if i+3<n and rng(bl[i+3],0x80,0xbf): out+=bl[i:i+4]; i+=4
                    else: out+=REP; i+=3
                else: out+=REP; i+=2
            else: out+=REP; i+=1
            continue
        out+=REP; i+=1
    return Agg('Cow',[StringO(out)],1,'Owned')
def register_misc22(E):
    E.model(r'^(std::string::)?String::from_utf8_lossy$',m_from_utf8_lossy_std)
_old_register_all31=register_all
def register_all(E):
    _old_register_all31(E); register_misc22(E)

# ---- thread_local! / RefCell / Cell / Mutex / RwLock (single-threaded semantics: a run is one thread of one process)
def _tls_initial(e,run,keyname):
    """initial value of a thread-local key.  `const { .. }` initialisers have a constant `<KEY>::__RUST_STD_INTERNAL_INIT`; lazily
    initialised keys have a function `__rust_std_internal_init_fn` each (the k-th lazy key owns the k-th such function of the dump)"""
    short=keyname.split('::')[-1]
    def has_const(n): return [b for b in e.bodies if b.kind=='const' and b.name.endswith(n.split('::')[-1]+'::__RUST_STD_INTERNAL_INIT')]
    c=has_const(keyname)
    if c: return e.eval_const(run,c[0])
    # the dump may print the initialiser constant without its owner: it is then the first such constant after the key itself
    bl=list(e.bodies); ki=[i for i,b in enumerate(bl) if b.kind=='const' and b.name==keyname]
    if ki:
        for b in bl[ki[0]+1:]:
            if b.kind=='const' and re.search(r':\s*(std::thread::)?LocalKey<',getattr(b,'header','') or ''): break
            if b.kind=='const' and b.name.split('::')[-1]=='__RUST_STD_INTERNAL_INIT': return e.eval_const(run,b)
    keys=[b.name for b in e.bodies if b.kind=='const' and re.search(r':\s*(std::thread::)?LocalKey<',getattr(b,'header','') or '') and not has_const(b.name)]
    inits=[b for b in e.bodies if b.kind=='fn' and b.name.split('::')[-1]=='__rust_std_internal_init_fn']
    if keyname not in keys or len(inits)!=len(keys): raise Unsupported('thread_local initialiser of '+keyname)
    return e.call_fn(run,inits[keys.index(keyname)],[])
def m_localkey_with(e,run,a,f):
    key=deref(a[0])
    if not (isinstance(key,Opaque) and key.kind=='LocalKey'): raise Unsupported('LocalKey::with on '+repr(key)[:60])
    st=run.ghost.setdefault('statics',{}); nm='tls:'+key.p['name']
    if nm not in st: st[nm]=Ref(Cell(_tls_initial(e,run,key.p['name'])))
    return e.call_value(run,a[1],[st[nm]])
def m_localkey_try_with(e,run,a,f): return ok(m_localkey_with(e,run,a,f))
def m_wrap_new(name):
    def m(e,run,a,f): return Agg(name,[a[0]])
    return m
def m_inner_ref(e,run,a,f): return Ref(deref(a[0]),0)
def m_lock(e,run,a,f): return ok(Ref(deref(a[0]),0))
def m_cell_get(e,run,a,f): return copy_val(deref(a[0]).f[0])
def m_cell_set(e,run,a,f): deref(a[0]).f[0]=a[1]; return UNIT
def m_cell_replace(e,run,a,f):
    c=deref(a[0]); old=c.f[0]; c.f[0]=a[1]; return old
def m_cell_take(e,run,a,f): raise Unsupported('Cell::take')
def m_into_inner(e,run,a,f):
    d=deref(a[0]); return ok(d.f[0]) if d.ty in ('Mutex','RwLock') else d.f[0]
def m_range_contains(e,run,a,f):
    r=deref(a[0]); x=deref(a[1])
    if not (isinstance(r,Agg) and isinstance(x,Int)): raise Unsupported('Range::contains on '+repr(r)[:60])
    lo=lambda: e.binop('Ge',x,deref(r.f[0])); 
    if r.ty=='Range': return b_and(lo(),e.binop('Lt',x,deref(r.f[1])))
    if r.ty=='RangeInclusive': return b_and(lo(),e.binop('Le',x,deref(r.f[1])))
    if r.ty=='RangeFrom': return lo()
    if r.ty=='RangeTo': return e.binop('Lt',x,deref(r.f[0]))
    if r.ty=='RangeToInclusive': return e.binop('Le',x,deref(r.f[0]))
    raise Unsupported('contains on '+r.ty)
def register_misc23(E):
    M=E.model
    M(r'^(std::ops::)?RangeInclusive::new$',lambda e,run,a,f: Agg('RangeInclusive',[a[0],a[1],Bool(False)]))
    M(r'^(std::ops::)?RangeInclusive::(start|end)$',lambda e,run,a,f: Ref(deref(a[0]),0 if f.endswith('start') else 1))
    M(r'^(std::ops::)?(Range|RangeInclusive|RangeFrom|RangeTo|RangeToInclusive)::contains$',m_range_contains)
    M(r'^(std::thread::)?LocalKey::with$',m_localkey_with); M(r'^(std::thread::)?LocalKey::try_with$',m_localkey_try_with)
    M(r'^(std::cell::)?RefCell::new$',m_wrap_new('RefCell')); M(r'^(std::cell::)?RefCell::(borrow|borrow_mut|get_mut|as_ptr)$',m_inner_ref)
    M(r'^(std::cell::)?Cell::new$',m_wrap_new('Cell')); M(r'^(std::cell::)?Cell::get$',m_cell_get); M(r'^(std::cell::)?Cell::set$',m_cell_set); M(r'^(std::cell::)?Cell::replace$',m_cell_replace)
    M(r'^(std::sync::)?Mutex::new$',m_wrap_new('Mutex')); M(r'^(std::sync::)?Mutex::(lock|try_lock)$',m_lock); M(r'^(std::sync::)?Mutex::get_mut$',m_lock)
    M(r'^(std::sync::)?RwLock::new$',m_wrap_new('RwLock')); M(r'^(std::sync::)?RwLock::(read|write|try_read|try_write)$',m_lock)
    M(r'^(std::sync::)?(Mutex|RwLock)::into_inner$|^(std::cell::)?(RefCell|Cell)::into_inner$',m_into_inner)
    M(r'^<(std::cell::)?(Ref|RefMut)<.*> as (std::ops::)?Deref(Mut)?>::deref(_mut)?$',m_guard_deref)
    M(r'^<(std::sync::)?(MutexGuard|RwLockReadGuard|RwLockWriteGuard)<.*> as (std::ops::)?Deref(Mut)?>::deref(_mut)?$',m_guard_deref)
    M(r'^(std::sync::)?(LazyLock|Lazy)::new$',lambda e,run,a,f: Agg('LazyLock',[none(),a[0]]))
    M(r'^<(std::sync::)?(LazyLock|Lazy)<.*> as (std::ops::)?Deref>::deref$|^(std::sync::)?LazyLock::force$',m_lazy_force)
def m_guard_deref(e,run,a,f):
    # a guard is modelled as the reference to the protected value itself: `&guard` / `&mut guard` -> that reference
    x=a[0]
    if isinstance(x,Ref):
        v=x.get()
        if isinstance(v,Ref): return v
    return x
def m_lazy_force(e,run,a,f):
    d=deref(a[0])
    if d.f[0].vname=='None': d.f[0]=some(e.call_value(run,d.f[1],[]))
    return Ref(Cell(d.f[0].f[0]))
_old_register_all32=register_all
def register_all(E):
    _old_register_all32(E); register_misc23(E)

# ---- std::sync::atomic (single-threaded), [T]::sort_by_cached_key
def m_atomic_new(e,run,a,f): return Agg('Atomic',[a[0]])
def m_atomic_load(e,run,a,f): return copy_val(deref(a[0]).f[0])
def m_atomic_store(e,run,a,f): deref(a[0]).f[0]=a[1]; return UNIT
def m_atomic_swap(e,run,a,f):
    c=deref(a[0]); old=c.f[0]; c.f[0]=a[1]; return old
def m_atomic_fetch(op):
    def m(e,run,a,f):
        c=deref(a[0]); old=c.f[0]; c.f[0]=e.binop(op,copy_val(old),a[1]) if op in ('Add','Sub') else e.binop(op,copy_val(old),a[1]); return old
    return m
def m_sort_by_cached_key(e,run,a,f):
    sl=deref(a[0]); fn=a[1]
    if not isinstance(sl,VecO): raise Unsupported('sort_by_cached_key on '+repr(sl)[:60])
    import functools
    keyed=[(e.call_value(run,fn,[Ref(sl,i)]),sl.items[i]) for i in range(len(sl.items))]
    idx=list(range(len(keyed)))
    idx.sort(key=functools.cmp_to_key(lambda i,j: val_cmp(run,keyed[i][0],keyed[j][0])))      # stable
    sl.items[:]=[keyed[i][1] for i in idx]
    return UNIT
def register_misc24(E):
    M=E.model
    A=r'^(std::sync::atomic::)?Atomic(Usize|Isize|U8|U16|U32|U64|I8|I16|I32|I64|Bool)?::'      # AtomicUsize = Atomic<usize> in current std
    M(A+r'new$',m_atomic_new); M(A+r'load$',m_atomic_load); M(A+r'store$',m_atomic_store); M(A+r'swap$',m_atomic_swap)
    M(A+r'fetch_add$',m_atomic_fetch('Add')); M(A+r'fetch_sub$',m_atomic_fetch('Sub')); M(A+r'(get_mut|as_ptr)$',m_inner_ref); M(A+r'into_inner$',lambda e,run,a,f: deref(a[0]).f[0])
    M(r'<impl \[.*\]>::sort_by_cached_key$',m_sort_by_cached_key)
_old_register_all33=register_all
def register_all(E):
    _old_register_all33(E); register_misc24(E)
