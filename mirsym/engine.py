"""mirsym: symbolic executor for rustc MIR text (DESIGN.md §3).

Stateless depth-first exploration over decision prefixes: every path is re-executed from the
entry following a recorded list of choices; z3 decides feasibility at every new symbolic choice.
"""
import os, re, time, itertools, collections, os, sys
import z3
from .parse import parse_file, split_top
from .srcindex import SrcIndex, last_ident
from .values import *

BUILTIN_ENUMS={
 'Option':['None','Some'],'Result':['Ok','Err'],'ControlFlow':['Continue','Break'],
 'Ordering':['Less','Equal','Greater'],
 'serde_json::Value':['Null','Bool','Number','String','Array','Object'],
 'Level':['_0','Error','Warn','Info','Debug','Trace'],
 'LevelFilter':['Off','Error','Warn','Info','Debug','Trace'],
 'Cow':['Borrowed','Owned'],
 'ErrorKind':['NotFound','PermissionDenied','ConnectionRefused','ConnectionReset','HostUnreachable','NetworkUnreachable','ConnectionAborted','NotConnected','AddrInUse','AddrNotAvailable','NetworkDown','BrokenPipe','AlreadyExists','WouldBlock','NotADirectory','IsADirectory','DirectoryNotEmpty','ReadOnlyFilesystem','FilesystemLoop','StaleNetworkFileHandle','InvalidInput','InvalidData','TimedOut','WriteZero','StorageFull','NotSeekable','QuotaExceeded','FileTooLarge','ResourceBusy','ExecutableFileBusy','Deadlock','CrossesDevices','TooManyLinks','InvalidFilename','ArgumentListTooLong','Interrupted','Unsupported','UnexpectedEof','OutOfMemory','InProgress','Other','Uncategorized'],
 'Bound':['Included','Excluded','Unbounded'],
 'SecondsFormat':['Secs','Millis','Micros','Nanos','AutoSi'],
 'Unexpected':['Bool','Unsigned','Signed','Float','Char','Str','Bytes','Unit','Option','NewtypeStruct','Seq','Map','Enum','UnitVariant','NewtypeVariant','TupleVariant','StructVariant','Other'],
}
ORDERING_VALUES={'Less':-1,'Equal':0,'Greater':1}

def strip_generics(s):
    """remove turbofish `::<...>` groups (but keep `::<impl str>` style segments)"""
    out=[]; i=0; n=len(s)
    while i<n:
        if s.startswith('::<',i) and not s.startswith('::<impl',i):
            j=i+2; d=0
            while j<n:
                if s[j]=='<': d+=1
                elif s[j]=='>' and s[j-1] not in '-=':
                    d-=1
                    if d==0: break
                j+=1
            i=j+1; continue
        out.append(s[i]); i+=1
    return ''.join(out)

def rust_str(lit):
    assert lit[0]=='"' and lit[-1]=='"', lit
    s=lit[1:-1]; out=[]; i=0
    while i<len(s):
        c=s[i]
        if c=='\\':
            n=s[i+1]
            if n=='n': out.append(10); i+=2
            elif n=='t': out.append(9); i+=2
            elif n=='r': out.append(13); i+=2
            elif n=='\\': out.append(92); i+=2
            elif n=='"': out.append(34); i+=2
            elif n=="'": out.append(39); i+=2
            elif n=='0': out.append(0); i+=2
            elif n=='x': out.append(int(s[i+2:i+4],16)); i+=4
            elif n=='u':
                j=s.index('}',i); out.extend(chr(int(s[i+3:j],16)).encode()); i=j+1
            elif n=='\n':
                i+=2
                while i<len(s) and s[i] in ' \t\n': i+=1
            else: raise Unsupported('escape '+n)
        else:
            out.extend(c.encode()); i+=1
    return out

def split_as(s):
    """'<T as Trait>::method' -> (T, Trait, method) ; else None"""
    if not s.startswith('<'): return None
    depth=0
    for i,c in enumerate(s):
        if c=='<': depth+=1
        elif c=='>' and s[i-1] not in '-=':
            depth-=1
            if depth==0: break
    inner=s[1:i]; rest=s[i+1:]
    if not rest.startswith('::'): return None
    # find top-level ' as '
    d=0; k=-1
    for j,c in enumerate(inner):
        if c in '<([': d+=1
        elif c in ')]': d-=1
        elif c=='>' and inner[j-1] not in '-=': d-=1
        elif d==0 and inner.startswith(' as ',j): k=j; break
    if k<0: return (inner.strip(),None,rest[2:])
    return (inner[:k].strip(), inner[k+4:].strip(), rest[2:])

class Run:
    """one path execution following a decision prefix"""
    def __init__(self,eng,prefix):
        self.eng=eng; self.prefix=prefix; self.dec=[]; self.labels=[]
        self.solver=eng.solver; self.steps=0; self.log=[]; self.stack=[]; self.ghost={}
        self.fresh_n=collections.Counter(); self.stop_at_new=False; self.model=None; self.forced={}
    def fresh(self,name,sort):
        """path-independent naming: n-th variable of that base name on this path"""
        k=self.fresh_n[name]; self.fresh_n[name]+=1
        nm='%s#%d'%(name,k) if k else name
        if sort=='bool': return z3.Bool(nm)
        return z3.BitVec(nm,sort)
    def add(self,*cs):
        """add constraints to the path condition (invalidates the cached model)"""
        self.solver.add(*cs); self.model=None
    def assume(self,c):
        if c is True: return
        if c is False: raise Infeasible()
        self.solver.add(c)
        self.eng.queries+=1
        if self.solver.check()!=z3.sat: raise Infeasible()
        self.model=self.solver.model()
    def choose(self,options,label=None):
        """options: list of z3 Bool constraints (or True); returns the chosen index"""
        i=len(self.dec); eng=self.eng
        if i<len(self.prefix):
            k=self.prefix[i]
            self.dec.append(k); self.labels.append(label)
            if options[k] is not True: self.solver.add(options[k]); self.model=None
            return k
        feas=[]
        key=None
        if len(options)==2 and options[0] is not True and options[1] is not True:
            try: key=options[0].get_id()
            except Exception: key=None
            if key is not None and key in self.forced:
                k=self.forced[key][0]
                self.dec.append(k); self.labels.append(label)
                self.solver.add(options[k])
                return k
        model=self.model
        for k,o in enumerate(options):
            if o is True: feas.append(k); continue
            if o is False: continue
            if model is not None:
                try:
                    if z3.is_true(model.eval(o,model_completion=True)): feas.append(k); continue
                except z3.Z3Exception: pass
            eng.queries+=1
            t=time.time()
            self.solver.push(); self.solver.add(o)
            r=self.solver.check()
            if r==z3.sat and model is None: self.model=model=self.solver.model()
            self.solver.pop()
            eng.solver_s+=time.time()-t
            if r==z3.sat: feas.append(k)
            elif r!=z3.unsat: raise Unsupported('solver unknown at choice')
        if not feas: raise Infeasible()
        if self.stop_at_new: raise _NewDecision(feas)
        for k in reversed(feas[1:]): eng.work.append(self.dec+[k])
        k=feas[0]
        if len(feas)==1 and key is not None and len(self.dec)>=len(self.prefix): self.forced[key]=(k,options[0])
        if len(feas)>1 and self.model is not None and options[k] is not True:
            # the current model may not satisfy the taken option any more
            try:
                if not z3.is_true(self.model.eval(options[k],model_completion=True)): self.model=None
            except z3.Z3Exception: self.model=None
        self.dec.append(k); self.labels.append(label)
        if options[k] is not True: self.solver.add(options[k])
        return k
    def pick(self,n,label=None):
        """unconstrained n-way nondeterministic choice"""
        if n<=1: return 0
        return self.choose([True]*n,label)
    def branch_bool(self,b,label=None):
        if isinstance(b,bool): return b
        if b.conc(): return b.v
        return self.choose([b.v, z3.Not(b.v)],label)==0
    def check_sat(self,extra):
        """is path-condition ∧ extra satisfiable?  returns (z3 result, model or None)"""
        eng=self.eng; eng.queries+=1; t=time.time()
        self.solver.push(); self.solver.add(extra)
        r=self.solver.check(); m=self.solver.model() if r==z3.sat else None
        smt2=None
        eng.obl_queries=getattr(eng,'obl_queries',0)+1
        rate=eng.second_solver_rate
        if rate and r!=z3.unknown and (eng.obl_queries*2654435761)%(1<<32)%rate==0: smt2=self.solver.to_smt2()
        self.solver.pop(); eng.solver_s+=time.time()-t
        if r==z3.unknown: raise Unsupported('solver unknown at obligation')
        if smt2 is not None: eng.second_opinion(smt2,r)
        return r,m

class Engine:
    def second_opinion(self,smt2,r):
        """re-decide a sampled obligation query with cvc5 (an independent solver); disagreement is never tolerated"""
        import subprocess
        st=self.second_solver
        st['asked']+=1
        # z3 5.x prints the SMT-LIB 2.7 names; cvc5 1.0 knows the older ones
        smt2='(set-logic ALL)\n'+smt2.replace('ubv_to_int','bv2nat').replace('int_to_bv','int2bv')
        try:
            p=subprocess.run(['cvc5','--lang','smt2','--tlimit=3000'],input=smt2.encode(),stdout=subprocess.PIPE,stderr=subprocess.PIPE,timeout=15)
            out=p.stdout.decode(errors='replace').strip().split('\n')[0].strip() if p.stdout else ''
            if 'error' in (p.stdout+p.stderr).decode(errors='replace').lower() and out not in ('sat','unsat'): out='error'
        except Exception as ex: out='error'
        if out not in ('sat','unsat'):
            st['undecided']+=1
            if os.environ.get('VERIF_DUMP_UNDECIDED') and st['undecided']<=2: open('/tmp/undecided_%d_%d.smt2'%(os.getpid(),st['undecided']),'w').write(smt2)
            return
        if (out=='sat')!=(r==z3.sat):
            st['disagree']+=1
            raise Unsupported('second solver (cvc5) disagrees with z3 on an obligation query: z3=%s cvc5=%s'%(r,out))
        st['agree']+=1
    def __init__(self,mirpath,repo='/repo',timeout_ms=10000):
        self.second_solver={'asked':0,'agree':0,'disagree':0,'undecided':0}
        self.second_solver_rate=int(os.environ.get('VERIF_SECOND_SOLVER_RATE','0') or 0)
        t=time.time()
        self.bodies,self.nst,errs,errsamples=parse_file(mirpath)
        # statements the parser does not understand are kept as ('unparsed', text): executing one is Unsupported, their mere presence
        # (e.g. the thread-local plumbing std generates, which the models below bypass) is not
        self.parse_errors=dict(errsamples)
        self.src=SrcIndex(repo)
        self.parse_s=time.time()-t
        self.by_name=collections.defaultdict(list)
        self.impl_index=collections.defaultdict(list)
        self.nested_impls=collections.defaultdict(list)
        self.closure_index={}
        self.const_index=collections.defaultdict(list)
        self.custom_cmp={}
        for b in self.bodies:
            self.by_name[b.name].append(b)
            if b.kind=='fn':
                m=re.search(r'<impl at ([^>]*)>::([A-Za-z_0-9]+)$',b.name)
                if m:
                    tr,ty=self.src.impl_at(m.group(1))
                    if b.name.count('<impl at')>1:
                        # impl nested inside a function (derive helper types such as __SerializeWith / __Visitor / __Field):
                        # self type = type of the first parameter
                        pt=b.params[0][1] if b.params else ''
                        ty=last_ident(pt) if pt else ty
                        if m.group(2)=='deserialize':
                            # no self parameter: the implementing type is the Ok type of the result
                            mr=re.match(r'^(?:std::result::)?Result<(.*)>$',b.ret.strip())
                            if mr: ty=last_ident(re.sub(r"<'[a-z_]+>$",'',split_top(mr.group(1))[0].strip()))
                        self.nested_impls[(tr,ty,m.group(2))].append(b)
                        continue
                    if tr=='EnumIter':
                        # strum's derive: `impl IntoEnumIterator for E` plus the iterator struct `EIter` and its impls
                        meth=m.group(2)
                        if meth=='iter': tr='IntoEnumIterator'
                        else:
                            pt=b.params[0][1] if b.params else ''
                            ty=last_ident(pt) if pt else ty
                            tr={'next':'Iterator','size_hint':'Iterator','nth':'Iterator','next_back':'DoubleEndedIterator','len':'ExactSizeIterator','clone':'Clone','get':None}.get(meth,tr)
                    self.impl_index[(tr,ty,m.group(2))].append(b)
                    # hand-written equality / ordering of a type: collections keyed by it must use it (derived ones are structural)
                    if m.group(1) in self.src.handwritten and (tr,m.group(2)) in (('PartialEq','eq'),('Ord','cmp'),('PartialOrd','partial_cmp')): self.custom_cmp[(tr,ty)]=b
                    if tr=='Error' and m.group(2)=='fmt':       # #[derive(thiserror::Error)] generates the Display impl
                        self.impl_index[('Display',ty,'fmt')].append(b)
                if re.search(r'\{closure#\d+\}$',b.name) and b.params:
                    m=re.search(r'\{closure@([^}]*)\}',b.params[0][1])
                    if m: self.closure_index[m.group(1)]=b
            else:
                self.const_index[b.name.split('::')[-1]].append(b)
        self.enums=dict(BUILTIN_ENUMS)
        for k,v in self.src.enums.items(): self.enums[k]=v
        self.models=[]      # (compiled regex, fn, name)
        self.stubs=[]       # (compiled regex, fn, name)
        self.solver=z3.Solver(); self.solver.set('timeout',timeout_ms)
        self.queries=0; self.solver_s=0.0; self.work=[]
        self.used=collections.Counter(); self.fn_used=collections.Counter()
        self.max_steps=3_000_000
        self.hash_order='all'       # 'all' | 'rot' | 'fixed'
        self.resolve_cache={}
        self.const_cache={}
        self.log_enabled=False
        from . import models as _m, models_json as _mj, models_serde as _ms, models_der as _md, models_de as _mde
        _md.register(self); _mde.register(self); _ms.register(self); _mj.register(self); _m.register_all(self)

    # ---------------------------------------------------------------- registration
    def model(self,pattern,fn,name=None):
        self.models.append((re.compile(pattern),fn,name or pattern)); self.resolve_cache={}
    def stub(self,pattern,fn,name=None):
        self.stubs.insert(0,(re.compile(pattern),fn,name or pattern)); self.resolve_cache={}
    def clear_stubs(self): self.stubs=[]

    # ---------------------------------------------------------------- lookup
    def find_fn(self,suffix):
        """body of a function whose name is `suffix` or ends with `::suffix`"""
        c=[b for n,bs in self.by_name.items() for b in bs if b.kind=='fn' and (n==suffix or n.endswith('::'+suffix))]
        if len(c)==1: return c[0]
        raise Unsupported('find_fn %s: %d candidates'%(suffix,len(c)))
    def find_method(self,trait,ty,method):
        c=self.impl_index.get((trait,ty,method),[])
        if len(c)==1: return c[0]
        raise Unsupported('find_method %s %s %s: %d candidates'%(trait,ty,method,len(c)))

    def type_of(self,v):
        v=deref(v)
        if isinstance(v,Agg): return v.ty
        if isinstance(v,StringO): return 'String'
        if isinstance(v,Str): return 'str'
        if isinstance(v,VecO): return 'Vec'
        if isinstance(v,MapO): return ('BTreeSet' if v.is_set else 'BTreeMap') if v.ordered else ('HashSet' if v.is_set else 'HashMap')
        if isinstance(v,Int): return ('i' if v.s else 'u')+str(v.w)
        if isinstance(v,Bool): return 'bool'
        if isinstance(v,Opaque): return v.kind
        return type(v).__name__

    def resolve_incrate(self,key,argv,caller=None):
        """key: callee text without turbofish.  returns Body or None"""
        sa=split_as(key)
        if sa:
            ty,tr,meth=sa
            if '::' in meth: return None
            if 'serde_json::' in ty or ty.startswith('std::') and False: return None
            tyn=self.src.qualify(last_ident(ty),ty); trn=last_ident(tr) if tr else None
            if 'serde_json' in ty: return None
            c=self.impl_index.get((trn,tyn,meth))
            if c and len(c)==1: return c[0]
            if not c and caller is not None:
                n=[b for b in self.nested_impls.get((trn,tyn,meth),[]) if b.name.startswith(caller+'::') or caller.startswith(b.name.rsplit('::<impl at',1)[0])]
                if len(n)==1: return n[0]
            if c and len(c)>1:
                # several impls of a generic trait for one type (From<A>, From<B>, ...): select by the trait argument
                m=re.match(r'^[A-Za-z_:]+<(.*)>$',tr or '')
                if m:
                    want=last_ident(m.group(1))
                    sel=[b for b in c if b.params and last_ident(b.params[0][1])==want]
                    if len(sel)>1:
                        def two(t):
                            t=re.sub(r'<.*$','',t.strip().lstrip('&')); return '::'.join(t.split('::')[-2:])
                        w2=two(m.group(1))
                        sel2=[b for b in sel if two(b.params[0][1])==w2 or two(b.params[0][1]).endswith('::'+w2) or w2.endswith('::'+two(b.params[0][1]).split('::')[-1]) and two(b.params[0][1]).split('::')[0] in m.group(1)]
                        if len(sel2)==1: return sel2[0]
                    if len(sel)==1: return sel[0]
                    if len(sel)==0: return None
                raise Unsupported('ambiguous impl '+key)
            # generic parameter / dyn: dispatch on run-time type of the receiver
            if (re.match(r'^(dyn |impl )?[A-Z][A-Za-z0-9_]*$',ty) or ty.startswith('dyn ')) and argv and (tyn not in self.src.structs and tyn not in self.src.enums):
                rt=self.type_of(argv[0])
                c=self.impl_index.get((trn,rt,meth))
                if c and len(c)==1: return c[0]
            return None
        parts=key.split('::')
        if len(parts)>=2:
            meth=parts[-1]; tyn=parts[-2]
            if 'serde_json' in parts[:-1]: return None
            tyn=self.src.qualify(last_ident(tyn),key)
            c=self.impl_index.get((None,tyn,meth))
            if c and len(c)==1: return c[0]
            if tyn in self.src.structs or tyn in self.src.enums:
                # trait method called through the type path
                c=[b for (tr,ty,m),bs in self.impl_index.items() if ty==tyn and m==meth for b in bs]
                if len(c)==1: return c[0]
        # free function / tuple constructor: match by path suffix
        c=self.by_name.get(key)
        if c:
            fns=[b for b in c if b.kind=='fn']
            if fns: return fns[0]
        suf='::'+parts[-1] if parts else None
        cands=[b for n,bs in self.by_name.items() if (n==parts[-1] or n.endswith(suf)) for b in bs if b.kind=='fn' and '<impl at' not in n]
        if cands:
            # choose candidates whose full name is a suffix of key or vice versa
            good=[b for b in cands if key.endswith(b.name) or b.name.endswith(key)]
            good=good or []
            if good: return good[0]
        return None

    # ---------------------------------------------------------------- exploration
    def explore(self,entry,mk_args,check,max_paths=200000,prefixes=None,budget=None):
        """entry: Body or python callable(run,args)->value.  mk_args(run)->(args,ghost).
        check(run,outcome,ghost)->record.  returns list of records."""
        self.work=[list(p) for p in prefixes] if prefixes is not None else [[]]
        results=[]; self.npaths=0; self.ninfeasible=0
        while self.work:
            prefix=self.work.pop()
            self.solver.push()
            run=Run(self,prefix)
            BYTE_INFO.clear()
            try:
                args,ghost=mk_args(run)
                try:
                    if callable(entry): ret=entry(run,args)
                    else: ret=self.call_fn(run,entry,args)
                    out=('ret',ret)
                except Panic as p:
                    out=('panic',p.site)
                except Abort as a:
                    out=('abort',a)
                self.npaths+=1
                rec=check(run,out,ghost)
                if rec is not None: results.append(rec)
            except Infeasible:
                self.ninfeasible+=1
            except Unsupported as e:
                e.args=(str(e)+' @ '+' > '.join('%s:%s'%(s[0],s[1]) for s in run.stack[-6:]),)
                raise
            finally:
                self.solver.pop()
            if self.npaths>max_paths: raise Unsupported('path budget %d exhausted'%max_paths)
            if budget is not None and self.npaths+self.ninfeasible>=budget: break
        self.leftover=self.work; self.work=[]
        return results

    def split_work(self,entry,mk_args,want):
        """expand the decision tree breadth-first until >= want open prefixes exist (no checks run)"""
        frontier=[[]]; done=[]
        while frontier and len(frontier)+len(done)<want:
            prefix=frontier.pop(0)
            self.work=[]
            self.solver.push(); run=Run(self,prefix); run.stop_at_new=True
            try:
                try:
                    args,ghost=mk_args(run)
                    if callable(entry): entry(run,args)
                    else: self.call_fn(run,entry,args)
                except (Panic,Abort): pass
                # finished without a new decision: leaf
                done.append(prefix)
            except Infeasible: pass
            except _NewDecision as nd:
                for k in nd.feas: frontier.append(prefix+[k])
            finally:
                self.solver.pop()
        return done+frontier

    # ---------------------------------------------------------------- calling
    def call_fn(self,run,body,args):
        self.fn_used[body.name]+=1
        locs={}
        for i,a in enumerate(args): locs[i+1]=Cell(a)
        bb='bb0'; frame=[body.name,bb]; run.stack.append(frame)
        if len(run.stack)>200: raise Unsupported('call depth')
        blocks=body.blocks
        try:
            while True:
                frame[1]=bb
                nxt=None
                for st in blocks[bb]['stmts']:
                    run.steps+=1
                    k=st[0]
                    if k=='assign':
                        self.place_ref(run,locs,st[1],body).set(self.rvalue(run,locs,st[2],body))
                    elif k=='noop' or k=='nop': pass
                    elif k=='unparsed': raise Unsupported('MIR statement not understood by the parser: '+str(st[1])[:100])
                    elif k=='call':
                        _,lhs,func,aops,tg=st
                        argv=[self.operand(run,locs,a,body) for a in aops]
                        r=self.do_call(run,locs,func,argv,body)
                        nxt=tg.get('return')
                        if nxt is None: raise Unsupported('call without return target: '+func[:80])
                        self.place_ref(run,locs,lhs,body).set(r)
                        break
                    elif k=='goto': nxt=st[1]; break
                    elif k=='switch':
                        v=self.operand(run,locs,st[1],body); run.last_switch=(v,st[1])
                        nxt=self.switch(run,v,st[2]); break
                    elif k=='drop': nxt=st[2]['return']; break
                    elif k=='return':
                        return locs[0].v if 0 in locs else UNIT
                    elif k=='assert':
                        _,neg,cond,msg,tg=st
                        c=self.operand(run,locs,cond,body)
                        if not isinstance(c,Bool): raise Unsupported('assert on '+repr(c))
                        if neg: c=Bool((not c.v) if c.conc() else z3.Not(c.v))
                        if not run.branch_bool(c,'assert'):
                            raise Panic('%s: assert %s'%(body.name,(msg[0] if msg else '')[:60]),'assert')
                        nxt=tg['success']; break
                    elif k=='unreachable': raise Panic('unreachable in '+body.name+' after switch on '+repr(getattr(run,'last_switch',None))[:120],'unreachable')
                    elif k=='setdisc':
                        r=self.place_ref(run,locs,st[1],body); v=r.get()
                        if isinstance(v,Agg) and v.variant==st[2]: pass
                        else: raise Unsupported('setdisc')
                    elif k=='assume': pass
                    else: raise Unsupported('stmt %s: %r'%(k,st[1:2]))
                    if run.steps>self.max_steps: raise Unsupported('step budget')
                if nxt is None: raise Unsupported('fell off block '+bb+' in '+body.name)
                bb=nxt
        finally:
            run.stack.pop()

    def switch(self,run,v,tg):
        if isinstance(v,Bool): v=Int(8,False,(1 if v.v else 0) if v.conc() else z3.If(v.v,z3.BitVecVal(1,8),z3.BitVecVal(0,8)))
        if isinstance(v,Char): v=Int(32,False,v.v)
        if not isinstance(v,Int): raise Unsupported('switch on '+repr(v)[:80])
        keys=[k for k in tg if k!='otherwise']
        def kv(k):
            x=int(k)
            return x&((1<<v.w)-1)
        if v.conc():
            for k in keys:
                if kv(k)==v.v: return tg[k]
            if 'otherwise' not in tg: raise Unsupported('switch no target')
            return tg['otherwise']
        opts=[v.v==kv(k) for k in keys]
        if 'otherwise' in tg: opts.append(z3.And(*[v.v!=kv(k) for k in keys]) if keys else True)
        i=run.choose(opts,'switch')
        return tg[keys[i]] if i<len(keys) else tg['otherwise']

    # ---------------------------------------------------------------- places
    def place_ref(self,run,locs,p,body):
        k=p[0]
        if k=='local':
            c=locs.get(p[1])
            if c is None: c=locs[p[1]]=Cell(None)
            return Ref(c)
        if k=='deref':
            r=self.place_ref(run,locs,p[1],body).get()
            if isinstance(r,Ref): return r
            raise Unsupported('deref of '+repr(r)[:80])
        if k=='field':
            br=self.place_ref(run,locs,p[1],body); base=br.get()
            if isinstance(base,Agg):
                if p[2]>=len(base.f): raise Unsupported('field %d of %r'%(p[2],base)[:120])
                return Ref(base,p[2])
            if isinstance(base,Ref): return br      # Box/Unique/NonNull internals: the pointer itself
            if isinstance(base,(StringO,VecO)) : return br   # String.vec / Vec.buf style internals
            raise Unsupported('field .%d of %s'%(p[2],repr(base)[:80]))
        if k=='downcast':
            base=self.place_ref(run,locs,p[1],body); b=base.get()
            if isinstance(b,Agg) and (b.vname==p[2] or b.vname is None): return base
            raise Unsupported(('downcast %s of %r'%(p[2],b))[:120])
        if k=='index':
            base=self.place_ref(run,locs,p[1],body).get()
            idx=p[2].strip()
            m=re.match(r'^_(\d+)$',idx)
            if m: iv=locs[int(m.group(1))].v
            else:
                m=re.match(r'^(-?\d+) of (\d+)$',idx)
                if not m: raise Unsupported('index form '+idx)
                iv=Int(64,False,int(m.group(1)))
            if not iv.conc():
                if isinstance(base,VecO) and base.items and all(isinstance(deref(x),Int) and deref(x).conc() for x in base.items) and len(base.items)<=256:
                    n=len(base.items); first=deref(base.items[0])
                    if run.branch_bool(Bool(z3.UGE(iv.v,n)),'index_oob'): raise Panic(body.name+': index out of bounds (symbolic)','index')
                    t=z3.BitVecVal(deref(base.items[n-1]).v,first.w)
                    for k in range(n-2,-1,-1): t=z3.If(iv.v==k,z3.BitVecVal(deref(base.items[k]).v,first.w),t)
                    return Ref(Cell(Int(first.w,first.s,z3.simplify(t))))
                if isinstance(base,(Str,StringO)) and base.b and all(isinstance(x,int) for x in base.b) and len(base.b)<=256:
                    n=len(base.b)
                    if run.branch_bool(Bool(z3.UGE(iv.v,n)),'index_oob'): raise Panic(body.name+': index out of bounds (symbolic)','index')
                    t=z3.BitVecVal(base.b[n-1],8)
                    for k in range(n-2,-1,-1): t=z3.If(iv.v==k,z3.BitVecVal(base.b[k],8),t)
                    return Ref(Cell(Int(8,False,z3.simplify(t))))
                raise Unsupported('symbolic index into '+repr(base)[:120])
            if isinstance(base,VecO):
                if iv.v>=len(base.items): raise Panic(body.name+': index out of bounds','index')
                return Ref(base,iv.v)
            if isinstance(base,(Str,StringO)):
                if iv.v>=len(base.b): raise Panic(body.name+': index out of bounds','index')
                return Ref(Cell(Int(8,False,base.b[iv.v])))
            raise Unsupported('index of '+repr(base)[:60])
        raise Unsupported('place '+k)

    # ---------------------------------------------------------------- operands / rvalues
    def operand(self,run,locs,o,body):
        k=o[0]
        if k=='move': return self.place_ref(run,locs,o[1],body).get()
        if k=='copy': return copy_val(self.place_ref(run,locs,o[1],body).get())
        if k=='const': return self.const(run,o[1],body)
        if k=='fnitem': return FnItem(o[1])
        raise Unsupported('operand '+k)

    def const(self,run,s,body):
        m=re.match(r'^(-?\d+)_(u|i)(8|16|32|64|128|size)$',s)
        if m:
            w=64 if m.group(3)=='size' else int(m.group(3))
            return Int(w,m.group(2)=='i',int(m.group(1)))
        if s=='true': return Bool(True)
        if s=='false': return Bool(False)
        if s=='()' : return UNIT
        if s.startswith('"'): return Ref(Cell(Str(rust_str(s))))
        if s.startswith('b"'): return Ref(Cell(Str(rust_str(s[1:]),is_str=False)))
        if s.startswith("'"):
            inner=rust_str('"'+s[1:-1]+'"')
            return Char(ord(bytes(inner).decode()))
        if s.startswith('ZeroSized: '):
            t=s[11:]
            if t.startswith('{closure@'): return Closure(t[9:-1],[])
            return FnItem(t)
        m=re.search(r'promoted\[(\d+)\]$',s)
        if m:
            nm=body.name
            # a promoted of a promoted/const body keeps the owner's name
            nm=re.sub(r'::promoted\[\d+\]$','',nm)
            key=nm+'::promoted[%s]'%m.group(1)
            bs=self.by_name.get(key)
            if not bs: raise Unsupported('promoted not found: '+key)
            return self.eval_const(run,bs[0])
        if s=='log::STATIC_MAX_LEVEL': return Agg('LevelFilter',[],5,'Trace')
        m=re.search(r'static\(DefId\([^~]*~ [^:]*::(?:[A-Za-z_0-9]+::)*([A-Za-z_0-9]+)\)\)',s)
        if m:
            cands=self.const_index.get(m.group(1),[])
            if len(cands)>=1:
                # one cell per static per run: a static lives as long as the process, i.e. across the calls a harness makes in one run
                st=run.ghost.setdefault('statics',{})
                if m.group(1) not in st:
                    v=self.eval_const(run,cands[0])
                    if isinstance(v,Opaque): v=Opaque(v.kind,None if isinstance(v.p,dict) else v.p)     # never share mutable state between runs
                    else:
                        from .models import clone_val
                        v=clone_val(v)
                    st[m.group(1)]=Ref(Cell(v))
                return st[m.group(1)]
        m=re.match(r'^\{(alloc\d+): &',s)
        if m:
            from . import parse as _p
            st=_p.ALLOC_STATICS.get(m.group(1))
            if st:
                nm=st.split('::')[-1]; stt=run.ghost.setdefault('statics',{})
                if 'alloc:'+nm not in stt:       # one cell per static per run
                    cands=self.const_index.get(nm,[])
                    if len(cands)==1 and cands[0].kind=='const' and (getattr(cands[0],'header','') or '').startswith('static '):
                        # a static of this crate: its initialiser is in the dump (e.g. `static CACHE: Mutex<..> = Mutex::new(None)`)
                        v=self.eval_const(run,cands[0])
                        if isinstance(v,Opaque): v=Opaque(v.kind,None if isinstance(v.p,dict) else v.p)
                        stt['alloc:'+nm]=Ref(Cell(v))
                    else: stt['alloc:'+nm]=Ref(Cell(Opaque('static:'+nm)))       # a static of another crate (e.g. ring's algorithm constants)
                return stt['alloc:'+nm]
        mlit=re.match(r'^(.*?)\s*\{\{(.*)\}\}$',s)
        if mlit:
            # constant struct literal: `Path {{ field: value, .. }}`
            nm=strip_generics(mlit.group(1).strip()); inner=mlit.group(2).strip()
            fields=[]
            if inner:
                for fld in split_top(inner):
                    val=fld.split(':',1)[1].strip() if ':' in fld else fld
                    fields.append(Agg('PhantomData',[]) if val.startswith('PhantomData') else self.const(run,val,body))
            return Agg(self.src.qualify(nm.split('::')[-1],nm),fields)
        if re.match(r'^[A-Za-z_][A-Za-z0-9_:<>\' ,]*$',s):
            key=strip_generics(s)
            last=key.split('::')[-1]
            cands=[b for b in self.const_index.get(last,[]) if key.endswith(b.name) or b.name.endswith(key)]
            if len(cands)>=1: return self.eval_const(run,cands[0])
            # unit struct / unit variant used as a constant
            parts=key.split('::')
            if len(parts)>=2 and parts[-2] in self.enums and last in self.enums[parts[-2]]:
                return Agg(parts[-2],[],self.enums[parts[-2]].index(last),last)
            if last in self.src.structs and not self.src.structs[last]: return Agg(last,[])
            if last in ('RangeFull','PhantomData'): return Agg(last,[])
            if re.match(r'^(__)?[A-Z][A-Za-z0-9_]*$',last) and last.upper()!=last: return Agg(self.src.qualify(last,key),[])
            return Opaque('const:'+key)
        return Opaque('const:'+s)

    def eval_const(self,run,b):
        hdr=getattr(b,'header','') or ''
        if b.kind=='const' and re.search(r':\s*(std::thread::)?LocalKey<',hdr):
            # a `thread_local!` key: identified by its name; the value lives in the per-run static store (one thread per run)
            return Opaque('LocalKey',{'name':b.name})
        v=self.call_fn(run,b,[])
        return v

    def rvalue(self,run,locs,r,body):
        k=r[0]
        if k=='use': return self.operand(run,locs,r[1],body)
        if k=='ref' or k=='rawref': return self.place_ref(run,locs,r[2],body)
        if k=='discriminant':
            v=self.place_ref(run,locs,r[1],body).get()
            if isinstance(v,Ref): v=deref(v)        # `&&T == &&T` resolved to T's eq: look through the extra reference
            if isinstance(v,Agg) and v.variant is not None: return Int(64,True,v.variant)
            raise Unsupported('discriminant of '+repr(v)[:80])
        if k=='binop': return self.binop(r[1],self.operand(run,locs,r[2],body),self.operand(run,locs,r[3],body),body)
        if k=='unop': return self.unop(r[1],self.operand(run,locs,r[2],body))
        if k=='agg_tuple': return self.mk_agg(r[1],[self.operand(run,locs,a,body) for a in r[2]])
        if k=='agg_unit': return self.mk_agg(r[1],[])
        if k=='agg_named':
            if r[1].startswith('{closure@'):
                return Closure(r[1][9:-1],[self.operand(run,locs,a,body) for _,a in r[2]])
            return self.mk_agg(r[1],[self.operand(run,locs,a,body) for _,a in r[2]])
        if k=='tuple': return Agg('()',[self.operand(run,locs,a,body) for a in r[1]])
        if k=='array': return VecO([self.operand(run,locs,a,body) for a in r[1]])
        if k=='repeat':
            v=self.operand(run,locs,r[1],body); n=r[2].strip()
            m=re.match(r'^(?:const )?(\d+)(?:_usize)?$',n)
            if not m: raise Unsupported('repeat count '+n)
            return VecO([copy_val(v) for _ in range(int(m.group(1)))])
        if k=='len':
            v=deref(self.place_ref(run,locs,r[1],body).get())
            return Int(64,False,self.len_of(v))
        if k=='ptrmetadata':
            v=deref(self.operand(run,locs,r[1],body))
            return Int(64,False,self.len_of(v))
        if k=='cast':
            v=self.operand(run,locs,r[1],body)
            ty=r[2].strip()
            m=re.match(r'^(u|i)(8|16|32|64|128|size)$',ty)
            if m:
                w=64 if m.group(2)=='size' else int(m.group(2)); sg=m.group(1)=='i'
                if isinstance(v,Bool):
                    return Int(w,sg,(1 if v.v else 0) if v.conc() else z3.If(v.v,z3.BitVecVal(1,w),z3.BitVecVal(0,w)))
                if isinstance(v,Char): return Int(w,sg,v.v)
                if isinstance(v,Str) and len(v.b)>=1:
                    if len(v.b)==1: return Int(w,sg,v.b[0] if isinstance(v.b[0],int) else (z3.ZeroExt(w-8,v.b[0]) if w>8 else v.b[0]))
                    raise Unsupported('integer cast of a symbolic multi-byte character')
                if isinstance(v,Int):
                    if v.conc(): return Int(w,sg,v.signed_val())
                    if w>v.w: return Int(w,sg,z3.SignExt(w-v.w,v.v) if v.s else z3.ZeroExt(w-v.w,v.v))
                    if w<v.w: return Int(w,sg,z3.Extract(w-1,0,v.v))
                    return Int(w,sg,v.v)
                if isinstance(v,Agg) and v.variant is not None and not v.f: return Int(w,sg,v.variant)
                raise Unsupported('int cast of '+repr(v)[:60])
            if ty=='char' and isinstance(v,Int) and v.conc(): return Char(v.v)
            return v
        raise Unsupported('rvalue '+k)

    def len_of(self,v):
        if isinstance(v,VecO): return len(v.items)
        if isinstance(v,(Str,StringO)): return len(v.b)
        raise Unsupported('len of '+repr(v)[:60])

    def mk_agg(self,path,fields):
        key=strip_generics(path)
        parts=key.split('::')
        last=parts[-1]; prev=parts[-2] if len(parts)>1 else None
        if prev is not None:
            if 'serde_json' in parts and prev=='Value':
                tab=self.enums['serde_json::Value']; return Agg('serde_json::Value',fields,tab.index(last),last)
            if prev=='__Field':
                # identifier enum generated by serde's derive: __field0.., then __ignore / __other
                mf=re.match(r'^__field(\d+)$',last)
                if mf: return Agg('__Field',fields,int(mf.group(1)),last)
                return Agg('__Field',fields,self.derive_field_count(path),last)
            if 'derp' in parts and prev=='Error': return Agg('derp::Error',fields,self.enums['derp::Error'].index(last),last)
            if prev in self.enums and last in self.enums[prev]:
                return Agg(prev,fields,self.enums[prev].index(last),last)
        if prev is None and last not in self.src.structs:
            owners=[en for en,vs in self.enums.items() if last in vs and '::' not in en]
            if len(owners)==1: return Agg(owners[0],fields,self.enums[owners[0]].index(last),last)
        return Agg(self.src.qualify(last,key),fields)

    def derive_field_count(self,path):
        """number of __fieldN variants of the identifier enum of the derive named in `path` (read off the MIR of that derive)"""
        m=re.search(r"for ([A-Za-z_:0-9]+)>",path)
        key=m.group(1) if m else path
        if key in self.const_cache: return self.const_cache[key]
        tyn=self.src.qualify(last_ident(key),key)
        c=self.impl_index.get(('Deserialize',tyn,'deserialize'),[])
        n=0
        if c:
            prefix=c[0].name.rsplit('::deserialize',1)[0]
            for b in self.bodies:
                if b.name.startswith(prefix):
                    for k in re.findall(r"__Field(?:::<[^>]*>)?::__field(\d+)",getattr(b,'raw','') or ''): n=max(n,int(k)+1)
        self.const_cache[key]=n
        return n

    def unop(self,op,a):
        if op=='Not':
            if isinstance(a,Bool): return Bool((not a.v) if a.conc() else z3.Not(a.v))
            if isinstance(a,Int): return Int(a.w,a.s,(~a.v) if a.conc() else ~a.v)
        if op=='Neg' and isinstance(a,Int): return Int(a.w,a.s,(-a.v) if a.conc() else -a.v)
        if op=='PtrMetadata': return Int(64,False,self.len_of(deref(a)))
        raise Unsupported('unop %s %r'%(op,a))

    def binop(self,op,a,b,body=None):
        if isinstance(a,Char): a=Int(32,False,a.v)
        if isinstance(b,Char): b=Int(32,False,b.v)
        if isinstance(a,Bool) and isinstance(b,Bool):
            if a.conc() and b.conc():
                x,y=a.v,b.v
                return Bool({'Eq':x==y,'Ne':x!=y,'BitAnd':x and y,'BitOr':x or y,'BitXor':x!=y}[op])
            x,y=a.z(),b.z()
            return Bool({'Eq':x==y,'Ne':x!=y,'BitAnd':z3.And(x,y),'BitOr':z3.Or(x,y),'BitXor':z3.Xor(x,y)}[op])
        if isinstance(a,Int) and isinstance(b,Int):
            w=a.w; s=a.s; M=(1<<w)-1
            base=op.replace('WithOverflow','').replace('Unchecked','')
            if a.conc() and b.conc():
                x,y=a.v,b.v; sx=a.signed_val(); sy=Int(w,s,b.v).signed_val() if b.w==w else b.v
                if op=='Lt': return Bool(sx<sy)
                if op=='Le': return Bool(sx<=sy)
                if op=='Gt': return Bool(sx>sy)
                if op=='Ge': return Bool(sx>=sy)
                if op=='Eq': return Bool(x==y)
                if op=='Ne': return Bool(x!=y)
                if op=='Cmp': return Agg('Ordering',[],None,'Less' if sx<sy else ('Equal' if sx==sy else 'Greater'))._ord()
                if base in ('Add','Sub','Mul'):
                    r=sx+sy if base=='Add' else (sx-sy if base=='Sub' else sx*sy)
                    lo,hi=(-(1<<(w-1)),(1<<(w-1))-1) if s else (0,M)
                    res=Int(w,s,r)
                    if op.endswith('WithOverflow'): return Agg('()',[res,Bool(not(lo<=r<=hi))])
                    return res
                if op=='Div':
                    if sy==0: raise Panic('division by zero','div')
                    q=abs(sx)//abs(sy); q=q if (sx<0)==(sy<0) else -q
                    return Int(w,s,q)
                if op=='Rem':
                    if sy==0: raise Panic('remainder by zero','div')
                    q=abs(sx)//abs(sy); q=q if (sx<0)==(sy<0) else -q
                    return Int(w,s,sx-q*sy)
                if op=='BitAnd': return Int(w,s,x&y)
                if op=='BitOr': return Int(w,s,x|y)
                if op=='BitXor': return Int(w,s,x^y)
                if base=='Shl': return Int(w,s,x<<(y%w))
                if base=='Shr': return Int(w,s,(sx>>(y%w)))
            x,y=a.z(),b.z()
            if b.w!=w:
                y=z3.ZeroExt(w-b.w,y) if b.w<w else z3.Extract(w-1,0,y)
            if op=='Lt': return Bool(x<y if s else z3.ULT(x,y))
            if op=='Le': return Bool(x<=y if s else z3.ULE(x,y))
            if op=='Gt': return Bool(x>y if s else z3.UGT(x,y))
            if op=='Ge': return Bool(x>=y if s else z3.UGE(x,y))
            if op=='Eq': return Bool(x==y)
            if op=='Ne': return Bool(x!=y)
            if base=='Add':
                if op.endswith('WithOverflow'):
                    ov=z3.Or(z3.Not(z3.BVAddNoOverflow(x,y,s)),z3.Not(z3.BVAddNoUnderflow(x,y))) if s else z3.Not(z3.BVAddNoOverflow(x,y,False))
                    return Agg('()',[Int(w,s,x+y),Bool(ov)])
                return Int(w,s,x+y)
            if base=='Sub':
                if op.endswith('WithOverflow'):
                    ov=z3.Or(z3.Not(z3.BVSubNoOverflow(x,y)),z3.Not(z3.BVSubNoUnderflow(x,y,True))) if s else z3.ULT(x,y)
                    return Agg('()',[Int(w,s,x-y),Bool(ov)])
                return Int(w,s,x-y)
            if base=='Mul':
                if op.endswith('WithOverflow'):
                    ov=z3.Or(z3.Not(z3.BVMulNoOverflow(x,y,s)),z3.Not(z3.BVMulNoUnderflow(x,y))) if s else z3.Not(z3.BVMulNoOverflow(x,y,False))
                    return Agg('()',[Int(w,s,x*y),Bool(ov)])
                return Int(w,s,x*y)
            if op=='BitAnd': return Int(w,s,x&y)
            if op=='BitOr': return Int(w,s,x|y)
            if op=='BitXor': return Int(w,s,x^y)
            if base=='Shl': return Int(w,s,x<<y)
            if base=='Shr': return Int(w,s,(x>>y) if s else z3.LShR(x,y))
            if op in ('Div','Rem'):
                # divisor zero -> panic path
                run=self._cur_run
                if run.branch_bool(Bool(y==0),'divzero'): raise Panic('division by zero','div')
                if op=='Div': return Int(w,s,(x/y) if s else z3.UDiv(x,y))
                return Int(w,s,z3.SRem(x,y) if s else z3.URem(x,y))
        if op in ('Eq','Ne') and isinstance(a,Agg) and isinstance(b,Agg) and a.variant is not None and not a.f and not b.f:
            return Bool((a.variant==b.variant)==(op=='Eq'))
        if op in ('Eq','Ne') and isinstance(a,Ref) and isinstance(b,Ref):
            same=(a.c is b.c and a.k==b.k)
            return Bool(same==(op=='Eq'))
        raise Unsupported('binop %s %r %r'%(op,a,b))

    # ---------------------------------------------------------------- calls
    def do_call(self,run,locs,func,argv,body):
        self._cur_run=run
        if func.startswith(('move ','copy ')):
            # indirect call through a fn pointer / closure value held in a local
            from .parse import parse_operand
            fv=self.operand(run,locs,parse_operand(func),body)
            return self.call_value(run,fv,argv)
        key=strip_generics(func)
        return self.call_named(run,key,argv,func)

    def call_named(self,run,key,argv,func=None):
        func=func or key
        caller=run.stack[-1][0] if run.stack else None
        ck=(key,self.type_of(argv[0]) if argv else None,caller if '__' in key else None)
        hit=self.resolve_cache.get(ck)
        if hit is None:
            hit=self._resolve(key,argv,caller)
            self.resolve_cache[ck]=hit
        kind,target,name=hit
        if kind=='body': return self.call_fn(run,target,argv)
        if kind=='none': raise Unsupported('no model for call: '+key[:200])
        self.used[name]+=1
        return target(self,run,argv,func)
    def _resolve(self,key,argv,caller=None):
        for pat,fn,name in self.stubs:
            if pat.search(key): return ('stub',fn,'stub:'+name)
        # `<&A as PartialEq<&B>>::{eq,ne}` is std's blanket impl over references: it forwards to A's own eq with one reference peeled
        m=re.match(r'^<&+.* as PartialEq(?:<&+.*>)?>::(eq|ne)$',key)
        if m:
            if m.group(1)=='eq': return ('model',lambda e,run,a,f: e.eq(run,a[0],a[1]),'model:<&A as PartialEq<&B>>::eq')
            from .models import b_not
            return ('model',lambda e,run,a,f: b_not(e.eq(run,a[0],a[1])),'model:<&A as PartialEq<&B>>::ne')
        b=self.resolve_incrate(key,argv,caller)
        if b is not None: return ('body',b,None)
        for pat,fn,name in self.models:
            if pat.search(key): return ('model',fn,'model:'+name)
        return ('none',None,None)

    def call_value(self,run,f,args):
        """call a closure / fn item / python callable with untupled args"""
        if isinstance(f,Ref): f=deref(f)
        if isinstance(f,PyFn): return f.fn(*args)
        if isinstance(f,FnItem):
            return self.call_named(run,strip_generics(f.name),list(args),f.name)
        if isinstance(f,Closure):
            b=self.closure_index.get(f.name)
            if b is None: raise Unsupported('closure body '+f.name)
            first=b.params[0][1].strip()
            a0=Ref(Cell(f.env)) if first.startswith('&') else f.env
            return self.call_fn(run,b,[a0]+list(args))
        raise Unsupported('call_value of '+repr(f)[:80])


    # ---------------------------------------------------------------- helpers used by models
    def clone(self,run,v):
        """Clone::clone(&T): in-crate impl from MIR if there is one, else structural copy"""
        d=deref(v)
        if isinstance(d,Agg):
            c=self.impl_index.get(('Clone',d.ty,'clone'))
            if c and len(c)==1:
                return self.call_fn(run,c[0],[ref1(v)])
        from .models import clone_val
        return clone_val(d)

    def eq(self,run,a,b):
        """PartialEq::eq(&a,&b): in-crate impl from MIR if the type has one, else structural"""
        from .models import val_eq
        da=deref(a)
        if isinstance(da,Agg):
            c=self.impl_index.get(('PartialEq',da.ty,'eq'))
            if c and len(c)==1:
                ra=a if isinstance(a,Ref) else Ref(Cell(da)); db=deref(b); rb=b if isinstance(b,Ref) else Ref(Cell(db))
                # peel double references so both sides are &T
                while isinstance(ra.get(),Ref): ra=ra.get()
                while isinstance(rb.get(),Ref): rb=rb.get()
                return self.call_fn(run,c[0],[ra,rb])
        return val_eq(a,b)

    def display(self,run,v):
        """ToString via the in-crate Display impl"""
        d=deref(v)
        if isinstance(d,Agg) and d.ty=='serde_json::Number':
            from .models_json import number_text
            return StringO(number_text(run,d))
        c=self.impl_index.get(('Display',self.type_of(d),'fmt'))
        if not c or len(c)!=1: raise Unsupported('Display of '+self.type_of(d))
        buf=StringO([])
        fm=Ref(Cell(Opaque('Formatter',buf)))
        r=self.call_fn(run,c[0],[ref1(v),fm])
        return buf

    def fmt_value(self,run,kind,val):
        """bytes of one format argument -> (byte list, tainted?)"""
        d=deref(val)
        if kind=='debug':
            # precise only where the text lands in a byte buffer (`write!(vec, "{:?}", s)`); in messages built with format!()
            # the text is opaque (forking on every byte of every error message would explode decoders of untrusted bytes)
            if getattr(run,'precise_debug',False) and isinstance(d,(Str,StringO)) and not d.taint and getattr(d,'is_str',True): return self.debug_str(run,d.b),False
            return list(b'<dbg>'),True
        if kind in ('lower_hex','upper_hex'):
            # {:x} / {:X} without width or fill (a template with a width uses opcodes the template decoder rejects as Unsupported)
            if not isinstance(d,Int): raise Unsupported('hex formatting of '+repr(d)[:40])
            if d.conc():
                t=('%x' if kind=='lower_hex' else '%X')%(d.v&((1<<d.w)-1)); return list(t.encode()),False
            if d.w!=8: raise Unsupported('hex formatting of a symbolic %d-bit integer'%d.w)
            from .models import hex_char
            hc=(lambda n: hex_char(n)) if kind=='lower_hex' else (lambda n: z3.If(z3.ULT(n,10),n+0x30,n+0x37))
            if run.branch_bool(Bool(z3.ULT(d.v,16)),'hex.onedigit'): return [z3.simplify(hc(d.v&0x0f))],False
            return [z3.simplify(hc(z3.LShR(d.v,4))),z3.simplify(hc(d.v&0x0f))],False
        if isinstance(d,(Str,StringO)): return list(d.b),d.taint
        if isinstance(d,Int):
            if d.conc(): return list(str(d.signed_val()).encode()),False
            return list(b'<int>'),True
        if isinstance(d,Char): return list(chr(d.v).encode()),False
        if isinstance(d,Bool) and d.conc(): return list(b'true' if d.v else b'false'),False
        if isinstance(d,Agg) and d.ty=='Cow': return self.fmt_value(run,kind,d.f[0])
        if isinstance(d,Agg) and self.impl_index.get(('Display',d.ty,'fmt')):
            s=self.display(run,val); return list(s.b),s.taint
        if isinstance(d,Opaque) and d.kind=='DelayedFormat':
            from .models import render_delayed
            return list(render_delayed(self,run,d).encode()),False
        if isinstance(d,Opaque): return list(b'<opaque>'),True
        raise Unsupported('fmt_value '+repr(d)[:60])

def _debug_str(self,run,bs):
    """`{:?}` of a str (core::fmt `<str as Debug>`): quotes, \\ \" \t \r \n \0 escapes, `\\u{..}` for characters that are not printable
    or extend a grapheme (approximated from Python's unicodedata: categories C*, Z* other than space, Mn, Me), everything else raw.
    Symbolic bytes are taken to be ASCII when they can be (a symbolic byte >= 0x80 is passed through raw)."""
    import unicodedata
    out=[0x22]
    def esc_cp(cp): return list(('\\u{%x}'%cp).encode())
    conc=all(isinstance(x,int) for x in bs)
    if conc:
        for ch in bytes(bs).decode(errors='replace'):
            cp=ord(ch)
            if ch=='"': out+=[0x5c,0x22]
            elif ch=='\\': out+=[0x5c,0x5c]
            elif ch=='\t': out+=[0x5c,0x74]
            elif ch=='\r': out+=[0x5c,0x72]
            elif ch=='\n': out+=[0x5c,0x6e]
            elif cp==0: out+=[0x5c,0x30]
            elif unicodedata.category(ch) in ('Mn','Me') or (not ch.isprintable() and ch!=' '): out+=esc_cp(cp)
            else: out+=list(ch.encode())
        return out+[0x22]
    for x in bs:
        if isinstance(x,int):
            if x>=0x80: out.append(x); continue
            out+=_debug_str(self,run,[x])[1:-1]; continue
        def is_(c): return run.branch_bool(Bool(x==c),'debug.char')
        if is_(0x22): out+=[0x5c,0x22]
        elif is_(0x5c): out+=[0x5c,0x5c]
        elif is_(0x09): out+=[0x5c,0x74]
        elif is_(0x0d): out+=[0x5c,0x72]
        elif is_(0x0a): out+=[0x5c,0x6e]
        elif is_(0): out+=[0x5c,0x30]
        elif run.branch_bool(Bool(z3.Or(z3.ULT(x,0x20),x==0x7f)),'debug.control'):
            from .models import hex_char
            if run.branch_bool(Bool(z3.ULT(x,16)),'debug.onedigit'): out+=[0x5c,0x75,0x7b,z3.simplify(hex_char(x&0x0f)),0x7d]
            else: out+=[0x5c,0x75,0x7b,z3.simplify(hex_char(z3.LShR(x,4))),z3.simplify(hex_char(x&0x0f)),0x7d]
        else: out.append(x)
    return out+[0x22]
Engine.debug_str=_debug_str

def ref1(v):
    """a single-level reference to the (non-reference) value behind v"""
    if not isinstance(v,Ref): return Ref(Cell(v))
    while isinstance(v.get(),Ref): v=v.get()
    return v

class _NewDecision(Exception):
    def __init__(self,feas): self.feas=feas

def _ord(self):
    self.variant=['Less','Equal','Greater'].index(self.vname); return self
Agg._ord=_ord
