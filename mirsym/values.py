"""Value model of the MIR symbolic executor (DESIGN.md §3.2)."""
import z3

class Unsupported(Exception):
    """the executor met something it has no semantics for -> INCONCLUSIVE, never a pass"""
class Panic(Exception):
    def __init__(self,site,kind='panic'):
        Exception.__init__(self,site); self.site=site; self.kind=kind
class Infeasible(Exception): pass
class Abort(Exception):
    """raised by stubs to end a path early with a harness-defined outcome"""
    def __init__(self,tag,payload=None):
        Exception.__init__(self,tag); self.tag=tag; self.payload=payload

class V: pass

class Int(V):
    __slots__=('w','s','v')
    def __init__(self,w,s,v):
        self.w=w; self.s=s
        if isinstance(v,int): v&=(1<<w)-1
        elif z3.is_bv_value(v): v=v.as_long()
        self.v=v
    def conc(self): return isinstance(self.v,int)
    def z(self): return z3.BitVecVal(self.v,self.w) if isinstance(self.v,int) else self.v
    def signed_val(self):
        x=self.v
        if self.s and x>>(self.w-1): x-=1<<self.w
        return x
    def __repr__(self): return "%s%d(%s)"%('i' if self.s else 'u',self.w,self.v)

class Bool(V):
    __slots__=('v',)
    def __init__(self,v):
        if not isinstance(v,bool):
            v=z3.simplify(v)
            if z3.is_true(v): v=True
            elif z3.is_false(v): v=False
        self.v=v
    def conc(self): return isinstance(self.v,bool)
    def z(self): return z3.BoolVal(self.v) if isinstance(self.v,bool) else self.v
    def __repr__(self): return "Bool(%s)"%(self.v,)

class Char(V):
    __slots__=('v',)
    def __init__(self,v): self.v=v      # python int code point (concrete only)
    def __repr__(self): return "Char(%r)"%chr(self.v)

class Unit(V):
    def __repr__(self): return '()'
UNIT=Unit()

class Agg(V):
    """struct / tuple / enum variant: mutable list of fields"""
    __slots__=('ty','f','variant','vname','ghost')
    def __init__(self,ty,fields,variant=None,vname=None):
        self.ty=ty; self.f=list(fields); self.variant=variant; self.vname=vname; self.ghost=None
    def __repr__(self):
        h=self.ty+('::'+self.vname if self.vname else '')
        return "%s%r"%(h,self.f)

class Str(V):
    """immutable byte string slice (str / [u8]); elements are python ints or z3 BV8 terms"""
    __slots__=('b','is_str','taint','ghost')
    def __init__(self,b,is_str=True,taint=False,ghost=None): self.b=list(b); self.is_str=is_str; self.taint=taint; self.ghost=ghost
    def __repr__(self):
        try: return 'Str(%r)'%bytes(self.b)
        except Exception: return 'Str(sym,len=%d)'%len(self.b)

class StringO(V):
    """owned String (mutable byte list)"""
    __slots__=('b','taint','ghost')
    def __init__(self,b,taint=False,ghost=None): self.b=list(b); self.taint=taint; self.ghost=ghost
    def __repr__(self):
        try: return 'String(%r%s)'%(bytes(self.b),'~' if self.taint else '')
        except Exception: return 'String(sym,len=%d)'%len(self.b)

class VecO(V):
    """Vec<T> / [T;N] / [T] : mutable list of values (u8 elements are Int(8))"""
    __slots__=('items',)
    def __init__(self,items): self.items=list(items)
    def __repr__(self): return "Vec%r"%(self.items,)

class MapO(V):
    """HashMap/HashSet (ordered=False) or BTreeMap/BTreeSet (ordered=True): association list"""
    __slots__=('e','ordered','is_set','tag')
    def __init__(self,ordered=False,is_set=False,tag=None): self.e=[]; self.ordered=ordered; self.is_set=is_set; self.tag=tag
    def __repr__(self): return "%s%r"%('BTree' if self.ordered else 'Hash',self.e)

class Cell:
    __slots__=('v',)
    def __init__(self,v=None): self.v=v
    def __repr__(self): return 'Cell(%r)'%(self.v,)

class Ref(V):
    """pointer to (container, key): Cell (key None), Agg field, VecO index, list index"""
    __slots__=('c','k')
    def __init__(self,c,k=None): self.c=c; self.k=k
    def get(self):
        c=self.c
        if isinstance(c,Cell): return c.v
        if isinstance(c,Agg): return c.f[self.k]
        if isinstance(c,VecO): return c.items[self.k]
        if isinstance(c,list): return c[self.k]
        raise Unsupported('ref get '+type(c).__name__)
    def set(self,v):
        c=self.c
        if isinstance(c,Cell): c.v=v
        elif isinstance(c,Agg): c.f[self.k]=v
        elif isinstance(c,VecO): c.items[self.k]=v
        elif isinstance(c,list): c[self.k]=v
        else: raise Unsupported('ref set')
    def __repr__(self):
        try: return "&%r"%(self.get(),)
        except Exception: return '&?'

class Closure(V):
    __slots__=('name','env')
    def __init__(self,name,caps): self.name=name; self.env=Agg('closure',caps)
    def __repr__(self): return 'Closure(%s)'%self.name
class FnItem(V):
    __slots__=('name',)
    def __init__(self,name): self.name=name
    def __repr__(self): return 'FnItem(%s)'%self.name
class PyFn(V):
    """a python callable usable where a closure is expected (used by models)"""
    __slots__=('fn',)
    def __init__(self,fn): self.fn=fn

class Iter(V):
    """lazy iterator: source items + position + adaptor chain"""
    __slots__=('items','pos','adapt','back','inner','extra','lazy')
    def __init__(self,items,adapt=None):
        self.items=list(items); self.pos=0; self.adapt=list(adapt or []); self.back=len(self.items); self.inner=None; self.extra=None
        self.lazy=None      # hash-map source whose iteration order has not been chosen yet: the mode ('all' / 'rot'); see models.force_order

class Opaque(V):
    __slots__=('kind','p')
    def __init__(self,kind,payload=None): self.kind=kind; self.p=payload
    def __repr__(self): return "Opaque<%s>"%self.kind

def deref(v):
    while isinstance(v,Ref): v=v.get()
    return v

def some(x): return Agg('Option',[x],1,'Some')
def none(): return Agg('Option',[],0,'None')
def ok(x): return Agg('Result',[x],0,'Ok')
def err(x): return Agg('Result',[x],1,'Err')

def copy_val(v):
    """semantics of `copy`: duplicate by-value aggregates, share everything behind pointers"""
    if isinstance(v,Agg):
        a=Agg(v.ty,[copy_val(x) for x in v.f],v.variant,v.vname); a.ghost=v.ghost; return a
    return v

BYTE_INFO={}
def allowed(x):
    """set of byte values a symbolic byte term is known to range over (hex digits, decimal digits ...) or None"""
    if isinstance(x,int): return frozenset([x])
    try:
        r=BYTE_INFO.get(x.get_id())
        return r[1] if r is not None else None
    except Exception: return None
def note_allowed(x,vals):
    # the term is stored with its id so that the id cannot be recycled for another term while the entry lives
    if not isinstance(x,int): BYTE_INFO[x.get_id()]=(x,frozenset(vals))
    return x

def bterm(x):
    return z3.BitVecVal(x,8) if isinstance(x,int) else x

def byte_list(v):
    """list of byte terms of any byte-like value"""
    v=deref(v)
    if isinstance(v,(Str,StringO)): return v.b
    if isinstance(v,VecO):
        out=[]
        for it in v.items:
            it=deref(it)
            if not isinstance(it,Int): raise Unsupported('byte_list of non-byte vec')
            out.append(it.v)
        return out
    if isinstance(v,Agg) and len(v.f)==1: return byte_list(v.f[0])
    raise Unsupported('byte_list of '+repr(v)[:60])

def is_tainted(v):
    v=deref(v)
    return isinstance(v,(Str,StringO)) and v.taint

def conc_bytes(bl):
    """bytes if all concrete else None"""
    if all(isinstance(x,int) for x in bl): return bytes(bl)
    return None

def mk_string(s,taint=False):
    if isinstance(s,str): s=s.encode()
    return StringO(list(s),taint)
def mk_str(s):
    if isinstance(s,str): s=s.encode()
    return Ref(Cell(Str(list(s))))
def u8vec(bl): return VecO([Int(8,False,x) for x in bl])
