"""Symbolic proleptic-Gregorian calendar arithmetic over z3 bit-vectors (dependency model of chrono's date maths).

Instants are seconds since 1970-01-01T00:00:00 (local wall-clock seconds where an offset has already been added), restricted to
the years 0001..9999 (`in_range`): inside that range every intermediate fits 40 bits and all divisions are unsigned divisions
by constants.  The algorithms are Howard Hinnant's `civil_from_days` / `days_from_civil` (public domain), the ones chrono's
own implementation is equivalent to on that range; the model is validated against Python's `datetime` by
`selftest()` (run by check.py --selftest) and on every run by the native replay of sampled paths.

fields(secs)      -> dict of z3 terms  Y m d H M S  G (ISO week-based year)  V (ISO week)  u (weekday Mon=1..Sun=7)  j (day of year)
render(fields,fmt)-> list of byte terms for a strftime pattern (fixed-width specifiers only)
parse_rfc3339(bytes) -> (ok-condition z3 Bool, local seconds term, offset seconds term) for a text whose separators are
                     concrete and whose digits may be symbolic
"""
import z3
from .values import note_allowed, allowed

W=40
MIN_SECS=-62135596800          # 0001-01-01T00:00:00
MAX_SECS=253402300799          # 9999-12-31T23:59:59
def bv(x): return z3.BitVecVal(x,W)
def in_range(secs64):
    """z3 Bool: the 64-bit signed second count lies in 0001..9999"""
    return z3.And(secs64>=z3.BitVecVal(MIN_SECS,64),secs64<=z3.BitVecVal(MAX_SECS,64))
def _days_tod(secs64):
    # shift to a non-negative count first: seconds since 0000-03-01 (Hinnant's epoch shift of 719468 days)
    s=z3.Extract(W-1,0,secs64+z3.BitVecVal(719468*86400,64))
    return z3.UDiv(s,bv(86400)),z3.URem(s,bv(86400))
def _civil(z):
    """z = days since 0000-03-01 (non-negative, W bits) -> (y, m, d, doy_from_march)"""
    era=z3.UDiv(z,bv(146097)); doe=z-era*bv(146097)
    yoe=z3.UDiv(doe-z3.UDiv(doe,bv(1460))+z3.UDiv(doe,bv(36524))-z3.UDiv(doe,bv(146096)),bv(365))
    y=yoe+era*bv(400)
    doy=doe-(bv(365)*yoe+z3.UDiv(yoe,bv(4))-z3.UDiv(yoe,bv(100)))
    mp=z3.UDiv(bv(5)*doy+bv(2),bv(153))
    d=doy-z3.UDiv(bv(153)*mp+bv(2),bv(5))+bv(1)
    m=z3.If(z3.ULT(mp,bv(10)),mp+bv(3),mp-bv(9))
    y=z3.If(z3.ULE(m,bv(2)),y+bv(1),y)
    return y,m,d
def is_leap(y): return z3.And(z3.URem(y,bv(4))==0,z3.Or(z3.URem(y,bv(100))!=0,z3.URem(y,bv(400))==0))
def days_from_civil(y,m,d):
    """days since 0000-03-01 for a civil date (y >= 0)"""
    y2=z3.If(z3.ULE(m,bv(2)),y-bv(1),y)
    era=z3.UDiv(y2,bv(400)); yoe=y2-era*bv(400)
    mp=z3.If(z3.UGT(m,bv(2)),m-bv(3),m+bv(9))
    doy=z3.UDiv(bv(153)*mp+bv(2),bv(5))+d-bv(1)
    doe=yoe*bv(365)+z3.UDiv(yoe,bv(4))-z3.UDiv(yoe,bv(100))+doy
    return era*bv(146097)+doe
def fields(secs64):
    z,tod=_days_tod(secs64)
    y,m,d=_civil(z)
    H=z3.UDiv(tod,bv(3600)); M=z3.UDiv(z3.URem(tod,bv(3600)),bv(60)); S=z3.URem(tod,bv(60))
    # 0000-03-01 was a Wednesday: weekday with Monday=0
    wd=z3.URem(z+bv(2),bv(7))
    thu=z-wd+bv(3)                               # the Thursday of this ISO week
    G,_,_=_civil(thu)
    jan1G=days_from_civil(G,bv(1),bv(1))
    V=z3.UDiv(thu-jan1G,bv(7))+bv(1)
    j=z-days_from_civil(y,bv(1),bv(1))+bv(1)
    return {'Y':y,'m':m,'d':d,'H':H,'M':M,'S':S,'G':G,'V':V,'u':wd+bv(1),'j':j,'y':z3.URem(y,bv(100)),'g':z3.URem(G,bv(100)),'C':z3.UDiv(y,bv(100))}
DIGITS=frozenset(range(0x30,0x3a))
def _digits(term,n):
    out=[]
    for k in reversed(range(n)):
        d=z3.URem(z3.UDiv(term,bv(10**k)),bv(10))
        out.append(note_allowed(z3.simplify(z3.Extract(7,0,d)+z3.BitVecVal(0x30,8)),DIGITS))
    return out
WIDTH={'Y':4,'G':4,'m':2,'d':2,'H':2,'M':2,'S':2,'V':2,'j':3,'y':2,'g':2,'C':2,'u':1}
class NoSymbolicRendering(Exception): pass
def render(f,fmt,offset_secs=0):
    """bytes of strftime(fmt) for the symbolic fields f; fixed-width numeric specifiers, literals, %F %T %z %:z (concrete offset)"""
    out=[]; i=0
    while i<len(fmt):
        c=fmt[i]
        if c!='%': out+=list(c.encode()); i+=1; continue
        sp=fmt[i+1]; i+=2
        if sp=='%': out.append(0x25); continue
        if sp=='F': out+=render(f,'%Y-%m-%d'); continue
        if sp=='T': out+=render(f,'%H:%M:%S'); continue
        if sp==':' and fmt[i:i+1]=='z':
            i+=1; o=abs(offset_secs); out+=list(('%s%02d:%02d'%('+' if offset_secs>=0 else '-',o//3600,(o%3600)//60)).encode()); continue
        if sp=='z':
            o=abs(offset_secs); out+=list(('%s%02d%02d'%('+' if offset_secs>=0 else '-',o//3600,(o%3600)//60)).encode()); continue
        if sp in WIDTH: out+=_digits(f[sp],WIDTH[sp]); continue
        raise NoSymbolicRendering('%'+sp)
    return out

def _num(ds):
    v=bv(0)
    for d in ds:
        dv=bv(d-0x30) if isinstance(d,int) else z3.ZeroExt(W-8,d-z3.BitVecVal(0x30,8))
        v=v*bv(10)+dv
    return v
def _isdigit(x):
    if isinstance(x,int): return z3.BoolVal(0x30<=x<=0x39)
    ax=allowed(x)
    if ax is not None and ax<=DIGITS: return z3.BoolVal(True)
    return z3.And(z3.UGE(x,0x30),z3.ULE(x,0x39))
def parse_rfc3339(b):
    """b: byte terms of `YYYY-MM-DDTHH:MM:SS(Z|+hh:mm|-hh:mm)` (no fraction) with concrete separators.
    Returns None if the shape does not fit (caller falls back), else (ok, local_secs64, offset_secs int-or-term, nanos=0)."""
    n=len(b)
    if n not in (20,25): return None
    sep={4:b'-',7:b'-',10:b'Tt ',13:b':',16:b':'}
    for p,cs in sep.items():
        if not isinstance(b[p],int) or b[p] not in cs: return None
    dig=[0,1,2,3,5,6,8,9,11,12,14,15,17,18]
    ok=[_isdigit(b[p]) for p in dig]
    if n==20:
        if not isinstance(b[19],int) or b[19] not in b'Zz': return None
        off=0
    else:
        if not isinstance(b[19],int) or b[19] not in b'+-' or b[22]!=0x3a: return None
        if not all(isinstance(b[p],int) and 0x30<=b[p]<=0x39 for p in (20,21,23,24)): return None
        hh=(b[20]-0x30)*10+(b[21]-0x30); mm=(b[23]-0x30)*10+(b[24]-0x30)
        if hh>23 or mm>59: return (z3.BoolVal(False),None,0,0)
        off=(1 if b[19]==0x2b else -1)*(hh*3600+mm*60)
    y=_num(b[0:4]); m=_num(b[5:7]); d=_num(b[8:10]); H=_num(b[11:13]); M=_num(b[14:16]); S=_num(b[17:19])
    dim=z3.If(m==2,z3.If(is_leap(y),bv(29),bv(28)),z3.If(z3.Or(m==4,m==6,m==9,m==11),bv(30),bv(31)))
    ok+=[z3.UGE(m,bv(1)),z3.ULE(m,bv(12)),z3.UGE(d,bv(1)),z3.ULE(d,dim),z3.ULE(H,bv(23)),z3.ULE(M,bv(59)),z3.ULE(S,bv(60))]
    # a leap second (SS=60) is read as :59 plus a full second of nanoseconds by chrono; the instant compares as :59.999.. < x:00
    Sx=z3.If(S==bv(60),bv(59),S)
    days=days_from_civil(y,m,d)
    secs=days*bv(86400)+H*bv(3600)+M*bv(60)+Sx
    secs64=z3.ZeroExt(64-W,secs)-z3.BitVecVal(719468*86400,64)
    return (z3.simplify(z3.And(*ok)),secs64,off,z3.If(S==bv(60),z3.BitVecVal(1000000000,32),z3.BitVecVal(0,32)))

def selftest(n=400,seed=1):
    """compare fields()/render()/parse_rfc3339() with Python's datetime on boundary and random instants"""
    import datetime, random
    rnd=random.Random(seed)
    pts=[MIN_SECS,MAX_SECS,0,-1,951782400,951868799,946684799,946684800,1767052800,1767139200,1767225599,4107542400-1]
    for y in (1,4,100,400,1900,2000,2024,2025,2026,2100,9999):
        for (mo,d) in ((1,1),(1,2),(1,3),(2,28),(3,1),(12,28),(12,29),(12,30),(12,31)):
            pts.append(int((datetime.datetime(y,mo,d,12,34,56)-datetime.datetime(1970,1,1)).total_seconds()))
    pts+=[rnd.randint(MIN_SECS,MAX_SECS) for _ in range(n)]
    fmt='%G-%V-%u|%Y-%m-%dT%H:%M:%SZ|%j|%y|%C'
    bad=[]
    for s in pts:
        t=datetime.datetime(1970,1,1)+datetime.timedelta(seconds=s)
        f=fields(z3.BitVecVal(s,64))
        got=bytes(z3.simplify(x).as_long() if not isinstance(x,int) else x for x in render(f,fmt)).decode()
        iso=t.isocalendar()
        want='%04d-%02d-%d|%s|%03d|%02d|%02d'%(iso[0],iso[1],iso[2],'%04d-%02d-%02dT%02d:%02d:%02dZ'%(t.year,t.month,t.day,t.hour,t.minute,t.second),t.timetuple().tm_yday,t.year%100,t.year//100)
        if got!=want: bad.append((s,got,want)); continue
        txt=list(('%04d-%02d-%02dT%02d:%02d:%02dZ'%(t.year,t.month,t.day,t.hour,t.minute,t.second)).encode())
        okc,secs,off,_=parse_rfc3339(txt)
        if not z3.is_true(z3.simplify(okc)) or z3.simplify(secs).as_signed_long()!=s: bad.append((s,'parse',str(z3.simplify(secs))))
    return bad
