"""Index of the crate's *source* items that the MIR text refers to only by span or by position:

* impl blocks: `<impl at src/f.rs:L:C: L2:C2>` -> (trait name or None, self type name)
  (for derive-generated impls the span points into `#[derive(..)]`; the self type is the next item)
* struct field names -> indices (declaration order, which is the MIR field index)
* enum variant names -> indices

Everything is re-read from /repo's working tree on every run.
"""
import os, re

def strip_comments(src):
    """replace comments and string literal contents by spaces, keeping offsets and newlines"""
    out=list(src); i=0; n=len(src)
    while i<n:
        c=src[i]
        if src.startswith('//',i):
            j=src.find('\n',i)
            if j<0: j=n
            for k in range(i,j): out[k]=' '
            i=j
        elif src.startswith('/*',i):
            j=src.find('*/',i+2); j=n if j<0 else j+2
            for k in range(i,j):
                if out[k]!='\n': out[k]=' '
            i=j
        elif c=='"':
            # raw strings r#"..."# are handled by the caller seeing 'r#' before; keep simple
            j=i+1
            while j<n and src[j]!='"':
                if src[j]=='\\': j+=1
                j+=1
            for k in range(i+1,min(j,n)):
                if out[k]!='\n': out[k]=' '
            i=j+1
        elif c=="'" :
            # char literal or lifetime
            m=re.match(r"'(\\.|[^\\'])'",src[i:i+4]) or re.match(r"'\\u\{[0-9a-fA-F]+\}'",src[i:i+12]) or re.match(r"'\\x[0-9a-fA-F]{2}'",src[i:i+6])
            if m:
                for k in range(i+1,i+m.end()-1): out[k]=' '
                i+=m.end()
            else: i+=1
        elif c=='r' and re.match(r'r(#+)"',src[i:i+6]):
            m=re.match(r'r(#+)"',src[i:i+6]); hashes=m.group(1)
            j=src.find('"'+hashes,i+m.end()); j=n if j<0 else j
            for k in range(i+m.end(),j):
                if out[k]!='\n': out[k]=' '
            i=j+1+len(hashes)
        else: i+=1
    return ''.join(out)

def match_brace(s,i,open_='{',close='}'):
    depth=0
    for j in range(i,len(s)):
        if s[j]==open_: depth+=1
        elif s[j]==close:
            depth-=1
            if depth==0: return j
    return len(s)-1

def split_top_commas(s):
    out=[]; depth=0; cur=[]
    for i,c in enumerate(s):
        if c in '([{<': depth+=1
        elif c in ')]}': depth-=1
        elif c=='>' and not (i>0 and s[i-1] in '-='): depth-=1
        if c==',' and depth==0:
            out.append(''.join(cur)); cur=[]
        else: cur.append(c)
    t=''.join(cur)
    if t.strip(): out.append(t)
    return out

def last_ident(ty):
    """short name of a type path: strip generics/refs, last path segment"""
    ty=ty.strip()
    ty=re.sub(r"^&(\s*'[a-z_]+)?\s*(mut\s+)?",'',ty)
    ty=re.sub(r'^(dyn|impl)\s+','',ty)
    # cut generics
    depth=0; out=[]
    for i,c in enumerate(ty):
        if c=='<': depth+=1
        elif c=='>' and not (i>0 and ty[i-1] in '-='): depth-=1
        elif depth==0: out.append(c)
    ty=''.join(out).strip()
    return ty.split('::')[-1].strip()

class SrcIndex:
    def __init__(self,repo):
        self.repo=repo
        self.files={}        # rel path -> (raw, stripped, line_offsets)
        self.structs={}      # name -> [field names] (tuple structs: ['0','1',..])
        self.struct_types={} # name -> [field type text]
        self.enums={}        # name -> [variant names]
        self.enum_payload={} # name -> {variant: [field names] or count}
        self.item_mod={}     # name -> [rel file paths defining it]
        self._defs={}
        for root,_,fs in os.walk(os.path.join(repo,'src')):
            for f in fs:
                if f.endswith('.rs'):
                    p=os.path.join(root,f); rel=os.path.relpath(p,repo)
                    raw=open(p,encoding='utf-8').read()
                    st=strip_comments(raw)
                    offs=[0]
                    for m in re.finditer('\n',raw): offs.append(m.end())
                    self.files[rel]=(raw,st,offs)
                    self._index_items(rel,st)
        self._impl_cache={}; self.handwritten=set()      # spans of impl blocks written by hand (as opposed to derive-generated ones)
        self._qualify_dups()

    def _qualify_dups(self):
        """item names defined in more than one file: the first definition keeps the bare name, the others are
        qualified with their module stem (e.g. `shims::PublicKey`)"""
        self.dups={}
        for name,files in self.item_mod.items():
            if len(files)<2: continue
            d={}
            for i,rel in enumerate(sorted(files)):
                stem=os.path.splitext(os.path.basename(rel))[0]
                if stem=='mod': stem=os.path.basename(os.path.dirname(rel))
                d[rel]=name if i==0 else stem+'::'+name
            self.dups[name]=d
            for rel,q in d.items():
                if q!=name and (name,rel) in self._defs:
                    kind,names,types,pl=self._defs[(name,rel)]
                    if kind=='struct': self.structs[q]=names; self.struct_types[q]=types
                    else: self.enums[q]=names; self.enum_payload[q]=pl
            # the bare name must describe the first file's definition
            first=sorted(files)[0]
            if (name,first) in self._defs:
                kind,names,types,pl=self._defs[(name,first)]
                if kind=='struct': self.structs[name]=names; self.struct_types[name]=types
                else: self.enums[name]=names; self.enum_payload[name]=pl
    def qualify(self,name,text=''):
        """qualified item name for a type mentioned as `text` (a path) whose last identifier is `name`"""
        d=getattr(self,'dups',{}).get(name)
        if not d: return name
        for rel,q in d.items():
            if q!=name and (q.split('::')[0]+'::') in text: return q
        return name
    def qualify_in_file(self,name,rel):
        d=getattr(self,'dups',{}).get(name)
        if not d: return name
        return d.get(rel,name)

    def _index_items(self,rel,st):
        for m in re.finditer(r'\b(struct|enum)\s+([A-Za-z_][A-Za-z0-9_]*)\s*(<[^{;(]*>)?\s*(where[^{;]*)?([{(;])',st):
            kind,name,opener=m.group(1),m.group(2),m.group(5)
            i=m.end()-1
            key=name
            if kind=='struct':
                if opener=='{':
                    j=match_brace(st,i); body=st[i+1:j]
                    names=[];types=[]
                    for f in split_top_commas(body):
                        f=re.sub(r'#\[[^\]]*\]','',f,flags=re.S).strip()
                        f=re.sub(r'#\[(?:[^\[\]]|\[[^\]]*\])*\]','',f,flags=re.S).strip()
                        mm=re.match(r'^(?:pub(?:\([^)]*\))?\s+)?([A-Za-z_][A-Za-z0-9_]*)\s*:\s*(.*)$',f,flags=re.S)
                        if mm: names.append(mm.group(1)); types.append(' '.join(mm.group(2).split()))
                elif opener=='(':
                    j=match_brace(st,i,'(',')'); body=st[i+1:j]
                    fs=[x for x in split_top_commas(body) if x.strip()]
                    names=[str(k) for k in range(len(fs))]
                    types=[' '.join(re.sub(r'^\s*(?:pub(?:\([^)]*\))?\s+)?','',x).split()) for x in fs]
                else:
                    names=[];types=[]
                self.structs.setdefault(key,names); self.struct_types.setdefault(key,types); self._defs[(name,rel)]=('struct',names,types,None)
            else:
                j=match_brace(st,i); body=st[i+1:j]
                vs=[];pl={}
                for v in split_top_commas(body):
                    v=re.sub(r'#\[(?:[^\[\]]|\[[^\]]*\])*\]','',v,flags=re.S).strip()
                    mm=re.match(r'^([A-Za-z_][A-Za-z0-9_]*)\s*(.*)$',v,flags=re.S)
                    if not mm: continue
                    vs.append(mm.group(1)); rest=mm.group(2).strip()
                    if rest.startswith('{'):
                        inner=rest[1:match_brace(rest,0)]
                        fn=[]
                        for f in split_top_commas(inner):
                            f=re.sub(r'#\[(?:[^\[\]]|\[[^\]]*\])*\]','',f,flags=re.S).strip()
                            m2=re.match(r'^([A-Za-z_][A-Za-z0-9_]*)\s*:',f)
                            if m2: fn.append(m2.group(1))
                        pl[mm.group(1)]=fn
                    elif rest.startswith('('):
                        inner=rest[1:match_brace(rest,0,'(',')')]
                        pl[mm.group(1)]=[str(k) for k in range(len([x for x in split_top_commas(inner) if x.strip()]))]
                    else: pl[mm.group(1)]=[]
                self.enums.setdefault(key,vs); self.enum_payload.setdefault(key,pl); self._defs[(name,rel)]=('enum',vs,None,pl)
            self.item_mod.setdefault(name,[]).append(rel)

    def offset(self,rel,line,col):
        raw,st,offs=self.files[rel]
        return offs[line-1]+col-1

    def impl_at(self,span):
        """span 'src/f.rs:L:C: L2:C2' -> (trait or None, selftype short name)"""
        if span in self._impl_cache: return self._impl_cache[span]
        m=re.match(r'^(.*?):(\d+):(\d+): (\d+):(\d+)$',span)
        if not m: return (None,None)
        rel=m.group(1)
        if rel not in self.files: return (None,None)
        raw,st,offs=self.files[rel]
        a=self.offset(rel,int(m.group(2)),int(m.group(3))); b=self.offset(rel,int(m.group(4)),int(m.group(5)))
        text=st[a:b]
        res=(None,None)
        if text.lstrip().startswith('impl'):
            self.handwritten.add(span)
            j=st.find('{',a)
            hdr=' '.join(st[a:j].split())
            hdr=re.sub(r'\bwhere\b.*$','',hdr).strip()
            h=hdr[4:].strip()
            if h.startswith('<'):
                # generic params
                depth=0
                for k,c in enumerate(h):
                    if c=='<': depth+=1
                    elif c=='>':
                        depth-=1
                        if depth==0: break
                h=h[k+1:].strip()
            mm=re.match(r'^(.*?)\s+for\s+(.*)$',h)
            if mm: res=(last_ident(mm.group(1)), self.qualify_in_file(last_ident(mm.group(2)),rel) if '::' not in mm.group(2).split('<')[0] else self.qualify(last_ident(mm.group(2)),mm.group(2)))
            else: res=(None,self.qualify_in_file(last_ident(h),rel) if '::' not in h.split('<')[0] else self.qualify(last_ident(h),h))
        else:
            # derive: text is the trait name; self type = next struct/enum after b
            trait=text.strip().split('::')[-1]
            mm=re.compile(r'\b(struct|enum)\s+([A-Za-z_][A-Za-z0-9_]*)').search(st,b)
            res=(trait, self.qualify_in_file(mm.group(2),rel) if mm else None)
        self._impl_cache[span]=res
        return res

    def field_index(self,struct,field):
        return self.structs[struct].index(field)
    def variant_index(self,enum,variant):
        return self.enums[enum].index(variant)

if __name__=='__main__':
    import sys
    ix=SrcIndex(sys.argv[1] if len(sys.argv)>1 else '/repo')
    for k,v in sorted(ix.structs.items()): print('struct',k,v)
    for k,v in sorted(ix.enums.items()): print('enum',k,v)
