"""Models of `untrusted` (Input/Reader) and `derp` (DER reader / writer), transcribed from derp 0.0.15's source
(der.rs, writer.rs) and untrusted 0.9's documented behaviour.  Byte contents may be symbolic; lengths are
concrete per path (a symbolic length byte forks over the feasible values)."""
import z3
from .values import *
from .models import concretize_small

TAGS={'Eoc':0,'Boolean':1,'Integer':2,'BitString':3,'OctetString':4,'Null':5,'Oid':6,'Sequence':0x30,'UtcTime':0x17,'GeneralizedTime':0x18,
      'ContextSpecificConstructed0':0xa0,'ContextSpecificConstructed1':0xa1,'ContextSpecificConstructed2':0xa2,'ContextSpecificConstructed3':0xa3}
DERP_ERRORS=['BadBooleanValue','LeadingZero','LessThanMinimum','LongLengthNotSupported','HighTagNumberForm','Io','NegativeValue','NonCanonical','NonZeroUnusedBits','Read','UnexpectedEnd','UnknownTag','WrongTag','WrongValue']
def derr(name): return Agg('derp::Error',[],DERP_ERRORS.index(name),name)
class DerFail(Exception):
    def __init__(self,name): self.name=name

def inp(bl): return Opaque('Input',list(bl))
def rd_of(v): return deref(v)
def m_input_from(e,run,a,f): return inp(byte_list(a[0]))
def m_input_slice(e,run,a,f): return Ref(Cell(Str(deref(a[0]).p,False)))
def m_input_len(e,run,a,f): return Int(64,False,len(deref(a[0]).p))
def m_input_is_empty(e,run,a,f): return Bool(len(deref(a[0]).p)==0)
def m_read_all(e,run,a,f):
    i=deref(a[0]); rd=Opaque('Reader',{'b':list(i.p),'pos':0})
    r=e.call_value(run,a[2],[Ref(Cell(rd))])
    if r.vname=='Err': return r
    if rd.p['pos']!=len(rd.p['b']): return err(a[1])
    return r
def rb(rd):
    p=rd.p
    if p['pos']>=len(p['b']): raise DerFail('UnexpectedEnd')
    x=p['b'][p['pos']]; p['pos']+=1; return x
def m_read_byte(e,run,a,f):
    try: return ok(Int(8,False,rb(rd_of(a[0]))))
    except DerFail: return err(Opaque('EndOfInput'))
def take(rd,n):
    p=rd.p
    if p['pos']+n>len(p['b']): raise DerFail('UnexpectedEnd')
    out=p['b'][p['pos']:p['pos']+n]; p['pos']+=n; return out
def m_read_bytes(e,run,a,f):
    n=deref(a[1])
    if not n.conc(): raise Unsupported('read_bytes symbolic')
    try: return ok(inp(take(rd_of(a[0]),n.v)))
    except DerFail: return err(Opaque('EndOfInput'))
def m_read_to_end(e,run,a,f):
    rd=rd_of(a[0]); return inp(take(rd,len(rd.p['b'])-rd.p['pos']))
def m_at_end(e,run,a,f):
    rd=rd_of(a[0]); return Bool(rd.p['pos']>=len(rd.p['b']))
def m_skip_to_end(e,run,a,f):
    rd=rd_of(a[0]); rd.p['pos']=len(rd.p['b']); return UNIT
def m_peek(e,run,a,f):
    rd=rd_of(a[0]); p=rd.p
    if p['pos']>=len(p['b']): return Bool(False)
    x=p['b'][p['pos']]; c=deref(a[1])
    return e.binop('Eq',Int(8,False,x),c)
def is_b(run,x,c):
    if isinstance(x,int): return x==c
    return run.branch_bool(Bool(x==c),'der.byte')
def read_tlv(run,rd):
    """derp::read_tag_and_get_value -> (tag byte term, value bytes)"""
    tag=rb(rd)
    if isinstance(tag,int):
        if tag&0x1f==0x1f: raise DerFail('HighTagNumberForm')
    elif run.branch_bool(Bool((tag&0x1f)==0x1f),'der.hightag'): raise DerFail('HighTagNumberForm')
    n=rb(rd)
    remaining=len(rd.p['b'])-rd.p['pos']
    if not isinstance(n,int):
        # fork: short form with a feasible length, or the long forms / unsupported
        k=run.choose([z3.And((n&0x80)==0,z3.ULE(n,remaining)),z3.And((n&0x80)==0,z3.UGT(n,remaining)),n==0x81,n==0x82,z3.And((n&0x80)!=0,n!=0x81,n!=0x82)],'der.len')
        if k==0:
            c=concretize_small(run,Int(8,False,n),remaining)
            length=c
        elif k==1: raise DerFail('UnexpectedEnd')
        elif k==4: raise DerFail('LongLengthNotSupported')
        else: n=0x81 if k==2 else 0x82
    if isinstance(n,int):
        if n&0x80==0: length=n
        elif n==0x81:
            s=rb(rd)
            if isinstance(s,int):
                if s<128: raise DerFail('NonCanonical')
                length=s
            else:
                if run.branch_bool(Bool(z3.ULT(s,128)),'der.noncanon'): raise DerFail('NonCanonical')
                raise DerFail('UnexpectedEnd') if len(rd.p['b'])-rd.p['pos']<128 else Unsupported('long symbolic DER length')
        elif n==0x82:
            s=rb(rd); t=rb(rd)
            if not (isinstance(s,int) and isinstance(t,int)):
                if len(rd.p['b'])-rd.p['pos']<256:
                    # any canonical 2-byte length (>=256) overruns the input; otherwise non-canonical
                    raise DerFail('NonCanonical') if run.branch_bool(Bool((s if not isinstance(s,int) else z3.BitVecVal(s,8))==0),'der.noncanon') else DerFail('UnexpectedEnd')
                raise Unsupported('long symbolic DER length')
            length=(s<<8)|t
            if length<256: raise DerFail('NonCanonical')
        else: raise DerFail('LongLengthNotSupported')
    return tag,take(rd,length)
def expect(run,rd,tagname):
    tag,val=read_tlv(run,rd)
    if not is_b(run,tag,TAGS[tagname]): raise DerFail('WrongTag')
    return val
def tagname(v): return deref(v).vname
def wrapder(fn):
    def m(e,run,a,f):
        try: return ok(fn(e,run,a,f))
        except DerFail as d: return err(derr(d.name))
    return m
def m_expect_tag(e,run,a,f): return inp(expect(run,rd_of(a[0]),tagname(a[1])))
def m_read_tag_value(e,run,a,f):
    tag,val=read_tlv(run,rd_of(a[0])); return Agg('()',[Int(8,False,tag),inp(val)])
def m_read_null(e,run,a,f): expect(run,rd_of(a[0]),'Null'); return UNIT
def m_bit_string(e,run,a,f):
    val=expect(run,rd_of(a[0]),'BitString')
    if not val: raise DerFail('Read')        # read_all on an empty value: read_byte fails with UnexpectedEnd
    if not is_b(run,val[0],0): raise DerFail('NonZeroUnusedBits')
    return inp(val[1:])
def m_nested(e,run,a,f):
    try: val=expect(run,rd_of(a[0]),tagname(a[1]))
    except DerFail as d: return err(derr(d.name))
    rd=Opaque('Reader',{'b':list(val),'pos':0})
    r=e.call_value(run,a[2],[Ref(Cell(rd))])
    if r.vname=='Err': return r
    if rd.p['pos']!=len(rd.p['b']): return err(derr('Read'))
    return r
def m_positive_integer(e,run,a,f):
    val=expect(run,rd_of(a[0]),'Integer')
    if not val: raise DerFail('Read')
    first=val[0]
    if is_b(run,first,0):
        if len(val)==1: raise DerFail('LessThanMinimum')
        second=val[1]
        if isinstance(second,int):
            if second&0x80==0: raise DerFail('LeadingZero')
        elif run.branch_bool(Bool((second&0x80)==0),'der.leadzero'): raise DerFail('LeadingZero')
        return inp(val[1:])
    if isinstance(first,int):
        if first&0x80: raise DerFail('NegativeValue')
    elif run.branch_bool(Bool((first&0x80)!=0),'der.negative'): raise DerFail('NegativeValue')
    return inp(val)
def m_small_nonneg(e,run,a,f):
    # derp::small_nonnegative_integer = nonnegative_integer(input, 0) read as exactly one byte
    val=expect(run,rd_of(a[0]),'Integer')
    if not val: raise DerFail('Read')
    first=val[0]
    if is_b(run,first,0):
        if len(val)==1: return Int(8,False,0)
        second=val[1]
        if isinstance(second,int):
            if second&0x80==0: raise DerFail('LeadingZero')
        elif run.branch_bool(Bool((second&0x80)==0),'der.leadzero'): raise DerFail('LeadingZero')
        rest=val[1:]
    else:
        if isinstance(first,int):
            if first&0x80: raise DerFail('NegativeValue')
        elif run.branch_bool(Bool((first&0x80)!=0),'der.negative'): raise DerFail('NegativeValue')
        rest=val
    if len(rest)!=1: raise DerFail('Read')
    x=rest[0]; return Int(8,False,x)
def m_derp_from_eoi(e,run,a,f): return derr('UnexpectedEnd')
# ---- writer
def der_target(v): return deref(deref(v).p)
def wlen(n):
    if n<128: return [n]
    k=(n.bit_length()+7)//8
    return [0x80|k]+[(n>>((i-1)*8))&0xff for i in range(k,0,-1)]
def put(v,bs):
    t=der_target(v)
    t.items.extend(Int(8,False,x) for x in bs)
def m_der_new(e,run,a,f): return Opaque('Der',a[0])
def m_der_element(tag_from_arg=True,fixed=None,prefix=None):
    def m(e,run,a,f):
        if fixed is not None: tag=TAGS[fixed]; data=byte_list(a[1])
        else: tag=TAGS[tagname(a[1])]; data=byte_list(a[2])
        put(a[0],[tag]+wlen(len(data))+list(data)); return ok(UNIT)
    return m
def m_der_null(e,run,a,f): put(a[0],[5,0]); return ok(UNIT)
def m_der_bit_string(e,run,a,f):
    u=deref(a[1]); data=byte_list(a[2])
    put(a[0],[3]+wlen(len(data)+1)+[u.v]+list(data)); return ok(UNIT)
def m_der_positive_integer(e,run,a,f):
    data=list(byte_list(a[1])); push=False
    if data:
        x=data[0]
        push=(x&0x80)!=0 if isinstance(x,int) else run.branch_bool(Bool((x&0x80)!=0),'der.pushzero')
    put(a[0],[2]+wlen(len(data)+(1 if push else 0))+([0] if push else [])+data); return ok(UNIT)
def m_der_raw(e,run,a,f): put(a[0],list(byte_list(a[1]))); return ok(UNIT)
def m_der_nested(fixed=None):
    def m(e,run,a,f):
        tag=TAGS[fixed] if fixed else TAGS[tagname(a[1])]
        clo=a[1] if fixed else a[2]
        buf=VecO([]); inner=Opaque('Der',Ref(Cell(buf)))
        r=e.call_value(run,clo,[Ref(Cell(inner))])
        if r.vname=='Err': return r
        data=[deref(x).v for x in buf.items]
        put(a[0],[tag]+wlen(len(data))+data); return ok(UNIT)
    return m
def register(E):
    M=E.model
    E.enums['derp::Error']=DERP_ERRORS; E.enums['Tag']=list(TAGS)
    M(r'^(untrusted::)?Input::from$|^<(untrusted::)?Input<.*> as From<&\[u8\]>>::from$',m_input_from)
    M(r'^(untrusted::)?Input::as_slice_less_safe$',m_input_slice); M(r'^(untrusted::)?Input::len$',m_input_len); M(r'^(untrusted::)?Input::is_empty$',m_input_is_empty)
    M(r'^(untrusted::)?Input::read_all$',m_read_all)
    M(r'^(untrusted::)?Reader::read_byte$',m_read_byte); M(r'^(untrusted::)?Reader::read_bytes$',m_read_bytes); M(r'^(untrusted::)?Reader::read_bytes_to_end$',m_read_to_end)
    M(r'^(untrusted::)?Reader::at_end$',m_at_end); M(r'^(untrusted::)?Reader::skip_to_end$',m_skip_to_end); M(r'^(untrusted::)?Reader::peek$',m_peek)
    M(r'^(derp::)?expect_tag_and_get_value$',wrapder(m_expect_tag)); M(r'^(derp::)?read_tag_and_get_value$',wrapder(m_read_tag_value))
    M(r'^(derp::)?read_null$',wrapder(m_read_null)); M(r'^(derp::)?bit_string_with_no_unused_bits$',wrapder(m_bit_string))
    M(r'^(derp::)?nested$',m_nested); M(r'^(derp::)?positive_integer$',wrapder(m_positive_integer))
    M(r'^<derp::Error as From<(untrusted::)?EndOfInput>>::from$',m_derp_from_eoi)
    M(r'^(derp::)?small_nonnegative_integer$',wrapder(m_small_nonneg))
    M(r'^(derp::)?Der::new$',m_der_new); M(r'^(derp::)?Der::element$',m_der_element()); M(r'^(derp::)?Der::oid$',m_der_element(fixed='Oid'))
    M(r'^(derp::)?Der::integer$',m_der_element(fixed='Integer')); M(r'^(derp::)?Der::octet_string$',m_der_element(fixed='OctetString'))
    M(r'^(derp::)?Der::null$',m_der_null); M(r'^(derp::)?Der::bit_string$',m_der_bit_string); M(r'^(derp::)?Der::positive_integer$',m_der_positive_integer)
    M(r'^(derp::)?Der::raw$',m_der_raw); M(r'^(derp::)?Der::nested$',m_der_nested()); M(r'^(derp::)?Der::sequence$',m_der_nested('Sequence'))
