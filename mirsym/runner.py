"""Driver: MIR dump (regenerated from /repo's working tree), parallel exploration, aggregation."""
import os, sys, time, json, hashlib, subprocess, collections, traceback, multiprocessing, random
from .values import Unsupported

VERIF=os.path.dirname(os.path.dirname(os.path.abspath(__file__)))
REPO=os.environ.get('VERIF_REPO','/repo')
BUILD=os.environ.get('VERIF_BUILD',os.path.join(VERIF,'.build'))
NIGHTLY=os.environ.get('VERIF_NIGHTLY','nightly')

def src_digest(repo=REPO):
    h=hashlib.sha256()
    for root,dirs,fs in os.walk(os.path.join(repo,'src')):
        dirs.sort()
        for f in sorted(fs):
            p=os.path.join(root,f)
            h.update(os.path.relpath(p,repo).encode()); h.update(b'\0')
            h.update(open(p,'rb').read()); h.update(b'\0')
    for f in ('Cargo.toml','Cargo.lock'):
        p=os.path.join(repo,f)
        if os.path.exists(p): h.update(open(p,'rb').read())
    return h.hexdigest()[:24]

def dump_mir(repo=REPO):
    """MIR text of the crate as it is in the working tree.  The dump is keyed by a hash of the
    source files, so it is regenerated whenever any source byte changes (never reused across edits)."""
    os.makedirs(os.path.join(BUILD,'mir'),exist_ok=True)
    dg=src_digest(repo)
    out=os.path.join(BUILD,'mir','crate-%s.mir'%dg)
    if os.path.exists(out) and os.path.getsize(out)>100000 and not os.environ.get('VERIF_NO_MIR_CACHE'):
        return out,dg,0.0
    t=time.time()
    tdir=os.path.join(BUILD,'mirtarget')
    # force rustc to run again for the crate itself (cargo would otherwise report "fresh" and print nothing)
    fp=os.path.join(tdir,'debug','.fingerprint')
    if os.path.isdir(fp):
        for d in os.listdir(fp):
            if d.startswith('in-toto-'):
                subprocess.call(['rm','-rf',os.path.join(fp,d)])
    env=dict(os.environ); env['CARGO_TARGET_DIR']=tdir; env['CARGO_NET_OFFLINE']='true'
    lock=os.path.join(BUILD,'mir','.lock')
    import fcntl
    with open(lock,'w') as lf:
        fcntl.flock(lf,fcntl.LOCK_EX)
        if os.path.exists(out) and os.path.getsize(out)>100000: return out,dg,0.0
        p=subprocess.run(['cargo','+'+NIGHTLY,'rustc','--offline','--lib','--','-Zunpretty=mir','-C','debug-assertions=off','-C','overflow-checks=on'],
                         cwd=repo,env=env,stdout=subprocess.PIPE,stderr=subprocess.PIPE)
        if p.returncode!=0 or len(p.stdout)<100000:
            sys.stderr.write(p.stderr.decode(errors='replace')[-4000:])
            raise Unsupported('MIR dump failed (rc=%d, %d bytes)'%(p.returncode,len(p.stdout)))
        tmp=out+'.tmp%d'%os.getpid()
        open(tmp,'wb').write(p.stdout); os.rename(tmp,out)
        # keep only the few most recent dumps
        ds=sorted((os.path.getmtime(os.path.join(BUILD,'mir',f)),f) for f in os.listdir(os.path.join(BUILD,'mir')) if f.endswith('.mir'))
        for _,f in ds[:-4]: os.unlink(os.path.join(BUILD,'mir',f))
    return out,dg,time.time()-t

# ------------------------------------------------------------------------------------------------
class Obligation:
    """one harness: builds symbolic inputs, names the entry, checks each path"""
    name='obligation'
    hash_order='all'
    max_paths=400000
    def setup(self,eng,tier): pass
    def entry(self,eng): raise NotImplementedError
    def mk_args(self,run): raise NotImplementedError
    def check(self,run,out,ghost): raise NotImplementedError
    bounds={}
    witnesses=()          # names that must be reached by at least one path

def _mk_engine(mirpath,timeout_ms):
    from .engine import Engine
    return Engine(mirpath,REPO,timeout_ms=timeout_ms)

_W={}
def _worker_init(mirpath,modname,clsname,tier,timeout_ms,params):
    import importlib
    sys.setrecursionlimit(20000)
    eng=_mk_engine(mirpath,timeout_ms)
    mod=importlib.import_module(modname)
    ob=getattr(mod,clsname)(**params)
    eng.hash_order=ob.hash_order
    ob.setup(eng,tier)
    _W['eng']=eng; _W['ob']=ob

def _worker_run(prefixes,budget=None):
    eng=_W['eng']; ob=_W['ob']
    t=time.time(); q0=eng.queries; s0=eng.solver_s
    for k in eng.second_solver: eng.second_solver[k]=0
    try:
        recs=eng.explore(ob.entry(eng),ob.mk_args,ob.check,max_paths=ob.max_paths,prefixes=prefixes,budget=budget)
        return {'leftover':eng.leftover,'recs':recs,'paths':eng.npaths,'infeasible':eng.ninfeasible,'queries':eng.queries-q0,'solver_s':eng.solver_s-s0,
                'used':dict(eng.used),'fn_used':dict(eng.fn_used),'wall':time.time()-t,'error':None,'second':dict(eng.second_solver)}
    except Unsupported as e:
        return {'recs':[],'paths':getattr(eng,'npaths',0),'infeasible':0,'queries':eng.queries-q0,'solver_s':eng.solver_s-s0,
                'used':dict(eng.used),'fn_used':dict(eng.fn_used),'wall':time.time()-t,'error':'Unsupported: '+str(e)}
    except Exception as e:
        return {'recs':[],'paths':0,'infeasible':0,'queries':0,'solver_s':0,'used':{},'fn_used':{},'wall':time.time()-t,
                'error':'Crash: '+repr(e)+'\n'+traceback.format_exc()[-1500:]}

def run_obligation(modname,clsname,tier,mirpath,jobs=None,timeout_ms=None,params=None,split_factor=6):
    """explore one obligation, in parallel over decision-prefix partitions; returns aggregate dict"""
    params=params or {}
    jobs=jobs or int(os.environ.get('VERIF_JOBS','0')) or min(16,os.cpu_count() or 4)
    timeout_ms=timeout_ms or (10000 if tier=='quick' else 60000)
    t0=time.time()
    _worker_init(mirpath,modname,clsname,tier,timeout_ms,params)
    eng=_W['eng']; ob=_W['ob']
    agg={'paths':0,'infeasible':0,'queries':0,'solver_s':0.0,'used':collections.Counter(),'fn_used':collections.Counter(),'recs':[],'errors':[],'second':collections.Counter()}
    for k in eng.second_solver: eng.second_solver[k]=0
    def merge(r):
        agg['paths']+=r['paths']; agg['infeasible']+=r['infeasible']; agg['queries']+=r['queries']; agg['solver_s']+=r['solver_s']
        agg['used'].update(r['used']); agg['fn_used'].update(r['fn_used']); agg['recs'].extend(r['recs'])
        if r['error']: agg['errors'].append(r['error'])
        agg['second'].update(r.get('second') or {})
    if jobs<=1:
        merge(_worker_run(None))
    else:
        try:
            q0=eng.queries
            prefixes=eng.split_work(ob.entry(eng),ob.mk_args,jobs*split_factor)
            agg['queries']+=eng.queries-q0
        except Unsupported as e:
            agg['errors'].append('Unsupported: '+str(e)); prefixes=[]
        if prefixes:
            random.Random(0).shuffle(prefixes)
            queue=collections.deque([p] for p in prefixes)
            budget=int(os.environ.get('VERIF_TASK_BUDGET','120'))
            ctx=multiprocessing.get_context('fork')
            with ctx.Pool(jobs,initializer=_worker_init,initargs=(mirpath,modname,clsname,tier,timeout_ms,params)) as pool:
                pending=[]
                while queue or pending:
                    while queue and len(pending)<jobs*2:
                        pending.append(pool.apply_async(_worker_run,(queue.popleft(),budget)))
                    done=[p for p in pending if p.ready()]
                    if not done:
                        pending[0].wait(0.05); continue
                    for p in done:
                        pending.remove(p); r=p.get(); merge(r)
                        lo=r.get('leftover') or []
                        # hand unexplored subtrees back, a few per task
                        for i in range(0,len(lo),3): queue.append(lo[i:i+3])
                    if agg['paths']>ob.max_paths:
                        agg['errors'].append('Unsupported: path budget %d exhausted'%ob.max_paths); queue.clear()
    agg['wall']=time.time()-t0
    agg['fn_hashes']={}
    for b in eng.bodies:
        if b.kind=='fn' and b.name in agg['fn_used']: agg['fn_hashes'][b.name]=b.text_hash
    agg['bounds']=dict(ob.bounds); agg['witnesses']=list(ob.witnesses); agg['name']=ob.name; agg['hash_order']=ob.hash_order
    agg['used']=dict(agg['used']); agg['fn_used']=dict(agg['fn_used']); agg['second']=dict(agg['second'])
    return agg
