"""The serde *Deserializer data model*: serde_json's deserializers (from_str / from_slice / from_reader /
from_value) as one Python object over a serde_json::Value tree plus a **channel** tag.

The crate's `Deserialize` impls - hand-written and derive-generated visitors - run from MIR; every call they
make on the generic deserializer / MapAccess / SeqAccess / EnumAccess lands here.

Channel contract (serde_json's documented behaviour, the point of property C17):
  borrowed : from_str / from_slice, string without escapes -> a `&'de str` request succeeds (visit_borrowed_str)
  escaped  : from_str / from_slice, string with escapes     -> only transient / owned strings (visit_str)
  reader   : from_reader                                    -> only transient / owned strings
  tree     : from_value                                     -> owned strings (visit_string)
A request for an owned `String` succeeds on every channel.
"""
import re, z3
from .values import *
from .parse import split_top
from .srcindex import last_ident
from .models import clone_val, map_insert, val_eq
from .models_json import jnull,jbool,jnum,jstr,jarr,jobj

CONTENT_VARIANTS=['Bool','U8','U16','U32','U64','I8','I16','I32','I64','F32','F64','Char','String','Str','ByteBuf','Bytes','None','Some','Unit','Newtype','Seq','Map']

class DeFail(Exception):
    def __init__(self,msg): self.msg=msg
def derror(msg): return Opaque('serde_json::Error',msg)

def bufchan(chan):
    """the channel of a value that sits in serde's buffered `Content` (untagged / flattened / internally tagged members): string
    borrowing is as on the original channel, but sequence and map lengths are known exactly"""
    return chan if '+buf' in chan else chan+'+buf'
def value_tree(run,v):
    """what deserialising a document into `serde_json::Value` yields: in every object the LAST of several members with one name
    survives, members in key order (serde_json::Map = BTreeMap without `preserve_order`); forks on symbolic key bytes"""
    v=deref(v)
    if v.vname=='Array': return jarr([value_tree(run,x) for x in deref(v.f[0]).items])
    if v.vname!='Object': return v
    def tz(x): return z3.BitVecVal(x,8) if isinstance(x,int) else x
    def same(a,b):
        if len(a)!=len(b): return False
        if all(isinstance(x,int) for x in a+b): return a==b
        return run.branch_bool(Bool(z3.And(*[tz(x)==tz(y) for x,y in zip(a,b)])),'value.samekey')
    def lt(a,b):
        if all(isinstance(x,int) for x in a+b): return bytes(a)<bytes(b)
        t=z3.BoolVal(len(a)<len(b))
        for i in reversed(range(min(len(a),len(b)))): t=z3.If(z3.ULT(tz(a[i]),tz(b[i])),True,z3.If(tz(a[i])==tz(b[i]),t,False))
        return run.branch_bool(Bool(z3.simplify(t)),'value.keyorder')
    out=[]
    for k,x in deref(v.f[0]).e:
        kb=list(deref(k).b); x=value_tree(run,x)
        hit=[i for i,(k2,_) in enumerate(out) if same(kb,list(deref(k2).b))]
        if hit: out[hit[0]]=(out[hit[0]][0],x); continue
        pos=len(out)
        for i,(k2,_) in enumerate(out):
            if lt(kb,list(deref(k2).b)): pos=i; break
        out.insert(pos,(k,x))
    return jobj(out)
def mkde(v,chan): return Opaque('ValueDe',{'v':v,'chan':chan})
def de_parts(e,d):
    """(value, channel) of any deserializer-like object"""
    d=deref(d)
    if isinstance(d,Opaque) and d.kind in ('ValueDe','KeyDe'): return d.p['v'],d.p['chan']
    if isinstance(d,Opaque) and d.kind=='Content': return d.p['v'],d.p['chan']
    if isinstance(d,Agg) and d.ty in ('ContentRefDeserializer','ContentDeserializer'): return de_parts(e,d.f[0])
    if isinstance(d,Agg) and d.ty=='Content': return content_value(d),'tree'
    if isinstance(d,Agg) and d.ty=='serde_json::Value': return d,'tree'
    raise Unsupported('deserializer object '+repr(d)[:80])
def content_value(c):
    c=deref(c)
    if isinstance(c,Opaque) and c.kind=='Content': return c.p['v']
    if isinstance(c,Agg) and c.ty=='Content':
        if c.vname in ('String','Str'): return jstr(StringO(byte_list(c.f[0])))
        if c.vname in ('None','Unit'): return jnull()
        if c.vname=='Bool': return jbool(c.f[0])
    raise Unsupported('Content '+repr(c)[:60])

def norm_type(t):
    t=t.strip()
    t=re.sub(r"^&('[a-z_]+ )?(mut )?",'&',t)
    return t
def generic_args(t):
    i=t.find('<')
    if i<0 or not t.endswith('>'): return []
    return split_top(t[i+1:-1])

def de_type(e,run,ty,v,chan):
    """deserialize a value of Rust type `ty` (text) from JSON value v arriving on channel chan"""
    ty=norm_type(ty); k=v.vname
    if ty in ('std::string::String','String','alloc::string::String'):
        if k!='String': raise DeFail('invalid type: expected a string')
        s=deref(v.f[0]); return StringO(s.b,s.taint,s.ghost)
    if ty in ('&str',):
        if k!='String': raise DeFail('invalid type: expected a borrowed string')
        if chan!='borrowed': raise DeFail('invalid type: string, expected a borrowed string')
        s=deref(v.f[0]); return Ref(Cell(Str(s.b,True,s.taint,s.ghost)))
    m=re.match(r'^(u8|u16|u32|u64|usize|i8|i16|i32|i64|isize)$',ty)
    if m:
        if k!='Number': raise DeFail('invalid type: expected an integer')
        n=v.f[0].f[0]
        if n.vname=='Float': raise DeFail('invalid type: floating point, expected integer')
        w={'u8':8,'u16':16,'u32':32,'u64':64,'usize':64,'i8':8,'i16':16,'i32':32,'i64':64,'isize':64}[ty]; signed=ty[0]=='i'
        x=n.f[0]
        # range check (forks on symbolic values)
        if n.vname=='PosInt':
            hi=(1<<(w-1))-1 if signed else (1<<w)-1
            if hi<(1<<64)-1 and not run.branch_bool(e.binop('Le',x,Int(64,False,hi)),'de.range'): raise DeFail('invalid value: out of range')
        else:
            if not signed: raise DeFail('invalid value: negative')
            lo=-(1<<(w-1))
            if w<64 and not run.branch_bool(e.binop('Ge',Int(64,True,x.v),Int(64,True,lo)),'de.range'): raise DeFail('invalid value: out of range')
        return Int(w,signed,x.v if x.conc() else (z3.Extract(w-1,0,x.v) if w<64 else x.v))
    if ty=='bool':
        if k!='Bool': raise DeFail('invalid type: expected a boolean')
        return v.f[0]
    if ty=='()':
        if k!='Null': raise DeFail('invalid type: expected unit')
        return UNIT
    if re.match(r'^(std::option::)?Option<',ty):
        if k=='Null': return none()
        return some(de_type(e,run,generic_args(ty)[0],v,chan))
    if re.match(r'^(std::vec::)?Vec<',ty):
        if k!='Array': raise DeFail('invalid type: expected a sequence')
        t=generic_args(ty)[0]
        return VecO([de_type(e,run,t,x,chan) for x in deref(v.f[0]).items])
    m=re.match(r'^(std::collections::)?(hash_map::|btree_map::)?(HashMap|BTreeMap)<',ty)
    if m:
        if k!='Object': raise DeFail('invalid type: expected a map')
        kt,vt=generic_args(ty)[:2]
        out=MapO(m.group(3)=='BTreeMap')
        for key,val in deref(v.f[0]).e:
            map_insert(run,out,de_type(e,run,kt,jstr(StringO(deref(key).b)),'key:'+chan),de_type(e,run,vt,val,chan))
        return out
    if ty in ('serde_json::Value','Value') and 'cjson' not in ty: return value_tree(run,clone_val(v))
    if ty.endswith('IgnoredAny'): return Agg('IgnoredAny',[])
    if re.match(r'^(std::marker::)?PhantomData<',ty): return Agg('PhantomData',[])
    if re.match(r'^(std::boxed::)?Box<',ty): return Ref(Cell(de_type(e,run,generic_args(ty)[0],v,chan)))
    if 'Content<' in ty and ty.split('<')[0].endswith('Content'): return Opaque('Content',{'v':v,'chan':bufchan(chan)})
    # in-crate type: run its Deserialize impl from MIR
    body=find_de_impl(e,run,ty)
    if body is None: raise Unsupported('Deserialize for '+ty[:120])
    r=e.call_fn(run,body,[Opaque('KeyDe' if chan.startswith('key:') else 'ValueDe',{'v':v,'chan':chan})])
    if r.vname=='Err': raise DeFail(r.f[0])
    return r.f[0]

def find_de_impl(e,run,ty):
    base=re.sub(r"<[^<>]*'[a-z_]+[^<>]*>$",'',ty.strip())      # drop a trailing lifetime-only generic list such as <'_>
    name=e.src.qualify(last_ident(base),base)
    c=e.impl_index.get(('Deserialize',name,'deserialize'))
    if c and len(c)==1: return c[0]
    n=[b for (tr,ty,mt),bs in e.nested_impls.items() if ty==name and mt=='deserialize' for b in bs]
    if run.stack:
        caller=run.stack[-1][0]
        root=caller.split('::<impl at')[0]
        # prefer the helper type generated inside the function we are in, else inside the same derive
        sel=[b for b in n if b.name.startswith(caller+'::')] or [b for b in n if caller.startswith(b.name.rsplit('::<impl at',1)[0])] \
            or [b for b in n if b.name.split('::<impl at')[1:2]==caller.split('::<impl at')[1:2]]
        if len(sel)==1: return sel[0]
    if len(n)==1: return n[0]
    return None

def find_visitor_method(e,run,visitor,meth):
    v=deref(visitor)
    name=e.type_of(v)
    c=e.impl_index.get(('Visitor',name,meth))
    if c and len(c)==1: return c[0]
    n=[b for (tr,ty,mt),bs in e.nested_impls.items() if ty==name and mt==meth for b in bs]
    if run.stack:
        caller=run.stack[-1][0]
        sel=[b for b in n if b.name.startswith(caller+'::')] or [b for b in n if b.name.split('::<impl at')[1:2]==caller.split('::<impl at')[1:2]]
        if len(sel)==1: return sel[0]
    return None
def visit(e,run,visitor,meth,args):
    b=find_visitor_method(e,run,visitor,meth)
    if b is None: return err(derror('invalid type for this visitor: no '+meth))     # serde's default visit_* rejects
    return e.call_fn(run,b,[visitor]+args)

def wrapde(fn):
    def m(e,run,a,f):
        try: return ok(fn(e,run,a,f))
        except DeFail as d: return err(d.msg if isinstance(d.msg,V) else derror(d.msg))
    return m
def turbofish(f,meth):
    m=re.search(r'::'+meth+r'::<(.*)>$',f)
    if not m: raise Unsupported('no type argument on '+f[-80:])
    return split_top(m.group(1))

# ---- Deserializer methods
def visit_string_for(e,run,vis,v,chan):
    s=deref(v.f[0])
    buffered='+buf' in chan; chan=chan.replace('+buf','')
    if chan=='borrowed' or chan=='key:borrowed':
        b=find_visitor_method(e,run,vis,'visit_borrowed_str')
        if b is not None: return e.call_fn(run,b,[vis,Ref(Cell(Str(s.b,True,s.taint,s.ghost)))])
    if chan in ('tree','key:tree'):
        b=find_visitor_method(e,run,vis,'visit_string')
        if b is not None: return e.call_fn(run,b,[vis,StringO(s.b,s.taint,s.ghost)])
    return visit(e,run,vis,'visit_str',[Ref(Cell(Str(s.b,True,s.taint,s.ghost)))])
def m_de_any(e,run,a,f):
    v,chan=de_parts(e,a[0]); vis=a[-1]; k=v.vname
    if k=='Null': return visit(e,run,vis,'visit_unit',[])
    if k=='Bool': return visit(e,run,vis,'visit_bool',[v.f[0]])
    if k=='Number':
        n=v.f[0].f[0]
        if n.vname=='PosInt': return visit(e,run,vis,'visit_u64',[n.f[0]])
        if n.vname=='NegInt': return visit(e,run,vis,'visit_i64',[n.f[0]])
        return visit(e,run,vis,'visit_f64',[Opaque('f64')])
    if k=='String': return visit_string_for(e,run,vis,v,chan)
    if k=='Array': return visit(e,run,vis,'visit_seq',[Ref(Cell(Opaque('SeqAcc',{'items':list(deref(v.f[0]).items),'i':0,'chan':chan})))])
    if k=='Object': return visit(e,run,vis,'visit_map',[Ref(Cell(Opaque('MapAcc',{'ents':[(x,y) for x,y in deref(v.f[0]).e],'i':0,'chan':chan})))])
def m_de_struct(e,run,a,f):
    v,chan=de_parts(e,a[0])
    if v.vname not in ('Array','Object'): return err(derror('invalid type: expected struct'))
    return m_de_any(e,run,a,f)
def m_de_seq(e,run,a,f):
    v,chan=de_parts(e,a[0])
    if v.vname!='Array': return err(derror('invalid type: expected a sequence'))
    return m_de_any(e,run,a,f)
def m_de_map(e,run,a,f):
    v,chan=de_parts(e,a[0])
    if v.vname!='Object': return err(derror('invalid type: expected a map'))
    return m_de_any(e,run,a,f)
def m_de_str(e,run,a,f):
    v,chan=de_parts(e,a[0])
    if v.vname!='String': return err(derror('invalid type: expected a string'))
    return visit_string_for(e,run,a[-1],v,chan)
def m_de_identifier(e,run,a,f): return m_de_str(e,run,a,f)
def m_de_newtype_struct(e,run,a,f): return visit(e,run,a[-1],'visit_newtype_struct',[a[0]])
def m_de_option(e,run,a,f):
    v,chan=de_parts(e,a[0])
    if v.vname=='Null': return visit(e,run,a[-1],'visit_none',[])
    return visit(e,run,a[-1],'visit_some',[a[0]])
def m_de_enum(e,run,a,f):
    v,chan=de_parts(e,a[0])
    if v.vname=='String': acc=Opaque('EnumAcc',{'variant':v,'value':None,'chan':chan})
    elif v.vname=='Object' and len(deref(v.f[0]).e)==1:
        key,val=deref(v.f[0]).e[0]; acc=Opaque('EnumAcc',{'variant':jstr(StringO(deref(key).b)),'value':val,'chan':chan})
    else: return err(derror('invalid type: expected string or map for an enum'))
    return visit(e,run,a[-1],'visit_enum',[acc])
def m_de_number(e,run,a,f):
    v,chan=de_parts(e,a[0])
    if v.vname!='Number': return err(derror('invalid type: expected a number'))
    return m_de_any(e,run,a,f)
def m_de_bool(e,run,a,f):
    v,chan=de_parts(e,a[0])
    if v.vname!='Bool': return err(derror('invalid type: expected a boolean'))
    return m_de_any(e,run,a,f)
def m_de_ignored(e,run,a,f): return visit(e,run,a[-1],'visit_unit',[])
# ---- accessors
def m_seq_next(e,run,a,f):
    acc=deref(a[0]); p=acc.p
    if p['i']>=len(p['items']): return none()
    t=turbofish(f,'next_element')[0]
    x=p['items'][p['i']]; p['i']+=1
    return some(de_type(e,run,t,x,p['chan']))
def m_seq_size_hint(e,run,a,f):
    # serde_json: the text deserializers (str / slice / reader) do not know how many elements follow (None); a parsed tree and
    # serde's buffered Content (untagged / flattened members) report the exact remaining count
    p=deref(a[0]).p
    ch=p.get('chan') or ''
    if '+buf' in ch or ch.replace('key:','') == 'tree': return some(Int(64,False,len(p['items'])-p['i']))
    return none()
def m_map_next_key(e,run,a,f):
    p=deref(a[0]).p
    if p['i']>=len(p['ents']): return none()
    t=turbofish(f,'next_key')[0]
    key,val=p['ents'][p['i']]; p['pending']=val; p['i']+=1
    return some(de_type(e,run,t,jstr(StringO(deref(key).b)),'key:'+p['chan']))
def m_map_next_value(e,run,a,f):
    p=deref(a[0]).p
    t=turbofish(f,'next_value')[0]
    return de_type(e,run,t,p['pending'],p['chan'])
def m_map_next_value_seed(e,run,a,f):
    p=deref(a[0]).p
    t=turbofish(f,'next_value_seed')[0]
    if 'ContentVisitor' in t: return Opaque('Content',{'v':p['pending'],'chan':bufchan(p['chan'])})
    raise Unsupported('next_value_seed '+t[:80])
def m_map_next_entry(e,run,a,f):
    p=deref(a[0]).p
    if p['i']>=len(p['ents']): return none()
    kt,vt=turbofish(f,'next_entry')[:2]
    key,val=p['ents'][p['i']]; p['i']+=1
    return some(Agg('()',[de_type(e,run,kt,jstr(StringO(deref(key).b)),'key:'+p['chan']),de_type(e,run,vt,val,p['chan'])]))
def m_enum_variant(e,run,a,f):
    p=deref(a[0]).p
    t=turbofish(f,'variant')[0]
    fld=de_type(e,run,t,p['variant'],'key:'+p['chan'])
    return Agg('()',[fld,Opaque('VariantAcc',{'value':p['value'],'chan':p['chan']})])
def m_variant_unit(e,run,a,f):
    p=deref(a[0]).p
    if p['value'] is not None and p['value'].vname!='Null': raise DeFail('invalid type: expected unit variant')
    return UNIT
def m_variant_newtype(e,run,a,f):
    p=deref(a[0]).p
    if p['value'] is None: raise DeFail('invalid type: unit variant, expected newtype variant')
    return de_type(e,run,turbofish(f,'newtype_variant')[0],p['value'],p['chan'])
def m_std_deserialize(e,run,a,f):
    """<T as Deserialize>::deserialize(D) for std / dependency T (in-crate impls are resolved before models)"""
    m=re.match(r'^<(.*) as (?:[A-Za-z_:0-9]*::)?Deserialize<.*?>>::deserialize',f)
    ty=m.group(1) if m else None
    if ty is None: raise Unsupported('deserialize '+f[:80])
    ty=run.ghost.get('tysubst',{}).get(ty.strip(),ty)
    d=deref(a[0])
    if isinstance(d,Agg) and d.ty=='FlatMapDeserializer':
        # #[serde(flatten)]: the remaining (key, value) pairs collected by the derived visitor
        vec=deref(d.f[0]); pairs=[]
        for it in vec.items:
            it=deref(it)
            if it.vname=='Some': pairs.append((content_value(it.f[0].f[0]),content_value(it.f[0].f[1])))
        obj=jobj([(deref(k.f[0]),v) for k,v in pairs])
        return de_type(e,run,ty,obj,'tree')
    v,chan=de_parts(e,a[0])
    return de_type(e,run,ty,v,chan)
def m_missing_field(e,run,a,f):
    m=re.search(r'missing_field::<(.*)>$',f)
    t=split_top(m.group(1)) if m else []
    t=[x for x in t if not x.startswith("'")]
    if t and re.match(r'^(std::option::)?Option<',t[0].strip()): return ok(none())
    return err(derror('missing field'))
def m_de_error(e,run,a,f): return derror('de error')
def m_from_utf8_lossy(e,run,a,f): return Agg('Cow',[Ref(Cell(Str(byte_list(a[0]))))],0,'Borrowed')
def m_content_visitor_new(e,run,a,f): return Opaque('ContentVisitor')
def m_content_ref_de_new(e,run,a,f): return Agg('ContentRefDeserializer',[a[0]])
def m_content_deserialize(e,run,a,f):
    v,chan=de_parts(e,a[-1]); return ok(Opaque('Content',{'v':v,'chan':bufchan(chan)}))

# ---- serde_json's TEXT layer: a JSON text in a byte buffer (bytes may be symbolic) -> Value tree
def text_to_doc(run,bs):
    """model of serde_json's tokenizer over a byte buffer (RFC 8259 with insignificant whitespace, recursion limit 128; the reader
    is oracles/json_parse.py, every decision on a symbolic byte forks or is forced).  Returns (Value, channel) or raises DeFail.
    Bytes above 0x7f that are symbolic are taken to form valid UTF-8 (they come out of `String`s); concrete ones are checked."""
    from oracles import json_parse as jp
    conc=[x for x in bs if isinstance(x,int)]
    info={}
    r=jp.parse(run,list(bs),'serde',info)
    if r[0]!='ok': raise DeFail('JSON text: '+str(r[1]))
    def strv(b):
        if all(isinstance(x,int) for x in b):
            try: bytes(b).decode()
            except UnicodeDecodeError: raise DeFail('invalid unicode code point')
        return StringO(list(b))
    def conv(n):
        k=n[0]
        if k=='null': return jnull()
        if k=='bool': return jbool(Bool(n[1]))
        if k=='float': return jnum('Float',Opaque('f64'))
        if k=='str': return jstr(strv(n[1]))
        if k=='arr': return jarr([conv(x) for x in n[1]])
        if k=='obj':
            # serde_json::Value keeps the LAST of two members with one key; members in key order (callers that need the document
            # order use the member list as written: the list below is in document order and is what the visitors see)
            return jobj([(strv(kb),conv(x)) for kb,x in n[1]])
        if k=='int':
            neg,ds=n[1],n[2]
            if all(isinstance(d,int) for d in ds):
                v=int(bytes(ds).decode())
                if neg: return jnum('NegInt',Int(64,True,(-v)&((1<<64)-1))) if 0<v<=(1<<63) else jnum('Float',Opaque('f64'))      # "-0" is the float -0.0
                return jnum('PosInt',Int(64,False,v)) if v<(1<<64) else jnum('Float',Opaque('f64'))
            if len(ds)>18: raise Unsupported('symbolic number text of %d digits'%len(ds))
            acc=z3.BitVecVal(0,64)
            for d in ds: acc=acc*10+(z3.BitVecVal(d-0x30,64) if isinstance(d,int) else z3.ZeroExt(56,d-0x30))
            acc=z3.simplify(acc)
            if neg:
                if run.branch_bool(Bool(acc==0),'json.negzero'): return jnum('Float',Opaque('f64'))
                return jnum('NegInt',Int(64,True,z3.simplify(0-acc)))
            return jnum('PosInt',Int(64,False,acc))
        raise Unsupported('json node '+str(k))
    return conv(r[1]),('escaped' if info.get('escapes') else 'borrowed')
def bytes_of_arg(x):
    d=deref(x)
    for _ in range(3):
        if isinstance(d,Ref): d=deref(d)
    if isinstance(d,(Str,StringO)): return list(d.b)
    if isinstance(d,VecO) and all(isinstance(deref(i),Int) for i in d.items): return [deref(i).v for i in d.items]
    return None

# ---- public entry points of serde_json
def entry(chan):
    def m(e,run,a,f):
        t=None
        for meth in ('from_str','from_slice','from_reader','from_value'):
            mm=re.search(r'(?:^|::)'+meth+r'::<(.*)>$',f)
            if mm: t=[x for x in split_top(mm.group(1)) if not x.strip().startswith("'")]; break
        if not t: raise Unsupported('serde_json entry without type: '+f[:80])
        ty=t[-1] if meth=='from_reader' else t[0]
        ty=run.ghost.get('tysubst',{}).get(ty.strip(),ty)        # generic wrappers of the crate (`fn from_reader<R, T>`): the harness binds T
        src=deref(a[0])
        if isinstance(src,Agg) and src.ty=='serde_json::Value': v=src; ch='tree'
        elif isinstance(src,Opaque) and src.kind=='JsonDoc':
            v=src.p['v']; ch=src.p['chan'] if chan is None else chan
            # serde_json's from_str / from_slice / from_reader call Deserializer::end(): anything but whitespace after the value is an error
            if src.p.get('trailing'): return err(derror('trailing characters'))
        else:
            bs=bytes_of_arg(a[0])
            if bs is None or is_tainted(src): raise Unsupported('serde_json::'+meth+' needs a JsonDoc ghost document, a Value or a byte buffer with real content')
            try: v,ch0=text_to_doc(run,bs)
            except DeFail as d: return err(derror(d.msg))
            ch=ch0 if chan is None else chan
        try: return ok(de_type(e,run,ty,v,ch))
        except DeFail as d: return err(d.msg if isinstance(d.msg,V) else derror(d.msg))
    return m

def m_stream_de_new(chan):
    # serde_json::Deserializer::{from_reader,from_slice,from_str}: a deserializer over a document; `end()` must be called by the user
    def m(e,run,a,f):
        src=deref(a[0])
        if not (isinstance(src,Opaque) and src.kind=='JsonDoc'): raise Unsupported('serde_json::Deserializer over '+repr(src)[:60])
        return Opaque('ValueDe',{'v':src.p['v'],'chan':chan or src.p['chan'],'trailing':bool(src.p.get('trailing'))})
    return m
def m_stream_de_end(e,run,a,f):
    d=deref(a[0])
    return err(derror('trailing characters')) if d.p.get('trailing') else ok(UNIT)
def register(E):
    M=E.model
    M(r'^(serde_json::)?Deserializer::from_reader$',m_stream_de_new('reader')); M(r'^(serde_json::)?Deserializer::from_(slice|str)$',m_stream_de_new(None))
    M(r'^(serde_json::)?Deserializer::end$',m_stream_de_end)
    M(r'^(std::io::)?BufReader::new$',lambda e,run,a,f: a[0])
    E.enums['Content']=CONTENT_VARIANTS
    D=r'^<(__D|D|__E|E|[A-Za-z_:<>\' ,]*Deserializer[A-Za-z_:<>\' ,]*) as (crypto::_::_serde::|serde::)?Deserializer<.*>>::'
    M(D+r'deserialize_any$',m_de_any); M(D+r'deserialize_struct$',m_de_struct); M(D+r'deserialize_(seq|tuple|tuple_struct)$',m_de_seq)
    M(D+r'deserialize_map$',m_de_map); M(D+r'deserialize_(str|string)$',m_de_str); M(D+r'deserialize_identifier$',m_de_identifier)
    M(D+r'deserialize_newtype_struct$',m_de_newtype_struct); M(D+r'deserialize_option$',m_de_option); M(D+r'deserialize_enum$',m_de_enum)
    M(D+r'deserialize_(u8|u16|u32|u64|i8|i16|i32|i64|f32|f64)$',m_de_number); M(D+r'deserialize_bool$',m_de_bool); M(D+r'deserialize_ignored_any$',m_de_ignored)
    M(r' as SeqAccess<.*>>::next_element$',wrapde(m_seq_next)); M(r' as SeqAccess<.*>>::size_hint$',m_seq_size_hint)
    M(r' as MapAccess<.*>>::next_key$',wrapde(m_map_next_key)); M(r' as MapAccess<.*>>::next_value$',wrapde(m_map_next_value))
    M(r' as MapAccess<.*>>::next_value_seed$',wrapde(m_map_next_value_seed)); M(r' as MapAccess<.*>>::next_entry$',wrapde(m_map_next_entry))
    M(r' as EnumAccess<.*>>::variant$',wrapde(m_enum_variant)); M(r' as VariantAccess<.*>>::unit_variant$',wrapde(m_variant_unit)); M(r' as VariantAccess<.*>>::newtype_variant$',wrapde(m_variant_newtype))
    M(r'ContentVisitor<.*> as DeserializeSeed<.*>>::deserialize$',m_content_deserialize)
    M(r' as (crypto::_::_serde::|serde::)?Deserialize<.*>>::deserialize$',wrapde(m_std_deserialize))
    M(r'__private\d*::de::missing_field$',m_missing_field)
    M(r' as (crypto::_::_serde::|serde::)?de::Error>::(custom|invalid_length|invalid_value|invalid_type|unknown_field|unknown_variant|duplicate_field|missing_field)$',m_de_error)
    M(r'__private\d*::from_utf8_lossy$',m_from_utf8_lossy)
    M(r'ContentVisitor::new$',m_content_visitor_new); M(r'ContentRefDeserializer::new$',m_content_ref_de_new)
    M(r'^(serde_json::)?from_value$',entry('tree')); M(r'^(serde_json::)?from_str$',entry(None)); M(r'^(serde_json::)?from_slice$',entry(None)); M(r'^(serde_json::)?from_reader$',entry('reader'))
