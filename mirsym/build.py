"""Construction of in-toto values for harnesses, by *field name* (indices come from the source index,
so harnesses survive field re-ordering) and conversion of values to plain JSON for native replay."""
import z3
from .values import *

class B:
    def __init__(self,eng): self.eng=eng; self.src=eng.src
    def struct(self,_sname,**kw):
        name=_sname
        names=self.src.structs[name]
        missing=[n for n in names if n not in kw]; extra=[k for k in kw if k not in names]
        if missing or extra: raise Unsupported('struct %s: missing %s extra %s'%(name,missing,extra))
        return Agg(name,[kw[n] for n in names])
    def get(self,agg,field):
        agg=deref(agg)
        return agg.f[self.src.structs[agg.ty].index(field)]
    def set(self,agg,field,v):
        agg=deref(agg)
        agg.f[self.src.structs[agg.ty].index(field)]=v
    def variant(self,enum,vname,fields=()):
        tab=self.eng.enums[enum]
        return Agg(enum,list(fields),tab.index(vname),vname)
    # ---- leaves
    def string(self,s): return mk_string(s)
    def keyid(self,s): return Agg('KeyId',[mk_string(s)])
    def vpath(self,s): return Agg('VirtualTargetPath',[mk_string(s)])
    def hashmap(self,pairs=(),tag=None):
        m=MapO(False,False,tag); m.e=[[k,v] for k,v in pairs]; return m
    def btreemap(self,pairs=()):
        m=MapO(True); m.e=[[k,v] for k,v in pairs]; return m
    def vec(self,items=()): return VecO(list(items))
    def command(self,args=()): return Agg('Command',[VecO([mk_string(a) for a in args])])
    def byproducts(self,return_value=None,stdout=None,stderr=None,other=()):
        return self.struct('ByProducts',
            return_value=some(return_value) if return_value is not None else none(),
            stderr=some(mk_string(stderr)) if stderr is not None else none(),
            stdout=some(mk_string(stdout)) if stdout is not None else none(),
            other_fields=self.btreemap([(mk_string(k),mk_string(v)) for k,v in other]))
    def target_description(self,digest_bytes,alg='Sha256'):
        """HashMap<HashAlgorithm,HashValue>; digest_bytes: list of byte terms"""
        return self.hashmap([(self.variant('HashAlgorithm',alg),Agg('HashValue',[u8vec(digest_bytes)]))])
    def link(self,name,materials=(),products=(),env=None,byproducts=None,command=()):
        return self.struct('LinkMetadata',name=mk_string(name),
            materials=self.btreemap(materials),products=self.btreemap(products),
            env=none() if env is None else some(self.btreemap(env)),
            byproducts=byproducts if byproducts is not None else self.byproducts(),
            command=self.command(command))
    def step(self,name,threshold,pub_keys=(),expected_materials=(),expected_products=(),expected_command=()):
        return self.struct('Step',typ=mk_string('step'),threshold=threshold if isinstance(threshold,Int) else Int(32,False,threshold),
            name=mk_string(name),expected_materials=VecO(list(expected_materials)),expected_products=VecO(list(expected_products)),
            pub_keys=VecO(list(pub_keys)),expected_command=self.command(expected_command))
    def inspection(self,name,run=(),expected_materials=(),expected_products=()):
        return self.struct('Inspection',typ=mk_string('inspection'),name=mk_string(name),
            expected_materials=VecO(list(expected_materials)),expected_products=VecO(list(expected_products)),run=self.command(run))
    def datetime(self,secs,nanos=0):
        return Agg('DateTime',[secs if isinstance(secs,Int) else Int(64,True,secs), nanos if isinstance(nanos,Int) else Int(32,False,nanos)])
    def layout(self,steps=(),inspect=(),keys=(),expires=None,readme=''):
        return self.struct('LayoutMetadata',steps=VecO(list(steps)),inspect=VecO(list(inspect)),
            keys=self.hashmap(keys,tag='layout.keys'),expires=expires if expires is not None else self.datetime(4102444800),readme=mk_string(readme))
    def pubkey(self,key_id,typ='Ed25519',scheme='Ed25519',value=b'\x01'*32,material=None):
        k=self.struct('PublicKey',typ=self.variant('KeyType',typ),key_id=self.keyid(key_id),
            scheme=self.variant('SignatureScheme',scheme),
            keyid_hash_algorithms=some(VecO([mk_string('sha256'),mk_string('sha512')])),
            value=Agg('PublicKeyValue',[u8vec(list(value))]))
        k.ghost={'material':material}
        return k
    def signature(self,key_id,ghost=None,value=b'\x00'):
        s=self.struct('Signature',key_id=self.keyid(key_id),value=Agg('SignatureValue',[u8vec(list(value))]))
        s.ghost=ghost
        return s
    def metablock(self,metadata,signatures=()):
        return self.struct('Metablock',signatures=VecO(list(signatures)),metadata=metadata)
    def wrap_link(self,l): return self.variant('MetadataWrapper','Link',[l])
    def wrap_layout(self,l): return self.variant('MetadataWrapper','Layout',[l])
    # rules
    def rule(self,kind,pattern,**kw):
        if kind=='Match':
            pl=self.src.enum_payload['ArtifactRule']['Match']
            vals={'pattern':self.vpath(pattern),
                  'in_src':some(mk_string(kw['in_src'])) if kw.get('in_src') is not None else none(),
                  'with':self.variant('Artifact',kw.get('with_','Products')),
                  'in_dst':some(mk_string(kw['in_dst'])) if kw.get('in_dst') is not None else none(),
                  'from':mk_string(kw['from_'])}
            return self.variant('ArtifactRule','Match',[vals[n] for n in pl])
        return self.variant('ArtifactRule',kind,[self.vpath(pattern)])

def model_value(m,t,default=0):
    """python value of z3 term t under model m (model completion on)"""
    if isinstance(t,(int,bool)): return t
    v=m.eval(t,model_completion=True)
    if z3.is_bv_value(v): return v.as_long()
    if z3.is_true(v): return True
    if z3.is_false(v): return False
    if z3.is_int_value(v): return v.as_long()
    return default

def concretize(v,m):
    """turn a value into plain python data under z3 model m (for replay scenarios / samples)"""
    v=deref(v)
    if isinstance(v,Int):
        x=model_value(m,v.v)
        if v.s and x>>(v.w-1): x-=1<<v.w
        return x
    if isinstance(v,Bool): return model_value(m,v.v)
    if isinstance(v,Char): return chr(v.v)
    if isinstance(v,(Str,StringO)):
        bs=bytes(model_value(m,x) for x in v.b)
        try: return bs.decode()
        except UnicodeDecodeError: return {'bytes':list(bs)}
    if isinstance(v,Unit): return None
    if isinstance(v,VecO):
        items=[concretize(x,m) for x in v.items]
        return items
    if isinstance(v,MapO):
        if v.is_set: return [concretize(k,m) for k,_ in v.e]
        return [[concretize(k,m),concretize(x,m)] for k,x in v.e]
    if isinstance(v,Agg):
        if v.ty=='Option': return None if v.vname=='None' else concretize(v.f[0],m)
        d={'_t':v.ty}
        if v.vname: d['_v']=v.vname
        d['f']=[concretize(x,m) for x in v.f]
        return d
    if isinstance(v,Opaque): return {'_opaque':v.kind}
    return repr(v)
