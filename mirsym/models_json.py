"""Models of serde_json / itoa used by the canonical-JSON writer (dependencies, DESIGN.md §3.4).

serde_json::Value  = Agg('serde_json::Value', ...) with variants Null, Bool(b), Number(n), String(s), Array(vec), Object(map)
serde_json::Number = Agg('serde_json::Number',[Agg('N',[x],variant,vname)])  vname in PosInt(u64) / NegInt(i64, negative) / Float(bits)
serde_json::Map    = MapO(ordered=True): serde_json is built without `preserve_order`, so Map is a BTreeMap (sorted by key bytes)
"""
import z3
from .values import *
from .models import utf8_valid

def jnull(): return Agg('serde_json::Value',[],0,'Null')
def jbool(b): return Agg('serde_json::Value',[b],1,'Bool')
def jnum(kind,x): return Agg('serde_json::Value',[Agg('serde_json::Number',[Agg('N',[x],['PosInt','NegInt','Float'].index(kind),kind)])],2,'Number')
def jstr(s): return Agg('serde_json::Value',[s if isinstance(s,StringO) else mk_string(s)],3,'String')
def jarr(items): return Agg('serde_json::Value',[VecO(list(items))],4,'Array')
def jobj(pairs):
    m=MapO(True); m.e=[[k if isinstance(k,StringO) else mk_string(k),v] for k,v in pairs]
    return Agg('serde_json::Value',[m],5,'Object')

def m_as_i64(e,run,a,f):
    n=deref(a[0]).f[0]; x=n.f[0]
    if n.vname=='PosInt':
        if run.branch_bool(e.binop('Le',x,Int(64,False,(1<<63)-1)),'fits_i64'): return some(Int(64,True,x.v))
        return none()
    if n.vname=='NegInt': return some(x)
    return none()
def m_as_u64(e,run,a,f):
    n=deref(a[0]).f[0]; x=n.f[0]
    if n.vname=='PosInt': return some(x)
    return none()
def m_as_f64(e,run,a,f):
    raise Unsupported('Number::as_f64')
def m_is_i64(e,run,a,f): return Bool(m_as_i64(e,run,a,f).vname=='Some')
def m_is_u64(e,run,a,f): return Bool(deref(a[0]).f[0].vname=='PosInt')
def m_is_f64(e,run,a,f): return Bool(deref(a[0]).f[0].vname=='Float')

ESC={0x22:b'\\"',0x5c:b'\\\\',0x08:b'\\b',0x0c:b'\\f',0x0a:b'\\n',0x0d:b'\\r',0x09:b'\\t'}
HEX=b'0123456789abcdef'
def json_escape(run,bl):
    """serde_json's string escaping (CompactFormatter): short escapes for \" \\ \\b \\f \\n \\r \\t,
    \\u00XX for the other bytes below 0x20, everything else (including DEL and non-ASCII) verbatim."""
    out=[0x22]
    for x in bl:
        if isinstance(x,int):
            if x in ESC: out.extend(ESC[x])
            elif x<0x20: out.extend(b'\\u00'+bytes([HEX[x>>4],HEX[x&15]]))
            else: out.append(x)
            continue
        ax=allowed(x)
        if ax is not None and all(v>=0x20 and v not in (0x22,0x5c) for v in ax): out.append(x); continue
        opts=[x==k for k in ESC]+[z3.And(z3.ULT(x,0x20),*[x!=k for k in ESC]),z3.And(z3.UGE(x,0x20),x!=0x22,x!=0x5c)]
        k=run.choose(opts,'jsonescape')
        keys=list(ESC)
        if k<len(keys): out.extend(ESC[keys[k]])
        elif k==len(keys):
            # \u00XX with symbolic hex digits
            hi=z3.If(z3.LShR(x,4)==1,z3.BitVecVal(ord('1'),8),z3.BitVecVal(ord('0'),8))
            lo4=x&0x0f
            lo=z3.If(z3.ULT(lo4,10),lo4+0x30,lo4+0x57)
            out.extend(b'\\u00'); out.append(z3.simplify(hi)); out.append(z3.simplify(lo))
        else: out.append(x)
    out.append(0x22)
    return out
def m_to_string(e,run,a,f):
    """serde_json::to_string(&T): only the forms the crate uses through this entry (a JSON string value)"""
    v=deref(a[0])
    if isinstance(v,Agg) and v.ty=='serde_json::Value' and v.vname=='String':
        s=deref(v.f[0])
        if s.taint: return ok(StringO(list(b'"<opaque>"'),True,{'kind':'json-of','inner':s.ghost}))
        return ok(StringO(json_escape(run,s.b)))
    if isinstance(v,(StringO,Str)): return ok(StringO(json_escape(run,v.b)))
    raise Unsupported('serde_json::to_string of '+repr(v)[:60])

def decimal_digits(run,mag,width=64):
    """digits of an unsigned magnitude term: forks on the number of digits, returns byte terms with an
    exact positional constraint (no division: sum d_i*10^i == mag over a wider bit-vector)"""
    if isinstance(mag,int): return list(str(mag).encode())
    memo=run.ghost.setdefault('_itoa',{})
    mk=(mag.get_id(),width)
    if mk in memo: return list(memo[mk][1])
    W=width+8
    m=z3.ZeroExt(W-width,mag)
    maxd=len(str((1<<width)-1))
    opts=[]
    for k in range(1,maxd+1):
        lo=0 if k==1 else 10**(k-1); hi=10**k-1
        c=z3.UGE(m,lo)
        if hi<(1<<width): c=z3.And(c,z3.ULE(m,hi))
        opts.append(c)
    k=run.choose(opts,'ndigits')+1
    n=run.fresh_n['itoa']; run.fresh_n['itoa']+=1
    ds=[note_allowed(z3.BitVec('itoa%d_d%d'%(n,i),8),b'0123456789') for i in range(k)]
    total=z3.BitVecVal(0,W)
    for d in ds:
        run.add(z3.UGE(d,0x30),z3.ULE(d,0x39))
        total=total*10+z3.ZeroExt(W-8,d-0x30)
    run.add(total==m)
    memo[mk]=(mag,ds)
    return ds
def m_itoa_new(e,run,a,f): return Opaque('itoa::Buffer')
def m_itoa_format(e,run,a,f):
    n=deref(a[1])
    if not isinstance(n,Int): raise Unsupported('itoa format of '+repr(n)[:40])
    if n.conc(): return Ref(Cell(Str(list(str(n.signed_val()).encode()))))
    if n.s:
        if run.branch_bool(Bool(n.v<0),'negative'):
            mag=z3.ZeroExt(8,0-n.v) if False else (0-n.v)       # two's complement magnitude (i64::MIN -> 2^63 as unsigned)
            return Ref(Cell(Str([0x2d]+decimal_digits(run,mag,n.w))))
        return Ref(Cell(Str(decimal_digits(run,n.v,n.w))))
    return Ref(Cell(Str(decimal_digits(run,n.v,n.w))))
def number_text(run,num):
    """serde_json's Display of a Number: integers through itoa, floats as the shortest round-trip text (ryu) - the text of a
    float is carried by the harness (Opaque('f64', text)), default 1.5"""
    n=deref(num).f[0]
    if n.vname=='Float':
        t=deref(n.f[0]).p if isinstance(deref(n.f[0]),Opaque) and isinstance(deref(n.f[0]).p,str) else '1.5'
        return list(t.encode())
    x=n.f[0]
    if x.conc(): return list(str(x.signed_val() if n.vname=='NegInt' else x.v).encode())
    if n.vname=='NegInt': return [0x2d]+decimal_digits(run,0-x.v,64)
    return decimal_digits(run,x.v,64)
def m_number_to_string(e,run,a,f): return StringO(number_text(run,a[0]))
def m_map_iter_sorted(e,run,a,f):
    from .models import to_iter
    return to_iter(e,run,a[0] if isinstance(a[0],Ref) else Ref(Cell(a[0])))
def m_json_err_to_string(e,run,a,f): return mk_string('<serde_json error>',True)
def m_json_clone(e,run,a,f):
    from .models import clone_val
    return clone_val(deref(a[0]))
def register(E):
    M=E.model
    M(r'^serde_json::Number::as_i64$',m_as_i64); M(r'^serde_json::Number::as_u64$',m_as_u64); M(r'^serde_json::Number::as_f64$',m_as_f64)
    M(r'^serde_json::Number::is_i64$',m_is_i64); M(r'^serde_json::Number::is_u64$',m_is_u64); M(r'^serde_json::Number::is_f64$',m_is_f64)
    M(r'^(serde_json::)?to_string$',m_to_string)
    M(r'^(itoa::)?Buffer::new$',m_itoa_new); M(r'^(itoa::)?Buffer::format$',m_itoa_format)
    M(r'^serde_json::Map::iter$',m_map_iter_sorted)
    M(r'^<serde_json::Value as Clone>::clone$',m_json_clone)
