//! Engine 2: Kani / CBMC proof harnesses over the *compiled* crate (real `std`, no models), for byte-level
//! kernels where the standard library's own behaviour is the point (UTF-8 boundaries).  Run by
//! `/verif/harness/kani_engine.py`; bounds are stated per harness and unwinding assertions stay on.
#![allow(dead_code)]

#[cfg(kani)]
mod proofs {
    use in_toto::crypto::KeyId;
    use std::str::FromStr;

    const HEX: &[u8; 64] = b"0123456789abcdef0123456789abcdef0123456789abcdef0123456789abcdef";

    /// A 64-byte key id made of hex digits with ONE arbitrary Unicode scalar value placed so that it starts at byte
    /// offset `OFF` (5..=7: the character may straddle byte 8, where the short id used to be cut).
    fn keyid_with_char_at(off: usize, c: char) -> Option<String> {
        let mut s = String::with_capacity(64);
        for i in 0..off { s.push(HEX[i] as char); }
        s.push(c);
        let mut i = off + c.len_utf8();
        if i > 64 { return None; }
        while i < 64 { s.push(HEX[i] as char); i += 1; }
        Some(s)
    }

    fn check(off: usize) {
        let c: char = kani::any();
        if let Some(s) = keyid_with_char_at(off, c) {
            // the decoder accepts any 64-byte string as a key id (link files are attacker-controlled)
            if let Ok(id) = KeyId::from_str(&s) {
                let p = id.prefix();                       // must not panic
                assert!(s.starts_with(p.as_str()));       // and is a prefix of the id
                assert!(p.len() >= 8 && p.len() <= 11);   // 8 characters, one of them 1..4 bytes long
            }
        }
    }

    #[kani::proof]
    #[kani::unwind(66)]
    fn keyid_prefix_char_at_7() { check(7) }

    #[kani::proof]
    #[kani::unwind(66)]
    fn keyid_prefix_char_at_5() { check(5) }

    /// vacuity witness: the harness reaches `prefix()` (this assertion must FAIL)
    #[kani::proof]
    #[kani::unwind(66)]
    fn keyid_prefix_reachability_witness() {
        let c: char = kani::any();
        if let Some(s) = keyid_with_char_at(7, c) {
            if let Ok(id) = KeyId::from_str(&s) {
                let p = id.prefix();
                assert!(p.len() == 0, "witness: reached the end of the harness");
            }
        }
    }
}
