//! Engine 2: Kani / CBMC proof harnesses over the *compiled* crate (real `std`, no models), for byte-level
//! kernels where the standard library's own behaviour is the point (UTF-8 boundaries).  Run by
//! `/verif/harness/kani_engine.py`; bounds are stated per harness and unwinding assertions stay on.
#![allow(dead_code)]

#[cfg(kani)]
mod proofs {
    use in_toto::crypto::KeyId;
    use std::str::FromStr;

    /// A 64-byte key id: 7 hex digits, ONE arbitrary Unicode scalar value (1..4 bytes, so it may straddle byte 8, where the
    /// short id used to be cut), hex digits up to 64 bytes.
    fn keyid_with_char_at_7(c: char) -> String {
        let mut s = String::with_capacity(64);
        s.push_str("0123456");
        s.push(c);
        match c.len_utf8() {
            1 => s.push_str("89abcdef0123456789abcdef0123456789abcdef0123456789abcdef"),
            2 => s.push_str("9abcdef0123456789abcdef0123456789abcdef0123456789abcdef"),
            3 => s.push_str("abcdef0123456789abcdef0123456789abcdef0123456789abcdef"),
            _ => s.push_str("bcdef0123456789abcdef0123456789abcdef0123456789abcdef"),
        }
        s
    }

    #[kani::proof]
    #[kani::unwind(70)]
    fn keyid_prefix_char_at_7() {
        let c: char = kani::any();
        let s = keyid_with_char_at_7(c);
        assert!(s.len() == 64);
        // the decoder accepts any 64-byte string as a key id (link files are attacker-controlled)
        if let Ok(id) = KeyId::from_str(&s) {
            let p = id.prefix();                       // must not panic
            assert!(p.len() == 7 + c.len_utf8());     // 8 characters: seven digits and the arbitrary one
            kani::cover!(c.len_utf8() == 4, "a 4-byte character straddling byte 8 reaches prefix()");
        }
    }
}
